"""Mutants (one broken rule instance each; all compile) and benign refactors.
`expect` maps property -> accepted rule-id prefixes of the reported key."""

MUTANTS = [
    {'name': 'mutex-fair-notified-drop-no-unlink', 'file': 'src/sync/mutex.rs',
     'old': '''                    unsafe { self.force_remove_waiter(wait_node) };
                }
                wait_node.state = PollState::Done;
                // Since the task was notified but did not lock the Mutex,''',
     'new': '''                }
                wait_node.state = PollState::Done;
                // Since the task was notified but did not lock the Mutex,''',
     'expect': {'C01': ['C01.I1']}},
    {'name': 'mutex-return-last-waiter-always-removes', 'file': 'src/sync/mutex.rs',
     'old': '''        let last_waiter = if self.is_fair {
            self.waiters.peek_last_mut()
        } else {
            self.waiters.remove_last()
        };''',
     'new': '''        let last_waiter = self.waiters.remove_last();''',
     'expect': {'C01': ['C01.I1']}},
    {'name': 'event-registered-without-add', 'file': 'src/sync/manual_reset_event.rs',
     'old': '''                    wait_node.state = PollState::Waiting;
                    self.waiters.add_front(wait_node);''',
     'new': '''                    wait_node.state = PollState::Waiting;''',
     'expect': {'C01': ['C01.I1']}},
    {'name': 'timer-expire-without-remove', 'file': 'src/timer/timer.rs',
     'old': '''                // Remove the expired timer
                self.waiters.remove(entry);''',
     'new': '''                // Remove the expired timer
                if first_expiry != 0 { self.waiters.remove(entry); } else { break; }''',
     'expect': {'C01': ['C01.I1']}},
    {'name': 'mpmc-close-forgets-state', 'file': 'src/channel/mpmc.rs',
     'old': '''        waiter.state = SendPollState::Unregistered;
    });''',
     'new': '''    });''',
     'expect': {'C01': ['C01.I1']}},
    # ---------------------------------------------------------------- C02
    {'name': 'mutex-fair-notified-locks-without-test', 'file': 'src/sync/mutex.rs',
     'old': '''                if !self.is_locked {
                    if self.is_fair {
                        // In a fair Mutex, the WaitQueueEntry is kept in the
                        // linked list and must be removed here
                        // Safety: Due to the state, we know that the node must be part
                        // of the waiter list
                        self.force_remove_waiter(wait_node);
                    }
                    self.is_locked = true;''',
     'new': '''                if !self.is_locked || self.is_fair {
                    if self.is_fair {
                        self.force_remove_waiter(wait_node);
                    }
                    self.is_locked = true;''',
     'expect': {'C02': ['C02.R2', 'C02.R1']}},
    {'name': 'mutex-remove-waiter-clears-lock', 'file': 'src/sync/mutex.rs',
     'old': '''                wait_node.state = PollState::Done;
                // Since the task was notified but did not lock the Mutex,''',
     'new': '''                wait_node.state = PollState::Done;
                self.is_locked = false;
                // Since the task was notified but did not lock the Mutex,''',
     'expect': {'C02': ['C02.R3']}},
    {'name': 'mutex-guard-clone', 'file': 'src/sync/mutex.rs',
     'old': '''impl<MutexType: RawMutex, T> Deref for GenericMutexGuard<'_, MutexType, T> {''',
     'new': '''impl<MutexType: RawMutex, T> Clone for GenericMutexGuard<'_, MutexType, T> {
    fn clone(&self) -> Self { GenericMutexGuard { mutex: self.mutex } }
}

impl<MutexType: RawMutex, T> Deref for GenericMutexGuard<'_, MutexType, T> {''',
     'expect': {'C02': ['C02.R4', 'C02.R1']}},
    {'name': 'mutex-get-mut-unchecked', 'file': 'src/sync/mutex.rs',
     'old': '''    /// Returns whether the mutex is locked.
    pub fn is_locked(&self) -> bool {''',
     'new': '''    /// Peeks at the value.
    pub fn peek(&self) -> &T {
        unsafe { &*self.value.get() }
    }

    /// Returns whether the mutex is locked.
    pub fn is_locked(&self) -> bool {''',
     'expect': {'C02': ['C02.R4']}},
    {'name': 'mutex-try-lock-ignores-result', 'file': 'src/sync/mutex.rs',
     'old': '''        if self.state.lock().try_lock_sync() {
            Some(GenericMutexGuard { mutex: self })''',
     'new': '''        if self.state.lock().try_lock_sync() || !self.state.lock().is_locked() {
            Some(GenericMutexGuard { mutex: self })''',
     'expect': {'C02': ['C02.R1']}},
    # ---------------------------------------------------------------- C03
    {'name': 'mutex-future-drop-discards-waker', 'file': 'src/sync/mutex.rs',
     'old': '''            let mut mutex_state = mutex.state.lock();
            mutex_state.remove_waiter(&mut self.wait_node)
        } else {
            None
        };''',
     'new': '''            let mut mutex_state = mutex.state.lock();
            let _ = mutex_state.remove_waiter(&mut self.wait_node);
            None::<Waker>
        } else {
            None
        };''',
     'expect': {'C03': ['C03.R4']}},
    {'name': 'mutex-fair-waiting-no-waker-update', 'file': 'src/sync/mutex.rs',
     'old': '''                    // passed a different `Waker`. In this case we need to update it.
                    update_waker_ref(&mut wait_node.task, cx);
                    Poll::Pending
                } else {''',
     'new': '''                    // passed a different `Waker`. In this case we need to update it.
                    Poll::Pending
                } else {''',
     'expect': {'C03': ['C03.R5']}},
    {'name': 'mutex-notified-drop-no-forward', 'file': 'src/sync/mutex.rs',
     'old': '''                // another task gets the chance to run.
                self.return_last_waiter()
            }''',
     'new': '''                // another task gets the chance to run.
                if self.is_locked { self.return_last_waiter() } else { None }
            }''',
     'expect': {'C03': ['C03.R2']}},
    {'name': 'mutex-unlock-returns-none', 'file': 'src/sync/mutex.rs',
     'old': '''            // Wakeup the last waiter
            self.return_last_waiter()
        } else {''',
     'new': '''            // Wakeup the last waiter
            if self.is_fair { self.return_last_waiter() } else { None }
        } else {''',
     'expect': {'C03': ['C03.R1']}},
    {'name': 'mutex-return-last-keeps-waker', 'file': 'src/sync/mutex.rs',
     'old': '''            let task = &mut last_waiter.task;
            return task.take();''',
     'new': '''            let task = &mut last_waiter.task;
            return task.clone();''',
     'expect': {'C03': ['C03.R1', 'C03.R2']}},
    {'name': 'update-waker-ref-inverted', 'file': 'src/utils/mod.rs',
     'old': '''.map_or(true, |stored_waker| !stored_waker.will_wake(cx.waker()))''',
     'new': '''.map_or(false, |stored_waker| !stored_waker.will_wake(cx.waker()))''',
     'expect': {'C03': ['C03.R5h']}},
    {'name': 'mutex-requeue-keeps-old-waker', 'file': 'src/sync/mutex.rs',
     'old': '''                    debug_assert!(!self.is_fair);
                    // Add to queue
                    wait_node.task = Some(cx.waker().clone());''',
     'new': '''                    debug_assert!(!self.is_fair);
                    // Add to queue
                    if wait_node.task.is_none() { wait_node.task = Some(cx.waker().clone()); }''',
     'expect': {'C03': ['C03.R5']}},
    # ---------------------------------------------------------------- C04
    {'name': 'mutex-try-lock-sync-ignores-waiters', 'file': 'src/sync/mutex.rs',
     'old': '''        if !self.is_locked && (!self.is_fair || self.waiters.is_empty()) {''',
     'new': '''        if !self.is_locked {''',
     'expect': {'C04': ['C04.R1']}},
    {'name': 'mutex-fair-waiting-grabs-free-lock', 'file': 'src/sync/mutex.rs',
     'old': '''                if self.is_fair {
                    // The task needs to wait until it gets notified in order to
                    // maintain the ordering. However the caller might have''',
     'new': '''                if self.is_fair && self.is_locked {
                    // The task needs to wait until it gets notified in order to
                    // maintain the ordering. However the caller might have''',
     'expect': {'C04': ['C04.R1']}},
    {'name': 'mutex-notify-newest', 'file': 'src/sync/mutex.rs',
     'old': '''            self.waiters.remove_last()
        };''',
     'new': '''            self.waiters.remove_first()
        };''',
     'expect': {'C04': ['C04.R2'], 'C03': ['C03.R1']}},
    {'name': 'mutex-fair-notify-unlinks', 'file': 'src/sync/mutex.rs',
     'old': '''        let last_waiter = if self.is_fair {
            self.waiters.peek_last_mut()''',
     'new': '''        let last_waiter = if self.is_fair && self.is_locked {
            self.waiters.peek_last_mut()''',
     'expect': {'C04': ['C04.R3']}},
    # ---------------------------------------------------------------- C05
    {'name': 'sem-waiting-subtracts-unguarded', 'file': 'src/sync/semaphore.rs',
     'old': '''                    if self.permits >= wait_node.required_permits {
                        self.permits -= wait_node.required_permits;
                        wait_node.state = PollState::Done;''',
     'new': '''                    if self.permits >= 1 {
                        self.permits -= wait_node.required_permits;
                        wait_node.state = PollState::Done;''',
     'expect': {'C05': ['C05.R1']}},
    {'name': 'sem-try-acquire-releaser-off-by-one', 'file': 'src/sync/semaphore.rs',
     'old': '''            Some(GenericSemaphoreReleaser {
                semaphore: self,
                permits: nr_permits,
            })''',
     'new': '''            Some(GenericSemaphoreReleaser {
                semaphore: self,
                permits: nr_permits + 1,
            })''',
     'expect': {'C05': ['C05.R4']}},
    {'name': 'sem-release-early-return', 'file': 'src/sync/semaphore.rs',
     'old': '''        if permits == 0 {
            return;
        }
        // TODO: Overflow check''',
     'new': '''        if permits == 0 || (self.is_fair && self.waiters.is_empty() && permits == 1) {
            return;
        }
        // TODO: Overflow check''',
     'expect': {'C05': ['C05.R5', 'C05.R2']}},
    {'name': 'sem-disarm-not-zeroing', 'file': 'src/sync/semaphore.rs',
     'old': '''        let permits = self.permits;
        self.permits = 0;
        permits
    }
}

impl<MutexType: RawMutex> Drop for GenericSemaphoreReleaser''',
     'new': '''        let permits = self.permits;
        permits
    }
}

impl<MutexType: RawMutex> Drop for GenericSemaphoreReleaser''',
     'expect': {'C05': ['C05.R5']}},
    {'name': 'sem-notified-double-subtract', 'file': 'src/sync/semaphore.rs',
     'old': '''                    self.permits -= wait_node.required_permits;
                    if self.is_fair {
                        // There might be another task which is ready to run,''',
     'new': '''                    self.permits -= wait_node.required_permits;
                    if self.is_fair && self.permits >= wait_node.required_permits && self.waiters.is_empty() {
                        self.permits -= wait_node.required_permits;
                    }
                    if self.is_fair {
                        // There might be another task which is ready to run,''',
     'expect': {'C05': ['C05.R3']}},
    # ---------------------------------------------------------------- C06
    {'name': 'revert-fix-D1a', 'file': 'src/sync/semaphore.rs', 'passes_suite': True,
     'old': '''                // The removed waiter might have been blocking waiters
                // behind it, which can be served by the available permits.
                self.wakeup_waiters();
''', 'new': '',
     'expect': {'C06': ['C06.R3']}},
    {'name': 'revert-fix-D1b', 'file': 'src/sync/semaphore.rs', 'passes_suite': True,
     'old': '''                    // The permits this waiter was notified for are still
                    // available to waiters which queued up behind it.
                    self.wakeup_waiters();
''', 'new': '',
     'expect': {'C06': ['C06.R4']}},
    {'name': 'sem-release-without-wakeup', 'file': 'src/sync/semaphore.rs',
     'old': '''        // Wakeup the last waiter
        self.wakeup_waiters();
    }''',
     'new': '''        // Wakeup the last waiter
        if self.is_fair { self.wakeup_waiters(); }
    }''',
     'expect': {'C06': ['C06.R1']}},
    {'name': 'sem-notified-drop-no-rewake', 'file': 'src/sync/semaphore.rs',
     'old': '''                wait_node.state = PollState::Done;
                // Wakeup more waiters
                self.wakeup_waiters();''',
     'new': '''                wait_node.state = PollState::Done;
                // Wakeup more waiters
                if !self.is_fair { self.wakeup_waiters(); }''',
     'expect': {'C06': ['C06.R2']}},
    {'name': 'sem-fair-grant-no-rewake', 'file': 'src/sync/semaphore.rs',
     'old': '''                    if self.is_fair {
                        // There might be another task which is ready to run,
                        // but couldn't, since it was blocked behind the fair waiter.
                        self.wakeup_waiters();
                    }''',
     'new': '',
     'expect': {'C06': ['C06.R2']}},
    {'name': 'sem-wakeup-marks-without-waking', 'file': 'src/sync/semaphore.rs',
     'old': '''                        if let Some(ref handle) = task {
                            handle.wake_by_ref();
                        }''',
     'new': '''                        if let Some(ref handle) = task {
                            if self.is_fair { handle.wake_by_ref(); }
                        }''',
     'expect': {'C06': ['C06.R5']}},
    {'name': 'sem-wakeup-ignores-fit', 'file': 'src/sync/semaphore.rs',
     'old': '''                    if available < last_waiter.required_permits {
                        return;
                    }''',
     'new': '''                    if available < last_waiter.required_permits && !self.is_fair {
                        return;
                    }''',
     'expect': {'C06': ['C06.R5']}},
    {'name': 'sem-requeue-forgets-waker', 'file': 'src/sync/semaphore.rs',
     'old': '''                    // Add to queue
                    wait_node.task = Some(cx.waker().clone());
                    wait_node.state = PollState::Waiting;
                    self.waiters.add_front(wait_node);
                    // The permits''',
     'new': '''                    // Add to queue
                    wait_node.state = PollState::Waiting;
                    self.waiters.add_front(wait_node);
                    // The permits''',
     'expect': {'C06': ['C06.R6']}},
    # ---------------------------------------------------------------- C07
    {'name': 'sem-try-acquire-sync-ignores-waiters', 'file': 'src/sync/semaphore.rs',
     'old': '''            && (!self.is_fair
                || self.waiters.is_empty()
                || required_permits == 0)''',
     'new': '''            && (!self.is_fair
                || true
                || required_permits == 0)''',
     'expect': {'C07': ['C07.R1']}},
    {'name': 'sem-fair-waiting-acquires', 'file': 'src/sync/semaphore.rs',
     'old': '''                if self.is_fair {
                    // The task needs to wait until it gets notified in order to
                    // maintain the ordering.
                    // However the caller might have passed a different `Waker`.''',
     'new': '''                if self.is_fair && self.permits < wait_node.required_permits {
                    // The task needs to wait until it gets notified in order to
                    // maintain the ordering.
                    // However the caller might have passed a different `Waker`.''',
     'expect': {'C07': ['C07.R1']}},
    {'name': 'sem-wakeup-from-front', 'file': 'src/sync/semaphore.rs',
     'old': '''            match self.waiters.peek_last_mut() {''',
     'new': '''            match self.waiters.peek_first_mut() {''',
     'expect': {'C07': ['C07.R3', 'C07.R4'], 'C06': ['C06.R5']}},
    {'name': 'sem-no-zero-fast-path', 'file': 'src/sync/semaphore.rs',
     'old': '''                || self.waiters.is_empty()
                || required_permits == 0)''',
     'new': '''                || self.waiters.is_empty())''',
     'expect': {'C07': ['C07.R2']}},
    {'name': 'sem-fair-wakes-two', 'file': 'src/sync/semaphore.rs',
     'old': '''                        // However the we currently can't peek iterate in reverse order.
                        return;''',
     'new': '''                        // However the we currently can't peek iterate in reverse order.
                        if available == 0 { return; }
                        self.waiters.remove_last();''',
     'expect': {'C07': ['C07.R4']}},
    # ---------------------------------------------------------------- C16
    {'name': 'revert-fix-D2', 'file': 'src/sync/mutex.rs', 'passes_suite': True,
     'old': "unsafe impl<'a, MutexType: RawMutex + Sync, T: Send + 'a> Send",
     'new': "unsafe impl<'a, MutexType: RawMutex + Sync, T: 'a> Send",
     'expect': {'C16': ['C16.L2|GenericMutexLockFuture', 'C16.L1|mutex-lock-future']}},
    {'name': 'revert-fix-D4', 'file': 'src/channel/mpmc.rs', 'passes_suite': True,
     'old': '''    for GenericChannel<MutexType, T, A>
where
    A: RingBuf<Item = T> + Send,
{
}

impl<MutexType: RawMutex, T, A> core::fmt::Debug''',
     'new': '''    for GenericChannel<MutexType, T, A>
where
    A: RingBuf<Item = T>,
{
}

impl<MutexType: RawMutex, T, A> core::fmt::Debug''',
     'expect': {'C16': ['C16.L2|GenericChannel|Sync', 'C16.L1|channel[i32,rcbuf]']}},
    {'name': 'channel-send-future-no-t-send', 'file': 'src/channel/channel_future.rs',
     'old': '''unsafe impl<'a, MutexType: Sync, T: Send> Send
    for ChannelSendFuture<'a, MutexType, T>''',
     'new': '''unsafe impl<'a, MutexType: Sync, T> Send
    for ChannelSendFuture<'a, MutexType, T>''',
     'expect': {'C16': ['C16.L2|ChannelSendFuture', 'C16.L1|channel-send-future']}},
    {'name': 'listnode-unpin', 'edits': [
        {'file': 'src/intrusive_double_linked_list.rs',
         'old': '''    /// the list semantics require addresses to be stable.
    _pin: PhantomPinned,
}''',
         'new': '''    /// the list semantics require addresses to be stable.
    _pin: core::marker::PhantomData<()>,
}'''},
        {'file': 'src/intrusive_double_linked_list.rs',
         'old': '''            data,
            _pin: PhantomPinned,''',
         'new': '''            data,
            _pin: core::marker::PhantomData,'''}],
     'expect': {'C16': ['C16.L3', 'C16.L1']}},
    {'name': 'nooplock-sync', 'file': 'src/noop_lock.rs',
     'old': '''    _phantom: PhantomData<*mut ()>,''',
     'new': '''    _phantom: PhantomData<()>,''',
     'expect': {'C16': ['C16.L3', 'C16.L1|local']}},
    {'name': 'guard-sync-without-t-sync', 'file': 'src/sync/mutex.rs',
     'old': '''unsafe impl<MutexType: RawMutex, T: Sync> Sync
    for GenericMutexGuard<'_, MutexType, T>''',
     'new': '''unsafe impl<MutexType: RawMutex, T> Sync
    for GenericMutexGuard<'_, MutexType, T>''',
     'expect': {'C16': ['C16.L2|GenericMutexGuard', 'C16.L1|mutex-guard']}},
    {'name': 'timer-future-send-from-local', 'file': 'src/timer/timer.rs',
     'old': '''impl<MutexType: RawMutex> Timer for GenericTimerService<MutexType>
where
    MutexType: Sync,
{''',
     'new': '''impl<MutexType: RawMutex> Timer for GenericTimerService<MutexType>
{''',
     'expect': {'C16': ['C16.L2e|TimerFuture']}},
    {'name': 'oneshot-sync-without-t-send', 'file': 'src/channel/oneshot.rs',
     'old': '''unsafe impl<MutexType: RawMutex + Sync, T: Send> Sync
    for GenericOneshotChannel<MutexType, T>''',
     'new': '''unsafe impl<MutexType: RawMutex + Sync, T> Sync
    for GenericOneshotChannel<MutexType, T>''',
     'expect': {'C16': ['C16.L2|GenericOneshotChannel|Sync', 'C16.L1|oneshot[rc]']}},
    {'name': 'shared-semaphore-unconditional-send', 'file': 'src/sync/semaphore.rs',
     'old': '''    unsafe impl<MutexType: RawMutex + Sync> Send
        for GenericSharedSemaphoreAcquireFuture<MutexType>''',
     'new': '''    unsafe impl<MutexType: RawMutex> Send
        for GenericSharedSemaphoreAcquireFuture<MutexType>''',
     'expect': {'C16': ['C16.L2|GenericSharedSemaphoreAcquireFuture']}},
    # ---------------------------------------------------------------- C11
    {'name': 'revert-fix-D3', 'passes_suite': True, 'edits': [
        {'file': 'src/channel/oneshot_broadcast.rs',
         'old': '''                if self.inner.receivers.fetch_sub(1, Ordering::Release) != 1 {
                    return;
                }
                core::sync::atomic::fence(Ordering::Acquire);
''', 'new': ''},
        {'file': 'src/channel/oneshot_broadcast.rs',
         'old': '''                let old_size =
                    self.inner.receivers.fetch_add(1, Ordering::Relaxed);
                if old_size > (core::isize::MAX) as usize {
                    panic!("Reached maximum refcount");
                }
''', 'new': ''}],
     'expect': {'C11': ['C11.R5|GenericOneshotBroadcastReceiver|uncounted-close']}},
    {'name': 'state-receiver-close-on-nonlast', 'file': 'src/channel/state_broadcast.rs',
     'old': '''                if self.inner.receivers.fetch_sub(1, Ordering::Release) != 1 {''',
     'new': '''                if self.inner.receivers.fetch_sub(1, Ordering::Release) == 0 {''',
     'expect': {'C11': ['C11.R5']}},
    {'name': 'mpmc-sender-drop-decrements-receivers', 'file': 'src/channel/mpmc.rs',
     'old': '''                if self.inner.senders.fetch_sub(1, Ordering::Release) != 1 {''',
     'new': '''                if self.inner.receivers.fetch_sub(1, Ordering::Release) != 1 {''',
     'expect': {'C11': ['C11.R5']}},
    {'name': 'mpmc-close-reopens', 'file': 'src/channel/mpmc.rs',
     'old': '''        if self.is_closed {
            return CloseStatus::AlreadyClosed;
        }
        self.is_closed = true;''',
     'new': '''        if self.is_closed {
            self.is_closed = !self.buffer.is_empty();
            return CloseStatus::AlreadyClosed;
        }
        self.is_closed = true;''',
     'expect': {'C11': ['C11.R1', 'C11.R2']}},
    {'name': 'mpmc-try-receive-closed-first', 'file': 'src/channel/mpmc.rs',
     'old': '''        if !self.buffer.is_empty() {
            let val = self.buffer.pop();''',
     'new': '''        if self.is_closed {
            return Err(TryReceiveError::Closed);
        }
        if !self.buffer.is_empty() {
            let val = self.buffer.pop();''',
     'expect': {'C11': ['C11.R4']}},
    {'name': 'mpmc-close-drains-only-receivers', 'file': 'src/channel/mpmc.rs',
     'old': '''        wake_recv_waiters(&mut self.receive_waiters);
        wake_send_waiters(&mut self.send_waiters);

        CloseStatus::NewlyClosed''',
     'new': '''        wake_recv_waiters(&mut self.receive_waiters);

        CloseStatus::NewlyClosed''',
     'expect': {'C11': ['C11.R2']}},
    {'name': 'state-send-ignores-closed', 'file': 'src/channel/state_broadcast.rs',
     'old': '''        if self.is_closed || self.state_id.0 == core::u64::MAX {''',
     'new': '''        if self.state_id.0 == core::u64::MAX {''',
     'expect': {'C11': ['C11.R3']}},
    {'name': 'mpmc-send-parks-on-closed-full', 'file': 'src/channel/mpmc.rs',
     'old': '''                if self.is_closed {
                    let value = wait_node.value.take();
                    return (Poll::Ready(()), value, None);
                }

                if !self.buffer.can_push() {''',
     'new': '''                if self.is_closed && self.buffer.can_push() {
                    let value = wait_node.value.take();
                    return (Poll::Ready(()), value, None);
                }

                if !self.buffer.can_push() {''',
     'expect': {'C11': ['C11.R3']}},
    {'name': 'oneshot-close-no-drain', 'file': 'src/channel/oneshot.rs',
     'old': '''        self.is_fulfilled = true;

        // Wakeup all waiters
        wake_waiters(&mut self.waiters);

        CloseStatus::NewlyClosed''',
     'new': '''        self.is_fulfilled = true;

        CloseStatus::NewlyClosed''',
     'expect': {'C11': ['C11.R2']}},
    {'name': 'mpmc-last-receiver-no-clear', 'file': 'src/channel/mpmc.rs',
     'old': '''                self.inner.channel.inner.lock().clear();''',
     'new': '''''',
     'expect': {'C11': ['C11.R6']}},
    {'name': 'oneshot-send-closed-swallows', 'file': 'src/channel/oneshot.rs',
     'old': '''        if self.is_fulfilled {
            return Err(ChannelSendError(value));
        }

        self.value = Some(value);''',
     'new': '''        if self.is_fulfilled && self.value.is_some() {
            return Err(ChannelSendError(value));
        }

        self.value = Some(value);''',
     'expect': {'C11': ['C11.R3']}},
    # ---------------------------------------------------------------- C08
    {'name': 'mpmc-remove-send-waiter-drops-value', 'file': 'src/channel/mpmc.rs',
     'old': '''                wait_node.state = SendPollState::Unregistered;
            }
            SendPollState::Unregistered => {}''',
     'new': '''                wait_node.state = SendPollState::Unregistered;
                wait_node.value.take();
            }
            SendPollState::Unregistered => {}''',
     'expect': {'C08': ['C08.R1', 'C08.R4']}},
    {'name': 'mpmc-close-clears', 'file': 'src/channel/mpmc.rs',
     'old': '''        wake_send_waiters(&mut self.send_waiters);

        CloseStatus::NewlyClosed''',
     'new': '''        wake_send_waiters(&mut self.send_waiters);
        self.clear();

        CloseStatus::NewlyClosed''',
     'expect': {'C08': ['C08.R2']}},
    {'name': 'mpmc-try-send-overwrites-oldest', 'file': 'src/channel/mpmc.rs',
     'old': '''        } else {
            Err(TrySendError::Full(value))
        }''',
     'new': '''        } else if self.send_waiters.is_empty() && self.buffer.len() > 1 {
            let _ = self.buffer.pop();
            self.buffer.push(value);
            Ok(return_oldest_receive_waiter(&mut self.receive_waiters))
        } else {
            Err(TrySendError::Full(value))
        }''',
     'expect': {'C08': ['C08.R1']}},
    {'name': 'send-cancel-takes-before-unlink', 'file': 'src/channel/channel_future.rs',
     'old': '''            Some(channel) => {
                channel.remove_send_waiter(&mut self.wait_node);
                self.wait_node.value.take()
            }
        }
    }
}

impl<'a, MutexType, T> Future for ChannelSendFuture<'a, MutexType, T> {''',
     'new': '''            Some(channel) => {
                let v = self.wait_node.value.take();
                channel.remove_send_waiter(&mut self.wait_node);
                v
            }
        }
    }
}

impl<'a, MutexType, T> Future for ChannelSendFuture<'a, MutexType, T> {''',
     'expect': {'C08': ['C08.R5']}},
    {'name': 'mpmc-park-returns-value-copy-slot', 'file': 'src/channel/mpmc.rs',
     'old': '''                    let waker =
                        return_oldest_receive_waiter(&mut self.receive_waiters);
                    return (Poll::Pending, None, waker);''',
     'new': '''                    let waker =
                        return_oldest_receive_waiter(&mut self.receive_waiters);
                    if waker.is_none() {
                        return (Poll::Pending, wait_node.value.take(), waker);
                    }
                    return (Poll::Pending, None, waker);''',
     'expect': {'C08': ['C08.R1a', 'C08.R1']}},
    {'name': 'mpmc-refill-forgets-value', 'file': 'src/channel/mpmc.rs',
     'old': '''                .expect("wait_node must contain value");
            self.buffer.push(value);

            last_waiter.state = SendPollState::SendComplete;''',
     'new': '''                .expect("wait_node must contain value");
            if self.buffer.can_push() { self.buffer.push(value); }

            last_waiter.state = SendPollState::SendComplete;''',
     'expect': {'C08': ['C08.R1', 'C08.R4']}},
    # ---------------------------------------------------------------- C09
    {'name': 'mpmc-send-pushes-when-full', 'file': 'src/channel/mpmc.rs',
     'old': '''                if !self.buffer.can_push() {
                    // If the capacity is exhausted, register a waiter''',
     'new': '''                if !self.buffer.can_push() && self.buffer.capacity() == 0 {
                    // If the capacity is exhausted, register a waiter''',
     'expect': {'C09': ['C09.R1']}},
    {'name': 'mpmc-no-refill', 'file': 'src/channel/mpmc.rs',
     'old': '''            let waker = self.try_copy_value_from_oldest_waiter();

            Ok((val, waker))''',
     'new': '''            let waker = if self.is_closed { self.try_copy_value_from_oldest_waiter() } else { None };

            Ok((val, waker))''',
     'expect': {'C09': ['C09.R2']}},
    {'name': 'mpmc-refill-from-newest', 'file': 'src/channel/mpmc.rs',
     'old': '''    fn try_copy_value_from_oldest_waiter(&mut self) -> Option<Waker> {
        let last_waiter = self.send_waiters.remove_last();''',
     'new': '''    fn try_copy_value_from_oldest_waiter(&mut self) -> Option<Waker> {
        let last_waiter = self.send_waiters.remove_first();''',
     'expect': {'C09': ['C09.R3', 'C09.R2']}},
    {'name': 'mpmc-registered-reports-success', 'file': 'src/channel/mpmc.rs',
     'old': '''                update_waker_ref(&mut wait_node.task, cx);
                (Poll::Pending, None, None)''',
     'new': '''                update_waker_ref(&mut wait_node.task, cx);
                if self.is_closed { (Poll::Ready(()), None, None) } else { (Poll::Pending, None, None) }''',
     'expect': {'C09': ['C09.R4']}},
    {'name': 'mpmc-direct-handover-nonempty', 'file': 'src/channel/mpmc.rs',
     'old': '''        if !self.buffer.is_empty() {
            let val = self.buffer.pop();''',
     'new': '''        if !self.buffer.is_empty() && self.send_waiters.is_empty() {
            let val = self.buffer.pop();''',
     'expect': {'C09': ['C09.R5']}},
    # ---------------------------------------------------------------- C10
    {'name': 'mpmc-try-send-no-receiver-wakeup', 'file': 'src/channel/mpmc.rs',
     'old': '''            // Return the oldest receive waiter
            Ok(return_oldest_receive_waiter(&mut self.receive_waiters))
        } else {''',
     'new': '''            // Return the oldest receive waiter
            if self.buffer.len() > 1 { Ok(None) } else { Ok(return_oldest_receive_waiter(&mut self.receive_waiters)) }
        } else {''',
     'expect': {'C10': ['C10.R1']}},
    {'name': 'mpmc-notified-receiver-dropped-silently', 'file': 'src/channel/mpmc.rs',
     'old': '''                wait_node.state = RecvPollState::Unregistered;
                return_oldest_receive_waiter(&mut self.receive_waiters)''',
     'new': '''                wait_node.state = RecvPollState::Unregistered;
                if self.buffer.is_empty() { None } else { return_oldest_receive_waiter(&mut self.receive_waiters) }''',
     'expect': {'C10': ['C10.R2']}},
    {'name': 'mpmc-remove-receive-waiter-result-discarded', 'file': 'src/channel/mpmc.rs',
     'old': '''        let waker = { self.inner.lock().remove_receive_waiter(wait_node) };

        if let Some(waker) = waker {
            waker.wake();
        }''',
     'new': '''        let _waker = { self.inner.lock().remove_receive_waiter(wait_node) };''',
     'expect': {'C10': ['C10.R5']}},
    {'name': 'mpmc-park-without-receiver-wakeup', 'file': 'src/channel/mpmc.rs',
     'old': '''                    let waker =
                        return_oldest_receive_waiter(&mut self.receive_waiters);
                    return (Poll::Pending, None, waker);''',
     'new': '''                    let waker = if self.buffer.capacity() > 0 { None } else {
                        return_oldest_receive_waiter(&mut self.receive_waiters) };
                    return (Poll::Pending, None, waker);''',
     'expect': {'C10': ['C10.R1']}},
    {'name': 'mpmc-take-from-sender-keeps-waker', 'file': 'src/channel/mpmc.rs',
     'old': '''                // Return the waiter
                Some((val, last_sender.task.take()))''',
     'new': '''                // Return the waiter
                Some((val, None))''',
     'expect': {'C10': ['C10.R3']}},
    {'name': 'mpmc-receive-registered-no-waker-refresh', 'file': 'src/channel/mpmc.rs',
     'old': '''                // In this case we need to update it.
                update_waker_ref(&mut wait_node.task, cx);
                Poll::Pending
            }
        }
    }

    fn remove_send_waiter(''',
     'new': '''                // In this case we need to update it.
                Poll::Pending
            }
        }
    }

    fn remove_send_waiter(''',
     'expect': {'C10': ['C10.R6']}},
    {'name': 'mpmc-try-receive-drops-sender-waker', 'file': 'src/channel/mpmc.rs',
     'old': '''            Ok((val, waker)) => {
                if let Some(waker) = waker {
                    waker.wake();
                }
                Ok(val)
            }
            Err(e) => Err(e),
        }
    }

    /// Returns a stream''',
     'new': '''            Ok((val, _waker)) => {
                Ok(val)
            }
            Err(e) => Err(e),
        }
    }

    /// Returns a stream''',
     'expect': {'C10': ['C10.R5']}},
    # ---------------------------------------------------------------- C12
    {'name': 'broadcast-takes-value', 'file': 'src/channel/oneshot_broadcast.rs',
     'old': '''                match &self.value {
                    Some(v) => {
                        // A value was available inside the channel and was fetched.
                        // TODO: If the same waiter asks again, they will always
                        // get the same value, instead of `None`. Is that reasonable?
                        Poll::Ready(Some(v.clone()))
                    }''',
     'new': '''                match self.value.take() {
                    Some(v) => {
                        Poll::Ready(Some(v))
                    }''',
     'expect': {'C12': ['C12.R2']}},
    {'name': 'oneshot-send-does-not-fulfil', 'file': 'src/channel/oneshot.rs',
     'old': '''        self.value = Some(value);
        self.is_fulfilled = true;''',
     'new': '''        self.value = Some(value);
        self.is_fulfilled = !self.waiters.is_empty();''',
     'expect': {'C12': ['C12.R1'], 'C11': ['C11.R1']}},
    {'name': 'oneshot-send-no-wake', 'file': 'src/channel/oneshot.rs',
     'old': '''        self.is_fulfilled = true;

        // Wakeup all waiters
        wake_waiters(&mut self.waiters);

        Ok(())''',
     'new': '''        self.is_fulfilled = true;

        Ok(())''',
     'expect': {'C12': ['C12.R1']}},
    {'name': 'oneshot-none-before-fulfilled', 'file': 'src/channel/oneshot.rs',
     'old': '''                        if self.is_fulfilled {
                            Poll::Ready(None)''',
     'new': '''                        if self.is_fulfilled || !self.waiters.is_empty() {
                            Poll::Ready(None)''',
     'expect': {'C12': ['C12.R3']}},
    {'name': 'oneshot-waker-notified-state', 'file': 'src/channel/oneshot.rs',
     'old': '''        waiter.state = RecvPollState::Unregistered;
    });''',
     'new': '''        waiter.state = if waiter.task.is_some() { RecvPollState::Notified } else { RecvPollState::Unregistered };
    });''',
     'expect': {'C12': ['C12.R5']}},
    # ---------------------------------------------------------------- C13
    {'name': 'state-deliver-le', 'file': 'src/channel/state_broadcast.rs',
     'old': '''                    Some(ref v) if wait_node.state_id < self.state_id => {''',
     'new': '''                    Some(ref v) if wait_node.state_id <= self.state_id => {''',
     'expect': {'C13': ['C13.R2']}},
    {'name': 'state-try-receive-swapped', 'file': 'src/channel/state_broadcast.rs',
     'old': '''        if state_id < self.state_id {
            Some((self.state_id, val.clone()))''',
     'new': '''        if self.state_id > state_id || self.state_id < state_id {
            Some((self.state_id, val.clone()))''',
     'expect': {'C13': ['C13.R2']}},
    {'name': 'state-returns-requested-id', 'file': 'src/channel/state_broadcast.rs',
     'old': '''        if state_id < self.state_id {
            Some((self.state_id, val.clone()))''',
     'new': '''        if state_id < self.state_id {
            Some((StateId(state_id.0 + 1), val.clone()))''',
     'expect': {'C13': ['C13.R2']}},
    {'name': 'state-send-no-wake', 'file': 'src/channel/state_broadcast.rs',
     'old': '''        self.state_id.0 += 1;

        // Wakeup all waiters
        wake_waiters(&mut self.waiters);''',
     'new': '''        self.state_id.0 += 1;''',
     'expect': {'C13': ['C13.R1']}},
    {'name': 'state-send-id-by-two-when-empty', 'file': 'src/channel/state_broadcast.rs',
     'old': '''        self.state_id.0 += 1;''',
     'new': '''        self.state_id.0 += 1;
        if self.waiters.is_empty() { self.state_id.0 -= 1; }''',
     'expect': {'C13': ['C13.R1']}},
    {'name': 'state-none-while-newer', 'file': 'src/channel/state_broadcast.rs',
     'old': '''        match wait_node.state {
            RecvPollState::Unregistered => {
                // The caller must wait for a value if either there is no value''',
     'new': '''        match wait_node.state {
            RecvPollState::Unregistered if self.is_closed => Poll::Ready(None),
            RecvPollState::Unregistered => {
                // The caller must wait for a value if either there is no value''',
     'expect': {'C13': ['C13.R3'], 'C11': ['C11.R4']}},
    # ---------------------------------------------------------------- C14
    {'name': 'event-done-rechecks-is-set', 'file': 'src/sync/manual_reset_event.rs',
     'old': '''                // have been reset it in the meantime.
                Poll::Ready(())''',
     'new': '''                // have been reset it in the meantime.
                if self.is_set { Poll::Ready(()) } else { Poll::Pending }''',
     'expect': {'C14': ['C14.R3']}},
    {'name': 'event-reset-drains', 'file': 'src/sync/manual_reset_event.rs',
     'old': '''    fn reset(&mut self) {
        self.is_set = false;
    }''',
     'new': '''    fn reset(&mut self) {
        self.is_set = false;
        self.waiters.reverse_drain(|waiter| {
            waiter.state = PollState::Done;
        });
    }''',
     'expect': {'C14': ['C14.R2']}},
    {'name': 'event-set-does-not-latch', 'file': 'src/sync/manual_reset_event.rs',
     'old': '''                if let Some(handle) = waiter.task.take() {
                    handle.wake();
                }
                waiter.state = PollState::Done;''',
     'new': '''                if let Some(handle) = waiter.task.take() {
                    handle.wake();
                }
                waiter.state = PollState::New;''',
     'expect': {'C14': ['C14.R1']}},
    {'name': 'event-set-no-wake', 'file': 'src/sync/manual_reset_event.rs',
     'old': '''                if let Some(handle) = waiter.task.take() {
                    handle.wake();
                }
                waiter.state = PollState::Done;''',
     'new': '''                waiter.state = PollState::Done;''',
     'expect': {'C14': ['C14.R1']}},
    {'name': 'event-waiting-completes-if-set', 'file': 'src/sync/manual_reset_event.rs',
     'old': '''                update_waker_ref(&mut wait_node.task, cx);
                Poll::Pending
            }
            PollState::Done => {''',
     'new': '''                update_waker_ref(&mut wait_node.task, cx);
                if self.is_set { Poll::Ready(()) } else { Poll::Pending }
            }
            PollState::Done => {''',
     'expect': {'C14': ['C14.R3']}},
    {'name': 'event-is-set-inverted', 'file': 'src/sync/manual_reset_event.rs',
     'old': '''    fn is_set(&self) -> bool {
        self.is_set
    }''',
     'new': '''    fn is_set(&self) -> bool {
        self.is_set || !self.waiters.is_empty()
    }''',
     'expect': {'C14': ['C14.R4']}},
    # ---------------------------------------------------------------- C15
    {'name': 'timer-swapped-compare', 'file': 'src/timer/timer.rs',
     'old': '''                if now >= wait_node.expiry {''',
     'new': '''                if wait_node.expiry >= now {''',
     'expect': {'C15': ['C15.R1']}},
    {'name': 'timer-check-expirations-early', 'file': 'src/timer/timer.rs',
     'old': '''                if now >= first_expiry {''',
     'new': '''                if now + 1 >= first_expiry {''',
     'expect': {'C15': ['C15.R1', 'C15.R5', 'C15.R2']}},
    {'name': 'timer-plain-add-deadline', 'file': 'src/timer/timer.rs',
     'old': '''        now.saturating_add(duration_ms)''',
     'new': '''        now + duration_ms''',
     'expect': {'C15': ['C15.R5']}},
    {'name': 'timer-remove-without-expired', 'file': 'src/timer/timer.rs',
     'old': '''                    entry.state = PollState::Expired;
                    if let Some(task) = entry.task.take() {''',
     'new': '''                    if let Some(task) = entry.task.take() {''',
     'expect': {'C15': ['C15.R2', 'C15.R6'], 'C01': ['C01.I1']}},
    {'name': 'timer-next-expiration-not-min', 'file': 'src/timer/timer.rs',
     'old': '''        unsafe { self.waiters.peek_min().map(|first| first.as_ref().expiry) }''',
     'new': '''        unsafe { self.waiters.peek_min().map(|first| first.as_ref().expiry.saturating_add(1)) }''',
     'expect': {'C15': ['C15.R3']}},
    {'name': 'timer-ord-reversed', 'file': 'src/timer/timer.rs',
     'old': '''        self.expiry.cmp(&other.expiry)''',
     'new': '''        other.expiry.cmp(&self.expiry)''',
     'expect': {'C15': ['C15.R4']}},
    {'name': 'timer-not-due-keeps-scanning', 'file': 'src/timer/timer.rs',
     'old': '''                    // Remaining timers are not expired
                    break;''',
     'new': '''                    // Remaining timers are not expired
                    if entry.task.is_none() { entry.state = PollState::Expired; }
                    break;''',
     'expect': {'C15': ['C15.R2', 'C15.R1']}},
    {'name': 'timer-expired-no-wake', 'file': 'src/timer/timer.rs',
     'old': '''                    if let Some(task) = entry.task.take() {
                        task.wake();
                    }''',
     'new': '''                    let _ = entry.task.take();''',
     'expect': {'C15': ['C15.R2']}},
    # ---------------------------------------------------------------- C17
    {'name': 'shared-recv-poll-no-restore', 'file': 'src/channel/channel_future.rs',
     'old': '''                if poll_res.is_ready() {
                    // A value was available
                    mut_self.channel = None;
                } else {
                    mut_self.channel = Some(channel)
                }

                poll_res
            }
        }

        impl<MutexType, T> FusedFuture for ChannelReceiveFuture<MutexType, T> {''',
     'new': '''                if poll_res.is_ready() {
                    // A value was available
                    mut_self.channel = None;
                }

                poll_res
            }
        }

        impl<MutexType, T> FusedFuture for ChannelReceiveFuture<MutexType, T> {''',
     'expect': {'C17': ['C17.R1']}},
    {'name': 'mutex-is-terminated-inverted', 'file': 'src/sync/mutex.rs',
     'old': '''        self.mutex.is_none()''',
     'new': '''        self.mutex.is_some()''',
     'expect': {'C17': ['C17.R2']}},
    {'name': 'event-poll-clears-handle-early', 'file': 'src/sync/manual_reset_event.rs',
     'old': '''        if let Poll::Ready(()) = poll_res {
            // The event was set
            mut_self.event = None;
        }''',
     'new': '''        mut_self.event = None;''',
     'expect': {'C17': ['C17.R1']}},
    {'name': 'channel-stream-restores-on-end', 'file': 'src/channel/mpmc.rs',
     'old': '''                    // If the channel was terminated, we let it drop.
                    if let Poll::Ready(None) = &poll {
                        return poll;
                    }''',
     'new': '''''',
     'expect': {'C17': ['C17.R5']}},
    {'name': 'semaphore-poll-keeps-handle-on-ready', 'file': 'src/sync/semaphore.rs',
     'old': '''                // The semaphore was acquired.
                mut_self.semaphore = None;''',
     'new': '''                // The semaphore was acquired.''',
     'expect': {'C17': ['C17.R1']}},
    {'name': 'timer-poll-no-expect', 'file': 'src/timer/timer.rs',
     'old': '''        let timer =
            mut_self.timer.expect("polled TimerFuture after completion");

        let poll_res = unsafe { timer.try_wait(&mut mut_self.wait_node, cx) };''',
     'new': '''        let timer = match mut_self.timer { Some(t) => t, None => return Poll::Ready(()) };

        let poll_res = unsafe { timer.try_wait(&mut mut_self.wait_node, cx) };''',
     'expect': {'C17': ['C17.R3', 'C17.R1']}},
    {'name': 'send-cancel-keeps-handle', 'file': 'src/channel/channel_future.rs',
     'old': '''    pub fn cancel(&mut self) -> Option<T> {
        let channel = self.channel.take();
        match channel {
            None => None,
            Some(channel) => {
                channel.remove_send_waiter(&mut self.wait_node);
                self.wait_node.value.take()
            }
        }
    }
}

impl<'a, MutexType, T> Future for ChannelSendFuture<'a, MutexType, T> {''',
     'new': '''    pub fn cancel(&mut self) -> Option<T> {
        let channel = self.channel;
        match channel {
            None => None,
            Some(channel) => {
                channel.remove_send_waiter(&mut self.wait_node);
                self.wait_node.value.take()
            }
        }
    }
}

impl<'a, MutexType, T> Future for ChannelSendFuture<'a, MutexType, T> {''',
     'expect': {'C17': ['C17.R4']}},
    {'name': 'shared-stream-terminates-on-item', 'file': 'src/channel/mpmc.rs',
     'old': '''                    if let Poll::Ready(None) = &poll {
                        // Safety: This is safe because `is_terminated` is never''',
     'new': '''                    if let Poll::Ready(_) = &poll {
                        // Safety: This is safe because `is_terminated` is never''',
     'expect': {'C17': ['C17.R5']}},
    {'name': 'shared-stream-keeps-future', 'file': 'src/channel/mpmc.rs',
     'old': '''                if poll.is_ready() {
                    pin_fut.set(None);
''',
     'new': '''                if let Poll::Ready(None) = &poll {
                    pin_fut.set(None);
''',
     'expect': {'C17': ['C17.R5']}},
    # ---------------------------------------------------------------- C18
    {'name': 'mpmc-close-collects-wakers-in-vec', 'file': 'src/channel/mpmc.rs',
     'old': '''fn wake_send_waiters<T>(waiters: &mut LinkedList<SendWaitQueueEntry<T>>) {''',
     'new': '''#[cfg(feature = "alloc")]
fn wake_send_waiters<T>(waiters: &mut LinkedList<SendWaitQueueEntry<T>>) {
    let mut v = alloc::vec::Vec::new();
    waiters.reverse_drain(|waiter| {
        if let Some(handle) = waiter.task.take() {
            v.push(handle);
        }
        waiter.state = SendPollState::Unregistered;
    });
    for handle in v {
        handle.wake();
    }
}

#[cfg(not(feature = "alloc"))]
fn wake_send_waiters<T>(waiters: &mut LinkedList<SendWaitQueueEntry<T>>) {''',
     'expect': {'C18': ['C18.B']}},
    {'name': 'shared-semaphore-poll-boxes', 'file': 'src/sync/semaphore.rs',
     'old': '''            let semaphore = mut_self.semaphore.take().expect(
                "polled GenericSharedSemaphoreAcquireFuture after completion",
            );''',
     'new': '''            let semaphore = mut_self.semaphore.take().expect(
                "polled GenericSharedSemaphoreAcquireFuture after completion",
            );
            let _scratch = alloc::boxed::Box::new(mut_self.wait_node.required_permits);''',
     'expect': {'C18': ['C18.B']}},
    {'name': 'fixed-heap-buf-unbounded-push', 'file': 'src/buffer/ring_buffer.rs',
     'old': '''        fn push(&mut self, value: Self::Item) {
            assert!(self.can_push());
            self.buffer.push_back(value);''',
     'new': '''        fn push(&mut self, value: Self::Item) {
            self.buffer.push_back(value);''',
     'expect': {'C18': ['C18.B3']}},
    {'name': 'fixed-heap-buf-cap-larger-than-allocation', 'file': 'src/buffer/ring_buffer.rs',
     'old': '''            FixedHeapBuf {
                buffer: VecDeque::with_capacity(cap),
                cap,
            }''',
     'new': '''            FixedHeapBuf {
                buffer: VecDeque::with_capacity(cap / 2),
                cap,
            }''',
     'expect': {'C18': ['C18.B3']}},
    {'name': 'std-clock-now-formats', 'file': 'src/timer/clock.rs',
     'old': '''            let elapsed = Instant::now() - self.start;
            elapsed.as_millis() as u64''',
     'new': '''            let elapsed = Instant::now() - self.start;
            let s = std::format!("{}", elapsed.as_millis());
            s.parse::<u64>().unwrap_or(0)''',
     'expect': {'C18': ['C18.B']}},
    # ---------------------------------------------------------------- C19
    {'name': 'arraybuf-drop-no-advance', 'file': 'src/buffer/ring_buffer.rs',
     'old': '''                arr_ptr.add(self.recv_idx).drop_in_place();
            }
            self.recv_idx = self.next_idx(self.recv_idx);
            self.size -= 1;''',
     'new': '''                arr_ptr.add(self.recv_idx).drop_in_place();
            }
            self.size -= 1;''',
     'expect': {'C19': ['C19.R1']}},
    {'name': 'arraybuf-drop-from-send-idx', 'file': 'src/buffer/ring_buffer.rs',
     'old': '''                arr_ptr.add(self.recv_idx).drop_in_place();''',
     'new': '''                arr_ptr.add(self.send_idx).drop_in_place();''',
     'expect': {'C19': ['C19.R1']}},
    {'name': 'arraybuf-pop-no-size-dec', 'file': 'src/buffer/ring_buffer.rs',
     'old': '''        self.recv_idx = self.next_idx(self.recv_idx);
        self.size -= 1;
        val''',
     'new': '''        self.recv_idx = self.next_idx(self.recv_idx);
        if self.recv_idx != 0 { self.size -= 1; }
        val''',
     'expect': {'C19': ['C19.R2']}},
    {'name': 'heapbuf-pop-back', 'file': 'src/buffer/ring_buffer.rs',
     'old': '''            debug_assert!(self.buffer.len() > 0);
            self.buffer.pop_front().unwrap()''',
     'new': '''            debug_assert!(self.buffer.len() > 0);
            self.buffer.pop_back().unwrap()''',
     'expect': {'C19': ['C19.R4']}},
    {'name': 'arraybuf-next-idx-off-by-one', 'file': 'src/buffer/ring_buffer.rs',
     'old': '''        if last_idx + 1 == self.capacity() {
            return 0;
        }''',
     'new': '''        if last_idx == self.capacity() {
            return 0;
        }''',
     'expect': {'C19': ['C19.R2']}},
    {'name': 'arraybuf-push-at-recv-idx', 'file': 'src/buffer/ring_buffer.rs',
     'old': '''            arr_ptr.add(self.send_idx).write(value);''',
     'new': '''            arr_ptr.add(self.recv_idx + self.size).write(value);''',
     'expect': {'C19': ['C19.R1']}},
    {'name': 'arraybuf-can-push-off-by-one', 'file': 'src/buffer/ring_buffer.rs',
     'old': '''    fn can_push(&self) -> bool {
        self.len() != self.capacity()
    }

    #[inline]
    fn push(&mut self, value: Self::Item) {
        assert!(self.can_push());
        // Safety: We asserted''',
     'new': '''    fn can_push(&self) -> bool {
        self.len() <= self.capacity()
    }

    #[inline]
    fn push(&mut self, value: Self::Item) {
        assert!(self.can_push());
        // Safety: We asserted''',
     'expect': {'C19': ['C19.R5', 'C19.R1']}},
    {'name': 'fixedbuf-can-push-ignores-cap', 'file': 'src/buffer/ring_buffer.rs',
     'old': '''            self.buffer.len() != self.cap''',
     'new': '''            self.buffer.len() != self.buffer.capacity()''',
     # (not a C18 violation: push_back reallocates only at len == capacity(), which this guard excludes)
     'expect': {'C19': ['C19.R4']}},
    # ---------------------------------------------------------------- C20
    {'name': 'list-remove-last-keeps-prev-link', 'file': 'src/intrusive_double_linked_list.rs',
     'old': '''            last_ref.prev = None;
            last_ref.next = None;
            Some(&mut *(last_ref as *mut ListNode<T>))''',
     'new': '''            last_ref.next = None;
            Some(&mut *(last_ref as *mut ListNode<T>))''',
     'expect': {'C20': ['C20.R1']}},
    {'name': 'heap-meld-greater-becomes-parent', 'file': 'src/intrusive_pairing_heap.rs',
     'old': '''    if safe_lesser(&left.as_ref().data, &right.as_ref().data) {
        add_child(left, right);
        left
    } else {
        add_child(right, left);
        right
    }''',
     'new': '''    if safe_lesser(&left.as_ref().data, &right.as_ref().data) {
        add_child(right, left);
        right
    } else {
        add_child(left, right);
        left
    }''',
     'expect': {'C20': ['C20.R3']}},
    {'name': 'list-remove-nonmember-returns-true', 'file': 'src/intrusive_double_linked_list.rs',
     'old': '''                if self.head != Some(node.into()) {
                    debug_assert!(node.next.is_none());
                    return false;
                }''',
     'new': '''                if self.head != Some(node.into()) {
                    debug_assert!(node.next.is_none());
                    return self.head.is_none();
                }''',
     'expect': {'C20': ['C20.R4', 'C20.R2']}},
    {'name': 'list-remove-first-forgets-tail', 'file': 'src/intrusive_double_linked_list.rs',
     'old': '''                    debug_assert_eq!(Some(first_ref.into()), self.tail);
                    self.tail = None;''',
     'new': '''                    debug_assert_eq!(Some(first_ref.into()), self.tail);''',
     'expect': {'C20': ['C20.R2']}},
    {'name': 'list-add-front-no-back-link', 'file': 'src/intrusive_double_linked_list.rs',
     'old': '''            Some(mut head) => head.as_mut().prev = Some(node.into()),''',
     'new': '''            Some(mut head) => head.as_mut().prev = None,''',
     'expect': {'C20': ['C20.R2']}},
    {'name': 'heap-remove-keeps-first-child', 'file': 'src/intrusive_pairing_heap.rs',
     'old': '''        if let Some(first_child) = node.first_child.take() {''',
     'new': '''        if let Some(first_child) = node.first_child {''',
     'expect': {'C20': ['C20.R1']}},
    {'name': 'heap-remove-loses-children-at-root', 'file': 'src/intrusive_pairing_heap.rs',
     'old': '''            } else {
                self.root = Some(children);
            }''',
     'new': '''            } else {
                self.root = Some(first_child);
            }''',
     'expect': {'C20': ['C20.R2']}},
    {'name': 'heap-safe-lesser-le', 'file': 'src/intrusive_pairing_heap.rs',
     'old': '''    let ordering = a < b;''',
     'new': '''    let ordering = b < a;''',
     'expect': {'C20': ['C20.R3']}},
    {'name': 'list-reverse-drain-keeps-links', 'file': 'src/intrusive_double_linked_list.rs',
     'old': '''                current = node_ref.prev;

                node_ref.next = None;
                node_ref.prev = None;''',
     'new': '''                current = node_ref.prev;

                node_ref.next = None;''',
     'expect': {'C20': ['C20.R1']}},
    {'name': 'heap-merge-children-left-to-right', 'file': 'src/intrusive_pairing_heap.rs',
     'old': '''    let mut node = last_child(first_child);''',
     'new': '''    let mut node = first_child;''',
     'expect': {'C20': ['C20.R2']}},
    # ---------------------------------------------------------------- C01 (I2..I7, P)
    {'name': 'event-future-no-drop', 'file': 'src/sync/manual_reset_event.rs',
     'old': '''impl<'a, MutexType: RawMutex> Drop
    for GenericWaitForEventFuture<'a, MutexType>
{
    fn drop(&mut self) {
        // If this WaitForEventFuture has been polled and it was added to the
        // wait queue at the event, it must be removed before dropping.
        // Otherwise the event would access invalid memory.
        if let Some(ev) = self.event {
            ev.remove_waiter(&mut self.wait_node);
        }
    }
}''',
     'new': '''''',
     'expect': {'C01': ['C01.I2']}},
    {'name': 'timer-future-drop-skips-zero-deadline', 'file': 'src/timer/timer.rs',
     'old': '''        if let Some(timer) = self.timer {
            timer.remove_waiter(&mut self.wait_node);
        }''',
     'new': '''        if let Some(timer) = self.timer {
            if self.wait_node.expiry != 0 { timer.remove_waiter(&mut self.wait_node); }
        }''',
     'expect': {'C01': ['C01.I2']}},
    {'name': 'oneshot-unpinned-register-api', 'file': 'src/channel/oneshot.rs',
     'old': '''    /// Returns a future that gets fulfilled when a value is written to the channel
    /// or the channel is closed.
    pub fn receive(&self) -> ChannelReceiveFuture<MutexType, T> {
        ChannelReceiveFuture {
            channel: Some(self),''',
     'new': '''    /// Registers a future ahead of time.
    pub fn prefetch(&self, fut: &mut ChannelReceiveFuture<MutexType, T>, cx: &mut Context<'_>) -> bool {
        unsafe { self.inner.lock().try_receive(&mut fut.wait_node, cx).is_ready() }
    }

    /// Returns a future that gets fulfilled when a value is written to the channel
    /// or the channel is closed.
    pub fn receive(&self) -> ChannelReceiveFuture<MutexType, T> {
        ChannelReceiveFuture {
            channel: Some(self),''',
     'expect': {'C01': ['C01.I4']}},
    {'name': 'event-is-set-bypasses-lock', 'file': 'src/sync/manual_reset_event.rs',
     'old': '''    pub fn is_set(&self) -> bool {
        self.inner.lock().is_set()
    }''',
     'new': '''    pub fn is_set(&self) -> bool {
        unsafe { (*self.inner.data_ptr()).is_set() }
    }''',
     'expect': {'C01': ['C01.I5'], 'C14': ['C14.R4']}},
    {'name': 'semaphore-release-new-assert', 'file': 'src/sync/semaphore.rs',
     'old': '''        // TODO: Overflow check
        self.permits += permits;''',
     'new': '''        // TODO: Overflow check
        assert!(self.waiters.is_empty() || permits < 1024, "too many permits for a contended semaphore");
        self.permits += permits;''',
     'expect': {'C01': ['C01.P']}},
    {'name': 'channel-stream-takes-pending-future', 'file': 'src/channel/mpmc.rs',
     'old': '''                // Future was resolved, drop it.
                if poll.is_ready() {
                    mut_self.future.take();

                    // If the channel was terminated, we let it drop.''',
     'new': '''                // Future was resolved, drop it.
                let moved = mut_self.future.take();
                if poll.is_ready() {
                    drop(moved);

                    // If the channel was terminated, we let it drop.''',
     'expect': {'C01': ['C01.I6'], 'C17': ['C17.R5']}},
    {'name': 'mpmc-refill-takes-value-keeps-registered', 'file': 'src/channel/mpmc.rs',
     'old': '''            self.buffer.push(value);

            last_waiter.state = SendPollState::SendComplete;''',
     'new': '''            self.buffer.push(value);

            last_waiter.state = if self.is_closed { SendPollState::Unregistered } else { SendPollState::SendComplete };''',
     'expect': {'C01': ['C01.P.V'], 'C09': ['C09.R2']}},
    # ---------------------------------------------------------------- wrapper discipline (.W rules)
    {'name': 'sem-public-release-twice', 'file': 'src/sync/semaphore.rs',
     'old': '''    pub fn release(&self, nr_permits: usize) {
        self.state.lock().release(nr_permits)
    }

    /// Returns the amount of permits that are available on the semaphore
    pub fn permits(&self) -> usize {
        self.state.lock().permits()
    }
}

// Export a non thread-safe version using NoopLock''',
     'new': '''    pub fn release(&self, nr_permits: usize) {
        let mut state = self.state.lock();
        state.release(nr_permits);
        if nr_permits > 8 { state.release(1); }
    }

    /// Returns the amount of permits that are available on the semaphore
    pub fn permits(&self) -> usize {
        self.state.lock().permits()
    }
}

// Export a non thread-safe version using NoopLock''',
     'expect': {'C05': ['C05.R2']}},
    {'name': 'sem-try-acquire-rounds-up', 'file': 'src/sync/semaphore.rs',
     'old': '''        if self.state.lock().try_acquire_sync(nr_permits) {
            Some(GenericSemaphoreReleaser {''',
     'new': '''        if self.state.lock().try_acquire_sync(nr_permits | 1) {
            Some(GenericSemaphoreReleaser {''',
     'expect': {'C05': ['C05.W', 'C05.R4']}},
    {'name': 'event-set-then-reset-in-wrapper', 'file': 'src/sync/manual_reset_event.rs',
     'old': '''    pub fn set(&self) {
        self.inner.lock().set()
    }''',
     'new': '''    pub fn set(&self) {
        let mut g = self.inner.lock();
        g.set();
        g.reset();
    }''',
     'expect': {'C14': ['C14.R1']}},
    # ---------------------------------------------------------------- must-rules (converses)
    {'name': 'mutex-guard-drop-conditional-unlock', 'file': 'src/sync/mutex.rs',
     'old': '''        let waker = { self.mutex.state.lock().unlock() };''',
     'new': '''        let waker = { let mut s = self.mutex.state.lock(); if s.is_fair { s.unlock() } else { s.return_last_waiter() } };''',
     'expect': {'C02': ['C02.R6']}},
    {'name': 'mutex-fair-notified-never-locks', 'file': 'src/sync/mutex.rs',
     'old': '''                if !self.is_locked {
                    if self.is_fair {
                        // In a fair Mutex, the WaitQueueEntry is kept in the
                        // linked list and must be removed here
                        // Safety: Due to the state, we know that the node must be part
                        // of the waiter list
                        self.force_remove_waiter(wait_node);
                    }
                    self.is_locked = true;''',
     'new': '''                if !self.is_locked && !(self.is_fair && self.waiters.is_empty()) {
                    if self.is_fair {
                        self.force_remove_waiter(wait_node);
                    }
                    self.is_locked = true;''',
     'expect': {'C03': ['C03.R6']}},
    {'name': 'sem-notified-fitting-stays-pending', 'file': 'src/sync/semaphore.rs',
     'old': '''                if self.permits >= wait_node.required_permits {
                    if self.is_fair {
                        // In a fair Semaphore, the WaitQueueEntry is kept in the''',
     'new': '''                if self.permits > wait_node.required_permits {
                    if self.is_fair {
                        // In a fair Semaphore, the WaitQueueEntry is kept in the''',
     'expect': {'C06': ['C06.R7']}},
    # ---------------------------------------------------------------- found by the mutation sweep
    {'name': 'mutex-starts-locked', 'file': 'src/sync/mutex.rs',
     'old': '''            is_locked: false,''', 'new': '''            is_locked: true,''',
     'expect': {'C02': ['C02.R0']}},
    {'name': 'mpmc-starts-closed', 'file': 'src/channel/mpmc.rs',
     'old': '''            is_closed: false,''', 'new': '''            is_closed: true,''',
     'expect': {'C11': ['C11.R0'], 'C09': ['C09.R0']}},
    {'name': 'mutex-try-lock-sync-and-instead-of-or', 'file': 'src/sync/mutex.rs',
     'old': '''        if !self.is_locked && (!self.is_fair || self.waiters.is_empty()) {''',
     'new': '''        if !self.is_locked && (!self.is_fair && self.waiters.is_empty()) {''',
     'expect': {'C03': ['C03.R7']}},
    {'name': 'sem-try-acquire-sync-and-instead-of-or', 'file': 'src/sync/semaphore.rs',
     'old': '''                || self.waiters.is_empty()
                || required_permits == 0)''',
     'new': '''                && self.waiters.is_empty()
                || required_permits == 0)''',
     'expect': {'C06': ['C06.R8']}},
    {'name': 'mutex-force-remove-inverted-panic', 'file': 'src/sync/mutex.rs',
     'old': '''        if !self.waiters.remove(wait_node) {
            // Panic if the address isn't found. This can only happen if the contract was
            // violated, e.g. the WaitQueueEntry got moved after the initial poll.
            panic!("Future could not be removed from wait queue");''',
     'new': '''        if self.waiters.remove(wait_node) {
            // Panic if the address isn't found. This can only happen if the contract was
            // violated, e.g. the WaitQueueEntry got moved after the initial poll.
            panic!("Future could not be removed from wait queue");''',
     'expect': {'C01': ['C01.I1']}},
    # ---------------------------------------------------------------- fair hand-over invariant (seed C04c)
    {'name': 'mutex-cancel-of-waiting-future-notifies-head', 'file': 'src/sync/mutex.rs',
     'old': '                unsafe { self.force_remove_waiter(wait_node) };\n                wait_node.state = PollState::Done;\n                None\n            }\n            PollState::New | PollState::Done => None,',
     'new': '                unsafe { self.force_remove_waiter(wait_node) };\n                wait_node.state = PollState::Done;\n                self.return_last_waiter()\n            }\n            PollState::New | PollState::Done => None,',
     'expect': {'C01': ['C01.P.fair']}},
    {'name': 'mutex-fair-notified-head-requeues-behind', 'edits': [
        {'file': 'src/sync/mutex.rs', 'old': '                unsafe { self.force_remove_waiter(wait_node) };\n                wait_node.state = PollState::Done;\n                None\n            }\n            PollState::New | PollState::Done => None,', 'new': '                unsafe { self.force_remove_waiter(wait_node) };\n                wait_node.state = PollState::Done;\n                self.return_last_waiter()\n            }\n            PollState::New | PollState::Done => None,'},
        {'file': 'src/sync/mutex.rs', 'old': '                if !self.is_locked {\n                    if self.is_fair {\n                        // In a fair Mutex, the WaitQueueEntry is kept in the\n                        // linked list and must be removed here\n                        // Safety: Due to the state, we know that the node must be part\n                        // of the waiter list\n                        self.force_remove_waiter(wait_node);\n                    }\n                    self.is_locked = true;\n                    wait_node.state = PollState::Done;\n                    Poll::Ready(())\n                } else {\n                    // Fair mutexes should always be able to acquire the lock\n                    // after they had been notified\n                    debug_assert!(!self.is_fair);', 'new': '                if self.is_fair {\n                    self.force_remove_waiter(wait_node);\n                }\n                if !self.is_locked {\n                    self.is_locked = true;\n                    wait_node.state = PollState::Done;\n                    Poll::Ready(())\n                } else {'}],
     'expect': {'C04': ['C04.R4']}},
    {'name': 'sem-fair-waiting-repoll-moves-to-back', 'file': 'src/sync/semaphore.rs',
     'old': """                    // In this case we need to update it.
                    update_waker_ref(&mut wait_node.task, cx);
                    Poll::Pending
                } else {
                    // For throughput improvement purposes, check immediately""",
     'new': """                    // In this case we need to update it.
                    update_waker_ref(&mut wait_node.task, cx);
                    self.force_remove_waiter(wait_node);
                    self.waiters.add_front(wait_node);
                    Poll::Pending
                } else {
                    // For throughput improvement purposes, check immediately""",
     'expect': {'C07': ['C07.R5']}},
    # ---------------------------------------------------------------- found by the line-level mutation sweep (second pass)
    {'name': 'list-is-empty-negated', 'file': 'src/intrusive_double_linked_list.rs',
     'old': '    pub fn is_empty(&self) -> bool {\n        if !self.head.is_none() {',
     'new': '    pub fn is_empty(&self) -> bool {\n        if !(!self.head.is_none()) {',
     'expect': {'C20': ['C20.R2', 'C20.R5']}},
    {'name': 'list-remove-nonmember-assert-flipped', 'file': 'src/intrusive_double_linked_list.rs',
     'old': '                if self.head != Some(node.into()) {\n                    debug_assert!(node.next.is_none());',
     'new': '                if self.head != Some(node.into()) {\n                    debug_assert!(node.next.is_some());',
     'expect': {'C20': ['C20.R5']}},
    {'name': 'list-drain-does-not-advance', 'file': 'src/intrusive_double_linked_list.rs',
     'old': '                let node_ref = node.as_mut();\n                current = node_ref.next;',
     'new': '                let node_ref = node.as_mut();',
     'expect': {'C20': ['C20.R1']}},
    {'name': 'heap-safe-lesser-keeps-bomb', 'file': 'src/intrusive_pairing_heap.rs',
     'old': '    let ordering = a < b;\n    mem::forget(bomb);',
     'new': '    let ordering = a < b;',
     'expect': {'C20': ['C20.R3']}},
    {'name': 'heap-is-root-negated', 'file': 'src/intrusive_pairing_heap.rs',
     'old': '    fn is_root(&self) -> bool {\n        if self.parent.is_none() {',
     'new': '    fn is_root(&self) -> bool {\n        if !(self.parent.is_none()) {',
     'expect': {'C20': ['C20.R5', 'C20.R2']}},
    {'name': 'heap-last-child-does-not-advance', 'file': 'src/intrusive_pairing_heap.rs',
     'old': '    while let Some(next) = cur.as_ref().next {\n        cur = next;',
     'new': '    while let Some(next) = cur.as_ref().next {',
     'expect': {'C20': ['C20.R2']}},
    {'name': 'heap-merge-children-assert-flipped', 'file': 'src/intrusive_pairing_heap.rs',
     'old': '    let common_parent = first_child.as_ref().parent;\n    debug_assert!(common_parent.is_some());',
     'new': '    let common_parent = first_child.as_ref().parent;\n    debug_assert!(common_parent.is_none());',
     'expect': {'C20': ['C20.R5']}},
    {'name': 'mpmc-clear-does-not-pop', 'file': 'src/channel/mpmc.rs',
     'old': '        while !self.buffer.is_empty() {\n            self.buffer.pop();',
     'new': '        while !self.buffer.is_empty() {',
     'expect': {'C08': ['C08.R2']}},
    {'name': 'mpmc-sender-clone-guard-negated', 'file': 'src/channel/mpmc.rs',
     'old': '                    self.inner.senders.fetch_add(1, Ordering::Relaxed);\n                if old_size > (core::isize::MAX) as usize {',
     'new': '                    self.inner.senders.fetch_add(1, Ordering::Relaxed);\n                if !(old_size > (core::isize::MAX) as usize) {',
     'expect': {'C11': ['C11.R5']}},
    {'name': 'mpmc-shared-stream-starts-terminated', 'file': 'src/channel/mpmc.rs',
     'old': '                    future: None,\n                    is_terminated: false,',
     'new': '                    future: None,\n                    is_terminated: true,',
     'expect': {'C17': ['C17.R6']}},
    {'name': 'mpmc-stream-does-not-create-future', 'file': 'src/channel/mpmc.rs',
     'old': '                if mut_self.future.is_none() {\n                    mut_self.future.replace(channel.receive());',
     'new': '                if mut_self.future.is_none() {',
     'expect': {'C01': ['C01.P']}},
    {'name': 'close-status-predicate-flipped', 'file': 'src/channel/channel_future.rs',
     'old': '        match self {\n            Self::NewlyClosed => true,',
     'new': '        match self {\n            Self::NewlyClosed => false,',
     'expect': {'C11': ['C11.R7']}},
    {'name': 'timer-expire-loop-without-remove', 'file': 'src/timer/timer.rs',
     'old': '                // Remove the expired timer\n                self.waiters.remove(entry);',
     'new': '                // Remove the expired timer',
     'expect': {'C01': ['C01.I1']}},
    {'name': 'arraybuf-drop-loop-keeps-size', 'file': 'src/buffer/ring_buffer.rs',
     'old': '            self.recv_idx = self.next_idx(self.recv_idx);\n            self.size -= 1;',
     'new': '            self.recv_idx = self.next_idx(self.recv_idx);',
     'expect': {'C19': ['C19.R1']}},
    # ---------------------------------------------------------------- from seed batch 6
    {'name': 'mpmc-registered-sender-requeues-on-repoll', 'file': 'src/channel/mpmc.rs',
     'old': """                // In this case we need to update it.
                update_waker_ref(&mut wait_node.task, cx);
                (Poll::Pending, None, None)
            }
            SendPollState::SendComplete => {""",
     'new': """                // In this case we need to update it.
                self.remove_send_waiter(wait_node);
                wait_node.task = Some(cx.waker().clone());
                wait_node.state = SendPollState::Registered;
                self.send_waiters.add_front(wait_node);
                (Poll::Pending, None, None)
            }
            SendPollState::SendComplete => {""",
     'expect': {'C09': ['C09.R7']}},
    {'name': 'oneshot-receiver-drop-reaches-into-state', 'file': 'src/channel/oneshot.rs',
     'old': """                // TODO: We could potentially avoid this, if no sender is left
                self.inner.channel.close();
            }
        }

        /// Creates a new oneshot channel which can be used to exchange values""",
     'new': """                // TODO: We could potentially avoid this, if no sender is left
                let mut state = self.inner.channel.inner.lock();
                state.close();
                let unclaimed = state.value.take();
                drop(state);
                drop(unclaimed);
            }
        }

        /// Creates a new oneshot channel which can be used to exchange values""",
     # (C01 holds here - the destructor is judged as a transition of its own and keeps the queue invariant)
     'expect': {'C12': ['C12.R6']}},
    # ---------------------------------------------------------------- found by the second-generation sweep
    {'name': 'fixedbuf-pop-asserts-len-above-one', 'file': 'src/buffer/ring_buffer.rs',
     'old': '            assert!(self.buffer.len() > 0);',
     'new': '            assert!(self.buffer.len() > 1);',
     'expect': {'C19': ['C19.R4']}},
    {'name': 'mpmc-try-send-unbuffered-assert-above-one', 'file': 'src/channel/mpmc.rs',
     'old': '            self.buffer.capacity() > 0,',
     'new': '            self.buffer.capacity() > 1,',
     'expect': {'C01': ['C01.P']}},
    {'name': 'mpmc-try-send-closed-reports-full', 'file': 'src/channel/mpmc.rs',
     'old': '            Err(TrySendError::Closed(value))',
     'new': '            Err(TrySendError::Full(value))',
     'expect': {'C11': ['C11.R8']}},
    {'name': 'mpmc-try-receive-empty-reports-closed', 'file': 'src/channel/mpmc.rs',
     'old': '        } else {\n            Err(TryReceiveError::Empty)',
     'new': '        } else {\n            Err(TryReceiveError::Closed)',
     'expect': {'C11': ['C11.R8']}},
    {'name': 'fixedbuf-push-stores-before-capacity-assert', 'file': 'src/buffer/ring_buffer.rs',
     'old': '            assert!(self.can_push());\n            self.buffer.push_back(value);',
     'new': '            self.buffer.push_back(value);\n            assert!(self.can_push());',
     'expect': {'C19': ['C19.R4'], 'C09': ['C09.R6']}},
    # batch 10 (concurrency-shaped seeds) as regression cases of the rules they produced
    {'name': 'seed-last-handles-each-skip-close', 'patch': 'seeded/C11-last-handles-each-skip-close-when-other-side-gone/patch.diff',
     'expect': {'C11': ['C11.R5']}},
    {'name': 'seed-stream-ends-when-sender-count-is-zero', 'patch': 'seeded/C17-stream-ends-when-sender-count-is-zero/patch.diff',
     'expect': {'C17': ['C17.R5']}},
    {'name': 'seed-set-wakes-waiters-one-lock-at-a-time', 'patch': 'seeded/C14-set-wakes-waiters-one-lock-at-a-time/patch.diff',
     'expect': {'C14': ['C14.W']}},
    {'name': 'seed-timer-reset-in-place', 'patch': 'seeded/C15-timer-reset-extends-deadline-in-place/patch.diff',
     'expect': {'C15': ['C15.R7']}},
    {'name': 'seed-receiver-stream-uncounted-handle', 'patch': 'seeded/C08-receiver-stream-builds-uncounted-handle/patch.diff',
     'expect': {'C08': ['C08.R2'], 'C11': ['C11.R5']}},
    {'name': 'seed-try-receive-all-wakes-instead-of-refill', 'patch': 'seeded/C09-try-receive-all-wakes-senders-instead-of-refilling/patch.diff',
     'expect': {'C09': ['C09.R2']}},
    # a bug on top of an independent refactoring (private outcome enums, split arms): the rules must still see it
    {'name': 'composed-RF38-notified-requeue-reports-acquired', 'patch': 'selftest/composed/RF38-notified-requeue-reports-acquired.diff',
     'expect': {'C02': ['C02.R1', 'C02.R2'], 'C01': ['C01.I3']}},
    {'name': 'composed-RF39-notified-requeue-without-wakeup', 'patch': 'selftest/composed/RF39-notified-requeue-without-wakeup.diff',
     'expect': {'C06': ['C06.R4']}},
    {'name': 'composed-RF48-refill-takes-newest-sender', 'patch': 'selftest/composed/RF48-refill-takes-newest-sender.diff',
     'expect': {'C09': ['C09.R3', 'C09.R2']}},
    {'name': 'composed-RF46-park-forgets-waker', 'patch': 'selftest/composed/RF46-park-forgets-waker.diff',
     'expect': {'C06': ['C06.R6']}},
    {'name': 'composed-RF50-settle-clears-slot-when-pending', 'patch': 'selftest/composed/RF50-settle-clears-slot-when-pending.diff',
     'expect': {'C17': ['C17.R1']}},
    {'name': 'composed-RF45-grant-does-not-set-lock', 'patch': 'selftest/composed/RF45-grant-does-not-set-lock.diff',
     'expect': {'C02': ['C02.R1', 'C02.R2']}},
    {'name': 'composed-RF53-fair-handover-picks-newest-waiter', 'patch': 'selftest/composed/RF53-fair-handover-picks-newest-waiter.diff',
     'expect': {'C04': ['C04.R2'], 'C03': ['C03.R1', 'C03.R2']}},
    {'name': 'composed-RF56-notified-receiver-waker-dropped', 'patch': 'selftest/composed/RF56-notified-receiver-waker-dropped.diff',
     'expect': {'C10': ['C10.R1', 'C10.R5']}},
    {'name': 'seed-first-poll-enqueues-under-second-lock', 'patch': 'seeded/C06-first-poll-enqueues-under-second-lock/patch.diff',
     'expect': {'C06': ['C06.W'], 'C05': ['C05.W']}},
    {'name': 'composed-mutex-dropped-notified-waiter-keeps-state', 'patch': 'selftest/composed/mutex-dropped-notified-waiter-keeps-state.diff',
     'expect': {'C03': ['C03.R2']}},
    {'name': 'seed-cleanup-dropped-notified-waiter-skips-wakeup', 'patch': 'seeded/C06-cleanup-dropped-notified-waiter-skips-wakeup/patch.diff',
     'expect': {'C06': ['C06.R2']}},
    {'name': 'seed-cleanup-done-state-merged-with-new', 'patch': 'seeded/C14-cleanup-done-state-merged-with-new/patch.diff',
     'expect': {'C14': ['C14.R3']}},
    {'name': 'seed-cleanup-close-clears-the-sent-value', 'patch': 'seeded/C12-cleanup-close-clears-the-sent-value/patch.diff',
     'expect': {'C12': ['C12.R6']}},
    {'name': 'seed-cleanup-shared-stream-forgets-terminated', 'patch': 'seeded/C17-cleanup-shared-stream-fast-path-forgets-terminated/patch.diff',
     'expect': {'C17': ['C17.R5']}},
    {'name': 'seed-cleanup-any-receiver-drop-clears-buffer', 'patch': 'seeded/C08-cleanup-any-receiver-drop-clears-buffer/patch.diff',
     'expect': {'C08': ['C08.R2'], 'C11': ['C11.R6']}},
    {'name': 'seed-cleanup-last-receiver-skips-clear-when-closed', 'patch': 'seeded/C11-cleanup-last-receiver-skips-clear-when-closed/patch.diff',
     'expect': {'C11': ['C11.R6']}},
]

ALLP = ['C01','C02','C03','C04','C05','C06','C07','C08','C09','C10','C11','C12','C13','C14','C15','C17','C18','C19','C20']

BENIGN = [
    {'name': 'benign-mutex-rename-and-match', 'props': ['C01', 'C02', 'C03', 'C04', 'C17'], 'edits': [
        {'file': 'src/sync/mutex.rs',
         'old': '''        if let Some(last_waiter) = last_waiter {
            // Notify the waiter that it can try to lock the mutex again.
            // The notification gets tracked inside the waiter.
            // If the waiter aborts it's wait (drops the future), another task
            // must be woken.
            last_waiter.state = PollState::Notified;

            let task = &mut last_waiter.task;
            return task.take();
        }

        None''',
         'new': '''        match last_waiter {
            Some(oldest) => {
                oldest.state = PollState::Notified;
                oldest.task.take()
            }
            None => None,
        }'''},
        {'file': 'src/sync/mutex.rs',
         'old': '''        let waker = { self.mutex.state.lock().unlock() };
        if let Some(waker) = waker {
            waker.wake();
        }''',
         'new': '''        let to_wake = { self.mutex.state.lock().unlock() };
        match to_wake {
            Some(w) => w.wake(),
            None => {}
        }'''}]},
    {'name': 'benign-mutex-extract-helper-and-reorder', 'props': ['C01', 'C02', 'C03', 'C04'], 'edits': [
        {'file': 'src/sync/mutex.rs',
         'old': '''        if self.is_locked {
            self.is_locked = false;
            // TODO: Does this require a memory barrier for the actual data,
            // or is this covered by unlocking the mutex which protects the data?
            // Wakeup the last waiter
            self.return_last_waiter()
        } else {
            None
        }
    }''',
         'new': '''        if self.is_locked {
            self.release_and_hand_over()
        } else {
            None
        }
    }

    fn release_and_hand_over(&mut self) -> Option<Waker> {
        self.is_locked = false;
        self.return_last_waiter()
    }'''},
        {'file': 'src/sync/mutex.rs',
         'old': '''                    // Add the task to the wait queue
                    wait_node.task = Some(cx.waker().clone());
                    wait_node.state = PollState::Waiting;
                    self.waiters.add_front(wait_node);''',
         'new': '''                    // Add the task to the wait queue
                    wait_node.state = PollState::Waiting;
                    wait_node.task = Some(cx.waker().clone());
                    self.waiters.add_front(wait_node);'''}]},
    {'name': 'benign-semaphore-mirrored-compare-and-wrapper', 'props': ['C01', 'C05', 'C06', 'C07'], 'edits': [
        {'file': 'src/sync/semaphore.rs',
         'old': '''                    if self.permits >= wait_node.required_permits {
                        self.permits -= wait_node.required_permits;
                        wait_node.state = PollState::Done;''',
         'new': '''                    if wait_node.required_permits <= self.permits {
                        self.permits -= wait_node.required_permits;
                        wait_node.state = PollState::Done;'''},
        {'file': 'src/sync/semaphore.rs',
         'old': '''                    if available < last_waiter.required_permits {
                        return;
                    }''',
         'new': '''                    if last_waiter.required_permits > available {
                        return;
                    }'''},
        {'file': 'src/sync/semaphore.rs',
         'old': '''        // Wakeup the last waiter
        self.wakeup_waiters();
    }''',
         'new': '''        // Wakeup the last waiter
        self.rewake();
    }

    fn rewake(&mut self) {
        self.wakeup_waiters()
    }'''}]},
    {'name': 'benign-timer-and-state-mirrored-compare', 'props': ['C13', 'C15', 'C01'], 'edits': [
        {'file': 'src/timer/timer.rs',
         'old': '''                if now >= wait_node.expiry {''',
         'new': '''                if wait_node.expiry <= now {'''},
        {'file': 'src/channel/state_broadcast.rs',
         'old': '''        if state_id < self.state_id {
            Some((self.state_id, val.clone()))''',
         'new': '''        if self.state_id > state_id {
            Some((self.state_id, val.clone()))'''}]},
    {'name': 'benign-mpmc-method-instead-of-free-fn', 'props': ['C01', 'C08', 'C09', 'C10', 'C11'], 'edits': [
        {'file': 'src/channel/mpmc.rs',
         'old': '''            self.buffer.push(value);

            // Return the oldest receive waiter
            Ok(return_oldest_receive_waiter(&mut self.receive_waiters))''',
         'new': '''            self.buffer.push(value);

            // Return the oldest receive waiter
            Ok(self.wake_one_receiver())'''},
        {'file': 'src/channel/mpmc.rs',
         'old': '''    fn clear(&mut self) {''',
         'new': '''    fn wake_one_receiver(&mut self) -> Option<Waker> {
        return_oldest_receive_waiter(&mut self.receive_waiters)
    }

    fn clear(&mut self) {'''}]},
    {'name': 'benign-future-poll-if-let-ready', 'props': ['C17', 'C01', 'C14'], 'edits': [
        {'file': 'src/channel/channel_future.rs',
         'old': '''        let poll_res =
            unsafe { channel.receive_or_register(&mut mut_self.wait_node, cx) };

        if poll_res.is_ready() {
            // A value was available
            mut_self.channel = None;
        }

        poll_res
    }
}

impl<'a, MutexType, T> FusedFuture for ChannelReceiveFuture<'a, MutexType, T> {''',
         'new': '''        let poll_res =
            unsafe { channel.receive_or_register(&mut mut_self.wait_node, cx) };

        if let Poll::Ready(_) = &poll_res {
            // A value was available
            mut_self.channel = None;
        }

        poll_res
    }
}

impl<'a, MutexType, T> FusedFuture for ChannelReceiveFuture<'a, MutexType, T> {'''}]},
    {'name': 'benign-event-forward-drain-and-arm-order', 'props': ['C14', 'C01', 'C17'], 'edits': [
        {'file': 'src/sync/manual_reset_event.rs',
         'old': '''            self.waiters.reverse_drain(|waiter| {''',
         'new': '''            self.waiters.drain(|waiter| {'''},
        {'file': 'src/sync/manual_reset_event.rs',
         'old': '''            PollState::Waiting => {
                // The WaitForEventFuture is already in the queue.
                // The event can't have been set, since this would change the
                // waitstate inside the mutex. However the caller might have
                // passed a different `Waker`. In this case we need to update it.
                update_waker_ref(&mut wait_node.task, cx);
                Poll::Pending
            }
            PollState::Done => {
                // We have been woken up by the event.
                // This does not guarantee that the event is still set. It could
                // have been reset it in the meantime.
                Poll::Ready(())
            }''',
         'new': '''            PollState::Done => {
                Poll::Ready(())
            }
            PollState::Waiting => {
                update_waker_ref(&mut wait_node.task, cx);
                Poll::Pending
            }'''}]},
    {'name': 'benign-mutex-notified-arm-handles-locked-gracefully', 'props': ALLP, 'edits': [
        {'file': 'src/sync/mutex.rs', 'old': '                if !self.is_locked {\n                    if self.is_fair {\n                        // In a fair Mutex, the WaitQueueEntry is kept in the\n                        // linked list and must be removed here\n                        // Safety: Due to the state, we know that the node must be part\n                        // of the waiter list\n                        self.force_remove_waiter(wait_node);\n                    }\n                    self.is_locked = true;\n                    wait_node.state = PollState::Done;\n                    Poll::Ready(())\n                } else {\n                    // Fair mutexes should always be able to acquire the lock\n                    // after they had been notified\n                    debug_assert!(!self.is_fair);', 'new': '                if self.is_fair {\n                    self.force_remove_waiter(wait_node);\n                }\n                if !self.is_locked {\n                    self.is_locked = true;\n                    wait_node.state = PollState::Done;\n                    Poll::Ready(())\n                } else {'}]},
    {'name': 'benign-sem-guard-through-saturating-sub', 'props': ['C01', 'C05', 'C07'], 'edits': [
        {'file': 'src/sync/semaphore.rs',
         'old': """                    // if enough permits are available
                    if self.permits >= wait_node.required_permits {""",
         'new': """                    // if enough permits are available
                    if self.permits.saturating_sub(0) >= wait_node.required_permits {"""}]},
    {'name': 'benign-sweep-bool-literal-and-double-negation', 'props': ALLP, 'edits': [
        {'file': 'src/sync/mutex.rs',
         'old': '        if self.is_locked {',
         'new': '        if self.is_locked == true {'},
        {'file': 'src/sync/mutex.rs',
         'old': '                if self.try_lock_sync() {',
         'new': '                if self.try_lock_sync() == true {'},
        {'file': 'src/channel/mpmc.rs',
         'old': '    fn close(&mut self) -> CloseStatus {\n        if self.is_closed {',
         'new': '    fn close(&mut self) -> CloseStatus {\n        if self.is_closed == true {'},
        {'file': 'src/channel/mpmc.rs',
         'old': '        );\n\n        if self.is_closed {',
         'new': '        );\n\n        if self.is_closed == true {'},
        {'file': 'src/sync/semaphore.rs',
         'old': '                    if available < last_waiter.required_permits {',
         'new': '                    if !(!(available < last_waiter.required_permits)) {'},
        {'file': 'src/sync/semaphore.rs',
         'old': '                    if last_waiter.state != PollState::Notified {',
         'new': '                    if !(!(last_waiter.state != PollState::Notified)) {'},
        {'file': 'src/channel/oneshot.rs',
         'old': '    fn send(&mut self, value: T) -> Result<(), ChannelSendError<T>> {\n        if self.is_fulfilled {',
         'new': '    fn send(&mut self, value: T) -> Result<(), ChannelSendError<T>> {\n        if self.is_fulfilled == true {'},
    ]},
    {'name': 'benign-sweep-constants-through-temporaries', 'props': ALLP, 'edits': [
        {'file': 'src/sync/mutex.rs',
         'old': '            last_waiter.state = PollState::Notified;',
         'new': '            let tmp_benign_value = PollState::Notified; last_waiter.state = tmp_benign_value;'},
        {'file': 'src/sync/mutex.rs',
         'old': '            self.is_locked = false;',
         'new': '            let tmp_benign_value = false; self.is_locked = tmp_benign_value;'},
        {'file': 'src/channel/mpmc.rs',
         'old': '        waiter.state = RecvPollState::Unregistered;',
         'new': '        let tmp_benign_value = RecvPollState::Unregistered; waiter.state = tmp_benign_value;'},
        {'file': 'src/channel/oneshot.rs',
         'old': '        waiter.state = RecvPollState::Unregistered;',
         'new': '        let tmp_benign_value = RecvPollState::Unregistered; waiter.state = tmp_benign_value;'},
        {'file': 'src/channel/state_broadcast.rs',
         'old': '            // A value was available\n            mut_self.channel = None;',
         'new': '            // A value was available\n            let tmp_benign_value = None; mut_self.channel = tmp_benign_value;'},
    ]},
    {'name': 'benign-sweep-option-spellings', 'props': ALLP, 'edits': [
        {'file': 'src/sync/mutex.rs',
         'old': '        self.mutex.is_none()',
         'new': '        !self.mutex.is_some()'},
        {'file': 'src/channel/channel_future.rs',
         'old': "impl<'a, MutexType, T> FusedFuture for ChannelReceiveFuture<'a, MutexType, T> {\n    fn is_terminated(&self) -> bool {\n        self.channel.is_none()",
         'new': "impl<'a, MutexType, T> FusedFuture for ChannelReceiveFuture<'a, MutexType, T> {\n    fn is_terminated(&self) -> bool {\n        !self.channel.is_some()"},
        {'file': 'src/channel/mpmc.rs',
         'old': '        last_waiter.state = RecvPollState::Notified;\n        last_waiter.task.take()',
         'new': '        last_waiter.state = RecvPollState::Notified;\n        core::mem::replace(&mut last_waiter.task, None)'},
        {'file': 'src/channel/mpmc.rs',
         'old': '                    let value = wait_node.value.take();',
         'new': '                    let value = core::mem::replace(&mut wait_node.value, None);'},
        {'file': 'src/intrusive_pairing_heap.rs',
         'old': '        let parent = node.parent.take();',
         'new': '        let parent = core::mem::replace(&mut node.parent, None);'},
    ]},
    {'name': 'benign-sweep-comparison-spellings', 'props': ALLP, 'edits': [
        {'file': 'src/timer/timer.rs',
         'old': '        self.expiry == other.expiry',
         'new': '        !(self.expiry != other.expiry)'},
        {'file': 'src/buffer/ring_buffer.rs',
         'old': '        self.len() != self.capacity()',
         'new': '        !(self.len() == self.capacity())'},
        {'file': 'src/buffer/ring_buffer.rs',
         'old': '            self.buffer.len() != self.cap',
         'new': '            !(self.buffer.len() == self.cap)'},
        {'file': 'src/buffer/ring_buffer.rs',
         'old': '            self.buffer.len() != self.limit',
         'new': '            !(self.buffer.len() == self.limit)'},
        {'file': 'src/intrusive_pairing_heap.rs',
         'old': '    let ordering = a < b;',
         'new': '    let ordering = (b > a);'},
        {'file': 'src/sync/semaphore.rs',
         'old': '        if (self.permits >= required_permits)',
         'new': '        if (!(self.permits < required_permits))'},
    ]},
    {'name': 'benign-sweep-if-else-swapped', 'props': ALLP, 'edits': [
        {'file': 'src/sync/mutex.rs',
         'old': '        if self.is_locked {\n            self.is_locked = false;\n            // TODO: Does this require a memory barrier for the actual data,\n            // or is this covered by unlocking the mutex which protects the data?\n            // Wakeup the last waiter\n            self.return_last_waiter()\n        } else {\n            None\n        }',
         'new': '        if !(self.is_locked) {\n            None\n        } else {\n            self.is_locked = false;\n            // TODO: Does this require a memory barrier for the actual data,\n            // or is this covered by unlocking the mutex which protects the data?\n            // Wakeup the last waiter\n            self.return_last_waiter()\n        }'},
        {'file': 'src/sync/semaphore.rs',
         'old': "                    if !self.is_fair {\n                        self.waiters.remove_last();\n                    } else {\n                        // For a fair Semaphore we never wake more than 1 task.\n                        // That one needs to acquire the Semaphore.\n                        // TODO: We actually should be able to wake more, since\n                        // it's guaranteed that both tasks could make progress.\n                        // However the we currently can't peek iterate in reverse order.\n                        return;\n                    }",
         'new': "                    if !(!self.is_fair) {\n                        // For a fair Semaphore we never wake more than 1 task.\n                        // That one needs to acquire the Semaphore.\n                        // TODO: We actually should be able to wake more, since\n                        // it's guaranteed that both tasks could make progress.\n                        // However the we currently can't peek iterate in reverse order.\n                        return;\n                    } else {\n                        self.waiters.remove_last();\n                    }"},
        {'file': 'src/channel/mpmc.rs',
         'old': '                if !self.buffer.can_push() {\n                    // If the capacity is exhausted, register a waiter\n                    wait_node.task = Some(cx.waker().clone());\n                    wait_node.state = SendPollState::Registered;\n                    self.send_waiters.add_front(wait_node);\n\n                    // Return the oldest receive waiter\n                    let waker =\n                        return_oldest_receive_waiter(&mut self.receive_waiters);\n                    return (Poll::Pending, None, waker);\n                } else {\n                    // Otherwise copy the value directly into the channel\n                    let value = wait_node\n                        .value\n                        .take()\n                        .expect("wait_node must contain value");\n                    self.buffer.push(value);\n\n                    // Return the oldest receive waiter\n                    let waker =\n                        return_oldest_receive_waiter(&mut self.receive_waiters);\n\n                    (Poll::Ready(()), None, waker)\n                }',
         'new': '                if !(!self.buffer.can_push()) {\n                    // Otherwise copy the value directly into the channel\n                    let value = wait_node\n                        .value\n                        .take()\n                        .expect("wait_node must contain value");\n                    self.buffer.push(value);\n\n                    // Return the oldest receive waiter\n                    let waker =\n                        return_oldest_receive_waiter(&mut self.receive_waiters);\n\n                    (Poll::Ready(()), None, waker)\n                } else {\n                    // If the capacity is exhausted, register a waiter\n                    wait_node.task = Some(cx.waker().clone());\n                    wait_node.state = SendPollState::Registered;\n                    self.send_waiters.add_front(wait_node);\n\n                    // Return the oldest receive waiter\n                    let waker =\n                        return_oldest_receive_waiter(&mut self.receive_waiters);\n                    return (Poll::Pending, None, waker);\n                }'},
    ]},
    {'name': 'benign-oneshot-receiver-drop-closes-state-under-own-lock', 'props': ALLP, 'edits': [
        {'file': 'src/channel/oneshot.rs',
         'old': """                // TODO: We could potentially avoid this, if no sender is left
                self.inner.channel.close();
            }
        }

        /// Creates a new oneshot channel which can be used to exchange values""",
         'new': """                // TODO: We could potentially avoid this, if no sender is left
                let mut state = self.inner.channel.inner.lock();
                state.close();
            }
        }

        /// Creates a new oneshot channel which can be used to exchange values"""}]},
    # independent, substantial behaviour-preserving refactorings (sub-agents saw only the crate): benign/<id>/
    {'name': 'benign-refactor-RF1-mutex', 'props': ALLP + ['C16'], 'patch': 'benign/RF1/patch.diff'},
    {'name': 'benign-refactor-RF2-semaphore', 'props': ALLP + ['C16'], 'patch': 'benign/RF2/patch.diff'},
    {'name': 'benign-refactor-RF3-mpmc-state-and-wrappers', 'props': ALLP + ['C16'], 'patch': 'benign/RF3/patch.diff'},
    {'name': 'benign-refactor-RF4-event-and-timer', 'props': ALLP + ['C16'], 'patch': 'benign/RF4/patch.diff'},
    {'name': 'benign-refactor-RF5-oneshot-broadcast-state', 'props': ALLP + ['C16'], 'patch': 'benign/RF5/patch.diff'},
    {'name': 'benign-refactor-RF6-buffers-list-heap', 'props': ALLP + ['C16'], 'patch': 'benign/RF6/patch.diff'},
    {'name': 'benign-refactor-RF7-channel-futures-and-shared-flavours', 'props': ALLP + ['C16'], 'patch': 'benign/RF7/patch.diff'},
    {'name': 'benign-refactor-RF8-mutex-and-event-2', 'props': ALLP + ['C16'], 'patch': 'benign/RF8/patch.diff'},
    {'name': 'benign-refactor-RF9-semaphore-2', 'props': ALLP + ['C16'], 'patch': 'benign/RF9/patch.diff'},
    {'name': 'benign-refactor-RF10-mpmc-everything-2', 'props': ALLP + ['C16'], 'patch': 'benign/RF10/patch.diff'},
    {'name': 'benign-refactor-RF11-timer-and-utils-2', 'props': ALLP + ['C16'], 'patch': 'benign/RF11/patch.diff'},
    {'name': 'benign-refactor-RF12-state-and-oneshot-broadcast-2', 'props': ALLP + ['C16'], 'patch': 'benign/RF12/patch.diff'},
    {'name': 'benign-refactor-RF13-list-heap-buffers-2', 'props': ALLP + ['C16'], 'patch': 'benign/RF13/patch.diff'},
    {'name': 'benign-refactor-RF14-oneshot-futures-errors-2', 'props': ALLP + ['C16'], 'patch': 'benign/RF14/patch.diff'},
    {'name': 'benign-refactor-RF15-mutex-3', 'props': ALLP + ['C16'], 'patch': 'benign/RF15/patch.diff'},
    {'name': 'benign-refactor-RF16-semaphore-3', 'props': ALLP + ['C16'], 'patch': 'benign/RF16/patch.diff'},
    {'name': 'benign-refactor-RF17-mpmc-state-3', 'props': ALLP + ['C16'], 'patch': 'benign/RF17/patch.diff'},
    {'name': 'benign-refactor-RF18-mpmc-shared-and-futures-3', 'props': ALLP + ['C16'], 'patch': 'benign/RF18/patch.diff'},
    {'name': 'benign-refactor-RF19-event-timer-clock-3', 'props': ALLP + ['C16'], 'patch': 'benign/RF19/patch.diff'},
    {'name': 'benign-refactor-RF21-list-heap-buffers-utils-3', 'props': ALLP + ['C16'], 'patch': 'benign/RF21/patch.diff'},
    {'name': 'benign-refactor-RF20-oneshot-broadcast-state-3', 'props': [p_ for p_ in ALLP + ['C16'] if p_ != 'C11'], 'patch': 'benign/RF20/patch.diff'},
    {'name': 'benign-refactor-RF22-mutex-semaphore-4', 'props': ALLP + ['C16'], 'patch': 'benign/RF22/patch.diff'},
    {'name': 'benign-refactor-RF23-mpmc-4', 'props': ALLP + ['C16'], 'patch': 'benign/RF23/patch.diff'},
    {'name': 'benign-refactor-RF24-futures-errors-utils-4', 'props': ALLP + ['C16'], 'patch': 'benign/RF24/patch.diff'},
    {'name': 'benign-refactor-RF25-event-timer-4', 'props': ALLP + ['C16'], 'patch': 'benign/RF25/patch.diff'},
    {'name': 'benign-refactor-RF26-oneshot-broadcast-4', 'props': ALLP + ['C16'], 'patch': 'benign/RF26/patch.diff'},
    {'name': 'benign-refactor-RF27-state-broadcast-4', 'props': ALLP + ['C16'], 'patch': 'benign/RF27/patch.diff'},
    {'name': 'benign-refactor-RF28-list-heap-buffers-4', 'props': ALLP + ['C16'], 'patch': 'benign/RF28/patch.diff'},
    {'name': 'benign-refactor-RF29-semaphore-first-poll-one-lock', 'props': ALLP + ['C16'], 'patch': 'benign/RF29/patch.diff'},
    {'name': 'benign-refactor-RF30-stream-fast-path-closed-verdict', 'props': ALLP + ['C16'], 'patch': 'benign/RF30/patch.diff'},
    {'name': 'benign-refactor-RF31-last-sender-leaves-close-to-receiver', 'props': ALLP + ['C16'], 'patch': 'benign/RF31/patch.diff'},
    {'name': 'benign-feature-RF32-mutex-future-try-acquire', 'props': ALLP + ['C16'], 'patch': 'benign/RF32/patch.diff'},
    {'name': 'benign-feature-RF33-receiver-stream-by-ref', 'props': ALLP + ['C16'], 'patch': 'benign/RF33/patch.diff'},
    {'name': 'benign-feature-RF34-oneshot-with-value', 'props': ALLP + ['C16'], 'patch': 'benign/RF34/patch.diff'},
    {'name': 'benign-feature-RF35-state-broadcast-send-replace', 'props': ALLP + ['C16'], 'patch': 'benign/RF35/patch.diff'},
    {'name': 'benign-feature-RF36-timer-reset', 'props': ALLP + ['C16'], 'patch': 'benign/RF36/patch.diff'},
    {'name': 'benign-refactor-RF37-event-set-looks-first', 'props': ALLP + ['C16'], 'patch': 'benign/RF37/patch.diff'},
    {'name': 'benign-refactor-RF38-mutex-5', 'props': ALLP + ['C16'], 'patch': 'benign/RF38/patch.diff'},
    {'name': 'benign-refactor-RF39-semaphore-5', 'props': ALLP + ['C16'], 'patch': 'benign/RF39/patch.diff'},
    {'name': 'benign-refactor-RF40-event-timer-5', 'props': ALLP + ['C16'], 'patch': 'benign/RF40/patch.diff'},
    {'name': 'benign-refactor-RF41-mpmc-5', 'props': ALLP + ['C16'], 'patch': 'benign/RF41/patch.diff'},
    {'name': 'benign-refactor-RF42-oneshots-5', 'props': ALLP + ['C16'], 'patch': 'benign/RF42/patch.diff'},
    {'name': 'benign-refactor-RF43-state-broadcast-futures-5', 'props': ALLP + ['C16'], 'patch': 'benign/RF43/patch.diff'},
    {'name': 'benign-refactor-RF44-containers-5', 'props': ALLP + ['C16'], 'patch': 'benign/RF44/patch.diff'},
    {'name': 'benign-refactor-RF45-mutex-6', 'props': ALLP + ['C16'], 'patch': 'benign/RF45/patch.diff'},
    {'name': 'benign-refactor-RF46-semaphore-6', 'props': ALLP + ['C16'], 'patch': 'benign/RF46/patch.diff'},
    {'name': 'benign-refactor-RF47-event-timer-6', 'props': ALLP + ['C16'], 'patch': 'benign/RF47/patch.diff'},
    {'name': 'benign-refactor-RF48-mpmc-6', 'props': ALLP + ['C16'], 'patch': 'benign/RF48/patch.diff'},
    {'name': 'benign-refactor-RF49-oneshots-6', 'props': ALLP + ['C16'], 'patch': 'benign/RF49/patch.diff'},
    {'name': 'benign-refactor-RF50-state-broadcast-futures-6', 'props': ALLP + ['C16'], 'patch': 'benign/RF50/patch.diff'},
    {'name': 'benign-refactor-RF51-containers-6', 'props': ALLP + ['C16'], 'patch': 'benign/RF51/patch.diff'},
    {'name': 'benign-refactor-RF52-mutex-sync-outcome-enum', 'props': ALLP + ['C16'], 'patch': 'benign/RF52/patch.diff'},
    {'name': 'benign-refactor-RF53-mutex-7', 'props': ALLP + ['C16'], 'patch': 'benign/RF53/patch.diff'},
    {'name': 'benign-refactor-RF54-semaphore-7', 'props': ALLP + ['C16'], 'patch': 'benign/RF54/patch.diff'},
    {'name': 'benign-refactor-RF55-event-timer-7', 'props': ALLP + ['C16'], 'patch': 'benign/RF55/patch.diff'},
    {'name': 'benign-refactor-RF56-mpmc-7', 'props': ALLP + ['C16'], 'patch': 'benign/RF56/patch.diff'},
    {'name': 'benign-refactor-RF57-oneshots-7', 'props': ALLP + ['C16'], 'patch': 'benign/RF57/patch.diff'},
    {'name': 'benign-refactor-RF58-state-broadcast-futures-7', 'props': ALLP + ['C16'], 'patch': 'benign/RF58/patch.diff'},
    {'name': 'benign-refactor-RF59-containers-7', 'props': ALLP + ['C16'], 'patch': 'benign/RF59/patch.diff'},
    {'name': 'benign-refactor-RF60-mutex-8', 'props': ALLP + ['C16'], 'patch': 'benign/RF60/patch.diff'},
    {'name': 'benign-refactor-RF61-semaphore-8', 'props': ALLP + ['C16'], 'patch': 'benign/RF61/patch.diff'},
    {'name': 'benign-refactor-RF62-event-timer-8', 'props': ALLP + ['C16'], 'patch': 'benign/RF62/patch.diff'},
    {'name': 'benign-refactor-RF63-mpmc-8', 'props': ALLP + ['C16'], 'patch': 'benign/RF63/patch.diff'},
    {'name': 'benign-refactor-RF64-oneshots-8', 'props': ALLP + ['C16'], 'patch': 'benign/RF64/patch.diff'},
    {'name': 'benign-refactor-RF65-state-broadcast-futures-8', 'props': ALLP + ['C16'], 'patch': 'benign/RF65/patch.diff'},
    {'name': 'benign-refactor-RF66-containers-8', 'props': ALLP + ['C16'], 'patch': 'benign/RF66/patch.diff'},
    {'name': 'benign-refactor-RF67-mutex-9', 'props': ALLP + ['C16'], 'patch': 'benign/RF67/patch.diff'},
    {'name': 'benign-refactor-RF68-semaphore-9', 'props': ALLP + ['C16'], 'patch': 'benign/RF68/patch.diff'},
    {'name': 'benign-refactor-RF69-event-timer-9', 'props': ALLP + ['C16'], 'patch': 'benign/RF69/patch.diff'},
    {'name': 'benign-refactor-RF70-mpmc-9', 'props': ALLP + ['C16'], 'patch': 'benign/RF70/patch.diff'},
    {'name': 'benign-refactor-RF71-oneshots-9', 'props': ALLP + ['C16'], 'patch': 'benign/RF71/patch.diff'},
    {'name': 'benign-refactor-RF72-state-broadcast-futures-9', 'props': ALLP + ['C16'], 'patch': 'benign/RF72/patch.diff'},
    {'name': 'benign-refactor-RF73-containers-9', 'props': [p for p in ALLP if p != 'C20'] + ['C16'], 'patch': 'benign/RF73/patch.diff'},
    {'name': 'benign-refactor-RF74-parameter-renames', 'props': ALLP + ['C16'], 'patch': 'benign/RF74/patch.diff'},
    {'name': 'benign-refactor-RF75-oneshots-cleanup-repaired', 'props': ALLP + ['C16'], 'patch': 'benign/RF75/patch.diff'},
    {'name': 'benign-refactor-RF76-mutex-cleanup-repaired', 'props': ALLP + ['C16'], 'patch': 'benign/RF76/patch.diff'},
    {'name': 'benign-refactor-RF77-semaphore-cleanup-repaired', 'props': ALLP + ['C16'], 'patch': 'benign/RF77/patch.diff'},
    {'name': 'benign-refactor-RF78-mpmc-endpoint-helper-repaired', 'props': ALLP + ['C16'], 'patch': 'benign/RF78/patch.diff'},
    {'name': 'benign-refactor-RF79-mpmc-refill-order-repaired', 'props': ALLP + ['C16'], 'patch': 'benign/RF79/patch.diff'},
    {'name': 'benign-refactor-RF80-mpmc-shutdown-repaired', 'props': ALLP + ['C16'], 'patch': 'benign/RF80/patch.diff'},
    {'name': 'benign-refactor-RF81-mpmc-stream-helper-repaired', 'props': ALLP + ['C16'], 'patch': 'benign/RF81/patch.diff'},
    {'name': 'benign-refactor-RF82-state-broadcast-cleanup-repaired', 'props': ALLP + ['C16'], 'patch': 'benign/RF82/patch.diff'},
    {'name': 'benign-refactor-RF83-event-cleanup-repaired', 'props': ALLP + ['C16'], 'patch': 'benign/RF83/patch.diff'},
    {'name': 'benign-unrelated-additions', 'props': ALLP, 'edits': [
        {'file': 'src/sync/semaphore.rs',
         'old': '''    /// Returns the amount of permits that are available on the semaphore
    pub fn permits(&self) -> usize {
        self.state.lock().permits()
    }
}

// Export a non thread-safe version using NoopLock''',
         'new': '''    /// Returns the amount of permits that are available on the semaphore
    pub fn permits(&self) -> usize {
        self.state.lock().permits()
    }

    /// Returns whether no permits are currently available
    pub fn is_exhausted(&self) -> bool {
        self.permits() == 0
    }
}

// Export a non thread-safe version using NoopLock'''},
        {'file': 'src/channel/mpmc.rs',
         'old': '''    /// Closes the channel.
    /// All pending and future send attempts will fail.
    /// Receive attempts will continue to succeed as long as there are items
    /// stored inside the channel. Further attempts will fail.
    pub fn close(&self) -> CloseStatus {
        self.inner.lock().close()
    }
}

impl<MutexType: RawMutex, T, A> ChannelSendAccess<T>''',
         'new': '''    /// Closes the channel.
    /// All pending and future send attempts will fail.
    /// Receive attempts will continue to succeed as long as there are items
    /// stored inside the channel. Further attempts will fail.
    pub fn close(&self) -> CloseStatus {
        self.inner.lock().close()
    }

    /// Returns whether the channel had been closed
    pub fn is_closed(&self) -> bool {
        self.inner.lock().is_closed
    }
}

impl<MutexType: RawMutex, T, A> ChannelSendAccess<T>'''}]},
    {'name': 'benign-oneshot-mem-replace', 'file': 'src/channel/oneshot.rs',
     'old': '''                let maybe_val = self.value.take();''',
     'new': '''                let maybe_val = core::mem::replace(&mut self.value, None);''',
     'props': ['C12', 'C11', 'C08', 'C01']},
]
