"""Mutants (one broken rule instance each; all compile) and benign refactors.
`expect` maps property -> accepted rule-id prefixes of the reported key."""

MUTANTS = [
    {'name': 'mutex-fair-notified-drop-no-unlink', 'file': 'src/sync/mutex.rs',
     'old': '''                    unsafe { self.force_remove_waiter(wait_node) };
                }
                wait_node.state = PollState::Done;
                // Since the task was notified but did not lock the Mutex,''',
     'new': '''                }
                wait_node.state = PollState::Done;
                // Since the task was notified but did not lock the Mutex,''',
     'expect': {'C01': ['C01.I1']}},
    {'name': 'mutex-return-last-waiter-always-removes', 'file': 'src/sync/mutex.rs',
     'old': '''        let last_waiter = if self.is_fair {
            self.waiters.peek_last_mut()
        } else {
            self.waiters.remove_last()
        };''',
     'new': '''        let last_waiter = self.waiters.remove_last();''',
     'expect': {'C01': ['C01.I1']}},
    {'name': 'event-registered-without-add', 'file': 'src/sync/manual_reset_event.rs',
     'old': '''                    wait_node.state = PollState::Waiting;
                    self.waiters.add_front(wait_node);''',
     'new': '''                    wait_node.state = PollState::Waiting;''',
     'expect': {'C01': ['C01.I1']}},
    {'name': 'timer-expire-without-remove', 'file': 'src/timer/timer.rs',
     'old': '''                // Remove the expired timer
                self.waiters.remove(entry);''',
     'new': '''                // Remove the expired timer
                if first_expiry != 0 { self.waiters.remove(entry); } else { break; }''',
     'expect': {'C01': ['C01.I1']}},
    {'name': 'mpmc-close-forgets-state', 'file': 'src/channel/mpmc.rs',
     'old': '''        waiter.state = SendPollState::Unregistered;
    });''',
     'new': '''    });''',
     'expect': {'C01': ['C01.I1']}},
    # ---------------------------------------------------------------- C02
    {'name': 'mutex-fair-notified-locks-without-test', 'file': 'src/sync/mutex.rs',
     'old': '''                if !self.is_locked {
                    if self.is_fair {
                        // In a fair Mutex, the WaitQueueEntry is kept in the
                        // linked list and must be removed here
                        // Safety: Due to the state, we know that the node must be part
                        // of the waiter list
                        self.force_remove_waiter(wait_node);
                    }
                    self.is_locked = true;''',
     'new': '''                if !self.is_locked || self.is_fair {
                    if self.is_fair {
                        self.force_remove_waiter(wait_node);
                    }
                    self.is_locked = true;''',
     'expect': {'C02': ['C02.R2', 'C02.R1']}},
    {'name': 'mutex-remove-waiter-clears-lock', 'file': 'src/sync/mutex.rs',
     'old': '''                wait_node.state = PollState::Done;
                // Since the task was notified but did not lock the Mutex,''',
     'new': '''                wait_node.state = PollState::Done;
                self.is_locked = false;
                // Since the task was notified but did not lock the Mutex,''',
     'expect': {'C02': ['C02.R3']}},
    {'name': 'mutex-guard-clone', 'file': 'src/sync/mutex.rs',
     'old': '''impl<MutexType: RawMutex, T> Deref for GenericMutexGuard<'_, MutexType, T> {''',
     'new': '''impl<MutexType: RawMutex, T> Clone for GenericMutexGuard<'_, MutexType, T> {
    fn clone(&self) -> Self { GenericMutexGuard { mutex: self.mutex } }
}

impl<MutexType: RawMutex, T> Deref for GenericMutexGuard<'_, MutexType, T> {''',
     'expect': {'C02': ['C02.R4', 'C02.R1']}},
    {'name': 'mutex-get-mut-unchecked', 'file': 'src/sync/mutex.rs',
     'old': '''    /// Returns whether the mutex is locked.
    pub fn is_locked(&self) -> bool {''',
     'new': '''    /// Peeks at the value.
    pub fn peek(&self) -> &T {
        unsafe { &*self.value.get() }
    }

    /// Returns whether the mutex is locked.
    pub fn is_locked(&self) -> bool {''',
     'expect': {'C02': ['C02.R4']}},
    {'name': 'mutex-try-lock-ignores-result', 'file': 'src/sync/mutex.rs',
     'old': '''        if self.state.lock().try_lock_sync() {
            Some(GenericMutexGuard { mutex: self })''',
     'new': '''        if self.state.lock().try_lock_sync() || !self.state.lock().is_locked() {
            Some(GenericMutexGuard { mutex: self })''',
     'expect': {'C02': ['C02.R1']}},
]

BENIGN = []
