#!/usr/bin/env python3
"""Both-ways test of the checker itself (still static: the subject of each run
is source text; nothing of the crate is executed).

  selftest/run.py [--only name,...] [--props C01,C02] [--benign] [--jobs N] [-v]

For every mutant (one broken rule instance, applied by exact string
replacement to a scratch copy of the current /repo tree under .work/) the
listed checks must report a violation whose key starts with one of the
expected rule ids; for every benign refactor all listed checks must stay
silent."""
import os
import shutil
import subprocess
import sys
from concurrent.futures import ThreadPoolExecutor
import threading

VERIF = os.path.dirname(os.path.dirname(os.path.abspath(__file__)))
sys.path.insert(0, os.path.dirname(os.path.abspath(__file__)))
from mutants import MUTANTS, BENIGN  # noqa

_tls = threading.local()
_ids = iter(range(10000))
_lock = threading.Lock()


def repo_dir():
    return os.environ.get('FI_REPO', '/repo')


def worker_dir():
    if not hasattr(_tls, 'dir'):
        with _lock:
            i = next(_ids)
        # unique per process and thread: several checks may run their selftests at the same time
        _tls.dir = os.path.join(VERIF, '.work', 'scratch', 'w%d-%d' % (os.getpid(), i))
        _all_dirs.append(_tls.dir)
    return _tls.dir


_all_dirs = []


def _cleanup():
    for d in _all_dirs:
        shutil.rmtree(d, ignore_errors=True)


import atexit
atexit.register(_cleanup)


def _wipe(d):
    """keep the build cache of this worker (.fi-work: dependencies stay compiled), remove everything else"""
    if not os.path.isdir(d):
        return
    for f in os.listdir(d):
        if f == '.fi-work':
            continue
        p_ = os.path.join(d, f)
        if os.path.isdir(p_):
            shutil.rmtree(p_, ignore_errors=True)
        else:
            os.remove(p_)


def scratch():
    d = worker_dir()
    _wipe(d)
    os.makedirs(d, exist_ok=True)
    repo = repo_dir()
    for f in sorted(os.listdir(repo)):
        if f in ('target', '.git'):
            continue
        s = os.path.join(repo, f)
        if os.path.isdir(s):
            shutil.copytree(s, os.path.join(d, f))
        else:
            shutil.copy(s, os.path.join(d, f))
    return d


class NotApplicable(Exception):
    pass


def apply(d, m):
    if 'patch' in m:
        r = subprocess.run(['patch', '-p1', '-s', '-i', os.path.join(VERIF, m['patch'])], cwd=d,
                           stdout=subprocess.PIPE, stderr=subprocess.STDOUT, text=True)
        if r.returncode != 0:
            raise NotApplicable('patch %s does not apply: %s' % (m['patch'], r.stdout[-300:]))
        return
    edits = m['edits'] if 'edits' in m else [m]
    for e in edits:
        p = os.path.join(d, e['file'])
        s = open(p).read()
        cnt = s.count(e['old'])
        want = e.get('count', 1)
        if cnt != want:
            raise NotApplicable('mutant %s: pattern occurs %d times (want %d) in %s' % (m['name'], cnt, want, e['file']))
        s = s.replace(e['old'], e['new'])
        open(p, 'w').write(s)


def run_check(prop, d, tier='quick'):
    env = dict(os.environ, FI_REPO=d, FI_EVID_DIR=os.path.join(d, 'evidence'), FI_SELFTEST='1')
    r = subprocess.run([os.path.join(VERIF, 'check'), prop, '--tier', tier], env=env, cwd=VERIF,
                       stdout=subprocess.PIPE, stderr=subprocess.STDOUT, text=True)
    keys = []
    for line in r.stdout.splitlines():
        line = line.strip()
        if line.startswith('rule=') and ' key=' in line:
            keys.append(line.split(' key=', 1)[1])
    return r.returncode, keys, r.stdout


def one(job):
    m, benign, props = job
    out = []
    d = scratch()
    try:
        try:
            apply(d, m)
        except NotApplicable as e:
            return [{'name': m['name'], 'prop': None, 'ok': None, 'note': str(e), 'benign': benign}]
        for prop in props:
            rc, keys, text = run_check(prop, d)
            if benign:
                ok = rc == 0
            else:
                want = m['expect'][prop]
                hit = [k for k in keys if any(k.startswith(w) for w in want)]
                ok = rc == 1 and bool(hit)
            out.append({'name': m['name'], 'prop': prop, 'ok': ok, 'rc': rc, 'keys': keys, 'benign': benign,
                        'want': None if benign else m['expect'][prop], 'text': text[-2500:]})
    finally:
        _wipe(d)    # the worker's build cache stays until the process ends (_cleanup)
    return out


def run_all(props_filter=None, only=None, benign=None, jobs=8):
    """benign: None = both, True = only benign, False = only mutants"""
    todo = []
    if benign in (None, False):
        for m in MUTANTS:
            if only and m['name'] not in only:
                continue
            props = sorted(m.get('expect', {}))
            if props_filter:
                props = [p for p in props if p in props_filter]
            if props:
                todo.append((m, False, props))
    if benign in (None, True):
        for m in BENIGN:
            if only and m['name'] not in only:
                continue
            props = list(m.get('props', []))
            if props_filter:
                props = [p for p in props if p in props_filter]
            if props:
                todo.append((m, True, props))
    results = []
    with ThreadPoolExecutor(max_workers=jobs) as ex:
        for r in ex.map(one, todo):
            results += r
    return results


def main():
    only = props_filter = None
    benign = False
    if '--benign' in sys.argv:
        benign = True
    if '--all' in sys.argv:
        benign = None
    if '--only' in sys.argv:
        only = sys.argv[sys.argv.index('--only') + 1].split(',')
        benign = None
    if '--props' in sys.argv:
        props_filter = sys.argv[sys.argv.index('--props') + 1].split(',')
    jobs = int(sys.argv[sys.argv.index('--jobs') + 1]) if '--jobs' in sys.argv else 8
    results = run_all(props_filter, only, benign, jobs)
    bad = 0
    for r in results:
        if r['ok'] is None:
            print('SKIPPED %s: %s' % (r['name'], r['note']))
            continue
        if r['benign']:
            print('%-7s benign %-45s %s rc=%d %s' % ('ok' if r['ok'] else 'FAIL', r['name'], r['prop'], r['rc'], r['keys'][:2]))
        else:
            print('%-7s mutant %-45s %s rc=%d expect=%s got=%s' % (
                'killed' if r['ok'] else 'MISSED', r['name'], r['prop'], r['rc'], r['want'],
                [k.split('|')[0] for k in r['keys']][:4]))
        if not r['ok']:
            bad += 1
            if '-v' in sys.argv:
                print(r['text'])
    print('%d runs, %d bad' % (len([r for r in results if r['ok'] is not None]), bad))
    return 1 if bad else 0


if __name__ == '__main__':
    sys.exit(main())
