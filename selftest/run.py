#!/usr/bin/env python3
"""Both-ways test of the checker itself (still static: the subject of each run
is source text; nothing of the crate is executed).

  selftest/run.py [--only name,...] [--props C01,C02] [--benign] [--jobs N]

For every mutant (one broken rule instance, applied by exact string
replacement to a scratch copy of /repo under .work/) the listed checks must
report a violation whose key starts with one of the expected rule ids; for every
benign refactor all checks must stay silent."""
import json
import os
import shutil
import subprocess
import sys
import hashlib

VERIF = os.path.dirname(os.path.dirname(os.path.abspath(__file__)))
REPO = os.environ.get('FI_REPO', '/repo')
sys.path.insert(0, os.path.dirname(os.path.abspath(__file__)))
from mutants import MUTANTS, BENIGN  # noqa


def scratch(name):
    d = os.path.join(VERIF, '.work', 'scratch', name)
    if os.path.isdir(d):
        shutil.rmtree(d)
    os.makedirs(d)
    for f in sorted(os.listdir(REPO)):
        if f in ('target', '.git'):
            continue
        s = os.path.join(REPO, f)
        if os.path.isdir(s):
            shutil.copytree(s, os.path.join(d, f))
        else:
            shutil.copy(s, os.path.join(d, f))
    return d


def apply(d, m):
    edits = m['edits'] if 'edits' in m else [m]
    for e in edits:
        p = os.path.join(d, e['file'])
        s = open(p).read()
        cnt = s.count(e['old'])
        want = e.get('count', 1)
        if cnt != want:
            raise RuntimeError('mutant %s: pattern occurs %d times (want %d) in %s' % (m['name'], cnt, want, e['file']))
        s = s.replace(e['old'], e['new'])
        open(p, 'w').write(s)


def run_check(prop, d, tier='quick'):
    env = dict(os.environ, FI_REPO=d, FI_EVID_DIR=os.path.join(d, 'evidence'))
    r = subprocess.run([os.path.join(VERIF, 'check'), prop, '--tier', tier], env=env, cwd=VERIF,
                       stdout=subprocess.PIPE, stderr=subprocess.STDOUT, text=True)
    keys = []
    for line in r.stdout.splitlines():
        line = line.strip()
        if line.startswith('rule=') and ' key=' in line:
            keys.append(line.split(' key=', 1)[1])
    return r.returncode, keys, r.stdout


def main():
    only = None
    props_filter = None
    do_benign = '--benign' in sys.argv
    if '--only' in sys.argv:
        only = sys.argv[sys.argv.index('--only') + 1].split(',')
    if '--props' in sys.argv:
        props_filter = sys.argv[sys.argv.index('--props') + 1].split(',')
    results = []
    bad = 0
    todo = [(m, False) for m in MUTANTS]
    if do_benign or only:
        todo += [(m, True) for m in BENIGN]
    for m, benign in todo:
        if only and m['name'] not in only:
            continue
        if not only and benign != do_benign:
            continue
        d = scratch('m')
        try:
            apply(d, m)
        except RuntimeError as e:
            print('MUTANT-ERROR', e)
            bad += 1
            continue
        expect = m.get('expect', {})
        props = sorted(expect) if not benign else m.get('props', [])
        if props_filter:
            props = [p for p in props if p in props_filter]
        for prop in props:
            rc, keys, out = run_check(prop, d)
            if benign:
                ok = rc == 0
                print('%-7s benign %-40s %s rc=%d %s' % ('ok' if ok else 'FAIL', m['name'], prop, rc, keys[:2]))
            else:
                want = expect[prop]
                hit = [k for k in keys if any(k.startswith(w) for w in want)]
                ok = rc == 1 and bool(hit)
                print('%-7s mutant %-40s %s rc=%d expect=%s got=%s' % (
                    'killed' if ok else 'MISSED', m['name'], prop, rc, want, [k.split('|')[0] for k in keys][:4]))
                if not ok and '-v' in sys.argv:
                    print(out[-2500:])
            if not ok:
                bad += 1
            results.append({'name': m['name'], 'prop': prop, 'ok': ok, 'keys': keys})
        shutil.rmtree(d, ignore_errors=True)
    print('%d runs, %d bad' % (len(results), bad))
    return 1 if bad else 0


if __name__ == '__main__':
    sys.exit(main())
