#!/bin/bash
# tools/full_regress.sh: everything that must hold before a commit of rule / engine changes; prints one verdict line.
cd /verif
bad=0
for i in $(seq -w 1 20); do ./check C$i --tier quick > .work/fr-q-C$i.log 2>&1 || { echo "quick C$i FAILED"; bad=1; }; done
seq -w 1 20 | xargs -P 6 -I{} sh -c 'FI_SELFTEST=1 FI_EVID_DIR=/verif/.work/fr-ev ./check C{} --tier thorough > .work/fr-t-C{}.log 2>&1 || echo "thorough(3 configs) C{} FAILED"' | tee .work/fr-t.log
[ -s .work/fr-t.log ] && bad=1
rm -rf .work/fr-ev
python3 selftest/run.py --all --jobs 14 > .work/fr-selftest.log 2>&1; tail -1 .work/fr-selftest.log | grep -q " 0 bad" || { echo "selftest FAILED: $(tail -1 .work/fr-selftest.log)"; bad=1; }
python3 tools/seed_regress.py --jobs 14 > .work/fr-seeds.log 2>&1; tail -1 .work/fr-seeds.log
n=$(grep -c "^MISSED\|^NOT-DECIDED" .work/fr-seeds.log); [ "$n" -le 4 ] || { echo "seed regression FAILED ($n not caught)"; bad=1; }
python3 tools/benign_sweep.py --jobs 14 > .work/fr-benign.log 2>&1; tail -1 .work/fr-benign.log | grep -q " 0 alarms" || { echo "benign sweep FAILED"; bad=1; }
[ $bad = 0 ] && echo "FULL-REGRESS: PASS" || echo "FULL-REGRESS: FAIL"
