#!/bin/bash
# tools/merge_patches.sh <first.diff> <second.diff> <out.diff>: apply two patches one after the other to a scratch copy
# of /repo and write the combined diff against /repo (used for seeds made on top of a refactored tree).
D=/verif/.work/scratch/merge-$$
rm -rf $D $D.orig; mkdir -p $D $D.orig
(cd /repo && tar cf - --exclude=target --exclude=.git .) | tar xf - -C $D
(cd /repo && tar cf - --exclude=target --exclude=.git .) | tar xf - -C $D.orig
(cd $D && patch -s -p1 -i "$1" && patch -s -p1 -i "$2") || { rm -rf $D $D.orig; exit 2; }
(cd /verif/.work/scratch && diff -ruN merge-$$.orig merge-$$ | sed "s#^--- merge-$$.orig/#--- a/#; s#^+++ merge-$$/#+++ b/#; /^diff -ruN/d" > "$3")
rm -rf $D $D.orig
