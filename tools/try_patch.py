#!/usr/bin/env python3
"""tools/try_patch.py <patch.diff> [props...]: apply a patch to a scratch copy of /repo (never to
/repo itself) and run the quick checks against it; prints which rules fire."""
import os
import shutil
import subprocess
import sys

VERIF = os.path.dirname(os.path.dirname(os.path.abspath(__file__)))
ALL = ['C%02d' % i for i in range(1, 21)]


def main():
    patch = os.path.abspath(sys.argv[1])
    props = sys.argv[2:] or ALL
    d = os.path.join(VERIF, '.work', 'scratch', 'seedtry')
    if os.path.isdir(d):
        shutil.rmtree(d)
    os.makedirs(d)
    for f in sorted(os.listdir('/repo')):
        if f in ('target', '.git'):
            continue
        s = os.path.join('/repo', f)
        if os.path.isdir(s):
            shutil.copytree(s, os.path.join(d, f))
        else:
            shutil.copy(s, os.path.join(d, f))
    r = subprocess.run(['patch', '-p1', '-i', patch], cwd=d, stdout=subprocess.PIPE, stderr=subprocess.STDOUT, text=True)
    if r.returncode != 0:
        print('patch failed:\n' + r.stdout)
        return 2
    fired = {}
    for p in props:
        env = dict(os.environ, FI_REPO=d, FI_EVID_DIR=os.path.join(d, 'evidence'), FI_SELFTEST='1')
        r = subprocess.run([os.path.join(VERIF, 'check'), p, '--tier', 'quick'], env=env, cwd=VERIF,
                           stdout=subprocess.PIPE, stderr=subprocess.STDOUT, text=True)
        keys = [l.split(' key=', 1)[1] for l in r.stdout.splitlines() if l.strip().startswith('rule=') and ' key=' in l]
        if r.returncode != 0:
            fired[p] = (r.returncode, keys)
            print('%s rc=%d' % (p, r.returncode))
            for k in keys[:6]:
                print("    " + k[:220])
            if r.returncode == 2:
                print('    ' + r.stdout.strip().splitlines()[-1][:300])
    if not fired:
        print('no check fires')
    shutil.rmtree(d, ignore_errors=True)
    return 0


if __name__ == '__main__':
    sys.exit(main())
