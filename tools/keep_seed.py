#!/usr/bin/env python3
"""tools/keep_seed.py <name> <property> <worktree> <seed-out-dir> "<needs>" : confirm a seeded change myself
(confirm_seed.sh), store it as /verif/seeded/<name>/, then apply it to /repo (git apply), run every quick
check against /repo itself, undo it (git checkout -- .) and record which checks fire."""
import json
import os
import shutil
import subprocess
import sys

VERIF = os.path.dirname(os.path.dirname(os.path.abspath(__file__)))


def sh(cmd, **kw):
    return subprocess.run(cmd, shell=True, stdout=subprocess.PIPE, stderr=subprocess.STDOUT, text=True, **kw)


def main():
    name, prop, wt, sdir, needs = sys.argv[1:6]
    patch = os.path.join(sdir, 'patch.diff')
    demo = os.path.join(sdir, 'seed_demo.rs')
    conf = sh('%s/tools/confirm_seed.sh %s %s %s' % (VERIF, wt, patch, demo)).stdout
    print(conf)
    lines = conf.splitlines()
    builds_ok = sum(1 for l in lines if l.startswith('build[') and l.endswith('ok')) == 3
    i_with = lines.index('--- demo WITH the change')
    i_without = lines.index('--- demo WITHOUT the change')
    suite = [l for l in lines[:i_with] if 'test result' in l]
    suite_ok = bool(suite) and all(' 0 failed' in l for l in suite)
    passed = sum(int(l.split('ok. ')[1].split(' passed')[0]) * int(l.split()[0]) for l in suite if 'ok. ' in l)
    demo_with_fails = any('FAILED' in l for l in lines[i_with:i_without])
    demo_without_ok = any('test result: ok' in l for l in lines[i_without:]) and not any('FAILED' in l for l in lines[i_without:])
    confirmed = builds_ok and suite_ok and demo_with_fails and demo_without_ok
    print('confirmed =', confirmed, dict(builds_ok=builds_ok, suite_ok=suite_ok, passed=passed,
                                         demo_with_fails=demo_with_fails, demo_without_ok=demo_without_ok))
    if not confirmed:
        return 1
    # a seed made on top of a refactored tree: what is applied to /repo (and stored) is refactoring + seed in one patch
    if os.environ.get('KEEP_SEED_REPO_PATCH'):
        patch = os.environ['KEEP_SEED_REPO_PATCH']
    # official run against /repo itself
    assert sh('git -C /repo status --porcelain').stdout.strip() == '', '/repo not clean'
    r = sh('git -C /repo apply %s' % patch)
    assert r.returncode == 0, r.stdout
    fired = {}
    try:
        for i in range(1, 21):
            p = 'C%02d' % i
            env = dict(os.environ, FI_EVID_DIR='/verif/.work/seed-evidence', FI_SELFTEST='1')
            rr = subprocess.run([os.path.join(VERIF, 'check'), p], cwd=VERIF, env=env, stdout=subprocess.PIPE,
                                stderr=subprocess.STDOUT, text=True)
            keys = [l.split(' key=', 1)[1] for l in rr.stdout.splitlines() if l.strip().startswith('rule=') and ' key=' in l]
            if rr.returncode != 0:
                fired[p] = {'rc': rr.returncode, 'keys': keys}
    finally:
        sh('git -C /repo checkout -- .')
        shutil.rmtree('/verif/.work/seed-evidence', ignore_errors=True)
    assert sh('git -C /repo status --porcelain').stdout.strip() == ''
    out = os.path.join(VERIF, 'seeded', name)
    os.makedirs(out, exist_ok=True)
    shutil.copy(patch, os.path.join(out, 'patch.diff'))
    shutil.copy(demo, os.path.join(out, 'seed_demo.rs'))
    if os.path.exists(os.path.join(sdir, 'notes.md')):
        shutil.copy(os.path.join(sdir, 'notes.md'), os.path.join(out, 'author_notes.md'))
    meta = {
        'name': name, 'breaks_property': prop,
        'origin': 'fresh sub-agent given only the property text and a scratch git worktree of /repo (HEAD with the five fix: commits); nothing from /verif'
                  + (' - the scratch copy had the behaviour-preserving refactoring %s applied first; patch.diff is that '
                     'refactoring plus the seeded change in one patch against /repo' % os.environ['KEEP_SEED_BASE']
                     if os.environ.get('KEEP_SEED_BASE') else ''),
        'needs_to_manifest': needs,
        'confirmed_by_me': {
            'builds_in_three_feature_configs': builds_ok,
            'unedited_suite_with_change': '%d tests passed, 0 failed (cargo test --offline --no-fail-fast, incl. doctests)' % passed,
            'demonstration_with_change': 'fails', 'demonstration_without_change': 'passes',
            'commands': ['tools/confirm_seed.sh <worktree> patch.diff seed_demo.rs',
                         'git -C /repo apply patch.diff; ./check Cxx (all 20, quick); git -C /repo checkout -- .'],
        },
        'checks_that_fire_on_/repo_with_the_patch_applied': fired,
        'caught': prop in fired and fired[prop]['rc'] == 1,
    }
    json.dump(meta, open(os.path.join(out, 'meta.json'), 'w'), indent=1)
    print(json.dumps(meta['checks_that_fire_on_/repo_with_the_patch_applied'], indent=1)[:1500])
    return 0


if __name__ == '__main__':
    sys.exit(main())
