#!/usr/bin/env python3
"""tools/benign_sweep.py [--files f1,f2] [--jobs N] [--limit N] [--out FILE]

The converse of mutation_sweep.py (development aid, not a registered check): line-level BEHAVIOUR-PRESERVING rewrites of
the crate (double negation, mirrored / negated comparison spellings, is_none <-> !is_some, compound assignment
spelled out, a value passed through a temporary).  Every rewrite that still type-checks must leave all 20 quick checks
silent; a report on one of them is a false alarm of the checker (a rule that matches a spelling, not a meaning)."""
import json
import os
import shutil
import re
import sys
from concurrent.futures import ThreadPoolExecutor

sys.path.insert(0, os.path.dirname(os.path.abspath(__file__)))
import mutation_sweep as ms  # noqa

SIMPLE = r'[A-Za-z_][A-Za-z0-9_\.]*(?:\(\))?'


def gen(files):
    muts = []
    for f in files:
        lines, code = ms.code_lines(os.path.join(ms.REPO, f))
        for i, l in code:
            s = l.strip()
            if s.startswith(('fn ', 'pub fn', 'unsafe fn', 'impl', 'pub struct', 'struct', 'where', 'debug_assert', 'assert')):
                continue

            def add(kind, new):
                if new != l:
                    muts.append({'file': f, 'line': i, 'kind': kind, 'old': l, 'new': new})
            m = re.match(r'^(\s*)(if|while) (?!let)(.*) \{\s*$', l)
            if m and '=>' not in l:
                add('double-negation', '%s%s !(!(%s)) {' % (m.group(1), m.group(2), m.group(3)))
            m = re.search(r'(%s) >= (%s)' % (SIMPLE, SIMPLE), l)
            if m and '=>' not in l:
                add('ge->not-lt', l.replace(m.group(0), '!(%s < %s)' % (m.group(1), m.group(2)), 1))
                add('ge->mirrored-le', l.replace(m.group(0), '%s <= %s' % (m.group(2), m.group(1)), 1))
            m = re.search(r'(%s) < (%s)(?![<=A-Za-z])' % (SIMPLE, SIMPLE), l)
            if m and '<' not in l.replace(m.group(0), '', 1) and '>' not in l.replace('->', ''):
                add('lt->not-ge', l.replace(m.group(0), '!(%s >= %s)' % (m.group(1), m.group(2)), 1))
                add('lt->mirrored-gt', l.replace(m.group(0), '(%s > %s)' % (m.group(2), m.group(1)), 1))
            m = re.search(r'(%s) == (%s)' % (SIMPLE, SIMPLE), l)
            if m:
                add('eq-mirrored', l.replace(m.group(0), '%s == %s' % (m.group(2), m.group(1)), 1))
                add('eq->not-ne', l.replace(m.group(0), '!(%s != %s)' % (m.group(1), m.group(2)), 1))
            m = re.search(r'(%s) != (%s)' % (SIMPLE, SIMPLE), l)
            if m:
                add('ne->not-eq', l.replace(m.group(0), '!(%s == %s)' % (m.group(1), m.group(2)), 1))
            m = re.search(r'(?<![!A-Za-z0-9_])([A-Za-z_][A-Za-z0-9_\.]*)\.is_none\(\)', l)
            if m:
                add('is_none->not-is_some', l.replace(m.group(0), '!%s.is_some()' % m.group(1), 1))
            m = re.search(r'(?<![!A-Za-z0-9_])([A-Za-z_][A-Za-z0-9_\.]*)\.is_some\(\)', l)
            if m:
                add('is_some->not-is_none', l.replace(m.group(0), '!%s.is_none()' % m.group(1), 1))
            m = re.match(r'^(\s*)([A-Za-z_][A-Za-z0-9_\.]*) (\+|-)= (.*);\s*$', l)
            if m:
                add('compound-assign-spelled-out', '%s%s = %s %s (%s);' % (m.group(1), m.group(2), m.group(2), m.group(3), m.group(4)))
            m = re.match(r'^(\s*)if (!?)([A-Za-z_][A-Za-z0-9_\.]*(?:\(\))?) \{\s*$', l)
            if m:
                add('bool-compared-with-literal', '%sif %s == %s {' % (m.group(1), m.group(3), 'false' if m.group(2) else 'true'))
            m = re.search(r'([A-Za-z_][A-Za-z0-9_\.]*)\.take\(\)', l)
            if m and 'if let' not in l and 'match' not in l:
                add('take->ufcs', l.replace(m.group(0), 'Option::take(&mut %s)' % m.group(1), 1))
                add('take->mem-replace', l.replace(m.group(0), 'core::mem::replace(&mut %s, None)' % m.group(1), 1))
            m = re.match(r'^(\s*)if let Some\((.*?)\) = (.*\.take\(\)) \{\s*$', l)
            if m:
                add('scrutinee-through-temporary', '%slet tmp_benign_scrutinee = %s; if let Some(%s) = tmp_benign_scrutinee {' % (m.group(1), m.group(3), m.group(2)))
            m = re.match(r'^(\s*)([A-Za-z_][A-Za-z0-9_]*)\.wake\(\);\s*$', l)
            if m:
                add('wake->ufcs', '%score::task::Waker::wake(%s);' % (m.group(1), m.group(2)))
            m = re.match(r'^(\s*)(self\.[a-z_]*waiters)\.(add_front|remove_last|remove_first)\((.*)\);\s*$', l)
            if m:
                add('queue-op-through-reborrow', '%s{ let q_benign = &mut %s; q_benign.%s(%s); }' % (m.group(1), m.group(2), m.group(3), m.group(4)))
            m = re.match(r'^(\s*)((?:self|wait_node|mut_self|node|waiter|last_waiter)\.[A-Za-z0-9_\.]*) = ([^;]*);\s*$', l)
            if m and '{' not in l and 'unsafe' not in l:
                add('through-temporary', '%slet tmp_benign_value = %s; %s = tmp_benign_value;' % (m.group(1), m.group(3), m.group(2)))
        # if c { A } else { B }  ->  if !(c) { B } else { A }   (brace matched, no else-if chains)
        for i, l in code:
            m = re.match(r'^(\s*)if (?!let)(.*) \{\s*$', l)
            if not m or '=>' in l:
                continue
            ind = m.group(1)
            j = i + 1
            while j < len(lines) and not (lines[j].startswith(ind + '}') and not lines[j].startswith(ind + ' ')):
                j += 1
            if j >= len(lines) or lines[j].rstrip() != ind + '} else {':
                continue
            k = j + 1
            while k < len(lines) and not (lines[k].startswith(ind + '}') and not lines[k].startswith(ind + ' ')):
                k += 1
            if k >= len(lines) or lines[k].rstrip() not in (ind + '}', ind + '};'):
                continue
            if i > 0 and lines[i - 1].rstrip().endswith('else'):
                continue
            new = [ind + 'if !(%s) {' % m.group(2)] + lines[j + 1:k] + [ind + '} else {'] + lines[i + 1:j] + [lines[k]]
            muts.append({'file': f, 'line': i, 'kind': 'if-else-swapped', 'old': l, 'new': '\n'.join(new),
                         'span': k - i + 1})
    return muts


def main():
    files = ms.FILES
    if '--files' in sys.argv:
        files = sys.argv[sys.argv.index('--files') + 1].split(',')
    jobs = int(sys.argv[sys.argv.index('--jobs') + 1]) if '--jobs' in sys.argv else 8
    out = sys.argv[sys.argv.index('--out') + 1] if '--out' in sys.argv else os.path.join(ms.VERIF, '.work', 'benign-sweep.jsonl')
    muts = gen(files)
    if '--limit' in sys.argv:
        import random
        random.seed(2)
        random.shuffle(muts)
        muts = muts[:int(sys.argv[sys.argv.index('--limit') + 1])]
    print('%d rewrites' % len(muts), flush=True)
    n = alarms = 0
    with open(out, 'w') as fh, ThreadPoolExecutor(max_workers=jobs) as ex:
        for res in ex.map(ms.run_one, [(m, False) for m in muts]):
            fh.write(json.dumps(res) + '\n')
            fh.flush()
            n += 1
            if res['compiled'] and res['fired']:
                alarms += 1
                print('ALARM %s:%d %s | %s -> %s | %s' % (res['file'], res['line'], res['kind'], res['old'][:60],
                                                          res['new'][:70], {k: (v['rc'], v['rules'][:2]) for k, v in res['fired'].items()}), flush=True)
    print('done: %d rewrites, %d alarms' % (n, alarms), flush=True)
    import glob
    for d in glob.glob(os.path.join(ms.VERIF, '.work', 'scratch', 'sweep*')) + glob.glob(os.path.join(ms.VERIF, '.work', 'scratch', 'tgt-sweep*')):
        shutil.rmtree(d, ignore_errors=True)     # scratch copies and their build output


if __name__ == '__main__':
    main()
