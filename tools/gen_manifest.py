#!/usr/bin/env python3
"""Regenerates /verif/MANIFEST.json from the table below (kept valid at all times)."""
import json
import os

VERIF = os.path.dirname(os.path.dirname(os.path.abspath(__file__)))

COMMON_NOTE = ('Trusted base: nightly rustc 1.97 (MIR construction, drop elaboration, trait solver); the fi-facts '
               'driver is a serializer; lock_api::Mutex gives mutual exclusion, so each state function is one atomic '
               'transition; the intrusive list/heap operations enter through summaries (C20 checks clauses of them); '
               'Waker, payload Clone/Drop, Clock and user RingBufs are opaque user code; rules/specs.py holds the '
               'hand-confirmed typestate table. A transition is a state-layer method or any function that mutates lock-'
               'protected state directly (judged the same way); an operation that mutates under two separate lock '
               'acquisitions is reported; field vocabulary is verified first (a rename fails closed, exit 2). What is '
               'NOT vocabulary, and is seen through by the engine: private helper functions / traits / modules / field '
               'groups / argument bundles, private outcome enums (converted to the public Poll shape the way the crate '
               'converts them), generic helper instances, associated constants, parameter and local names (83 independent '
               'behaviour-preserving refactorings are part of the selftest and must stay silent). Control-flow paths '
               'are enumerated with loops unrolled twice (quick) / three times (thorough); paths beyond are not. ')

CHECKS = {
    'C01': dict(
        technique='path-sensitive typestate analysis over MIR (inductive invariant), call-graph and drop-path rules',
        text='Static inductive-invariant check: for every control-flow path of every lock-protected state function '
             '(helpers inlined), and for every node it touches, linked(final poll state) equals queue membership '
             'after the path\'s queue operations, given the same at entry; plus drop-reaches-unlink, Ready-leaves-unlinked, '
             'link-only-when-pinned, no-lock-bypass, nodes constructed unlinked, typestate also at loop heads, the fair-mutex assertion '
             'discharged by its hand-over invariant, state-layer layering (nobody outside the state functions mutates '
             'lock-protected state), address-stability, handle-restored-on-Pending and a classification of all 70 '
             'explicit panic sites (unclassified site = violation). Holds for all histories and schedules '
             'because each obligation is about all paths of an atomic transition, not about sampled runs.',
        note='List/heap link surgery is assumed via queue-op summaries; panics raised by user code inside the lock '
             'are outside the documented contract.', ref='5-C01'),
    'C02': dict(
        technique='path-sensitive dataflow over MIR (guarded write, who-may-write, who-may-call), solver facts',
        text='Inductive argument "is_locked <=> exactly one guard": every guard construction and every write of the '
             'bit is checked on every MIR path (set only from proven-false, cleared only by unlock called only from '
             'the guard destructor; guard not Clone/Copy; cell reached only through the guard).',
        note='A leaked guard counts as alive forever.', ref='5-C02'),
    'C03': dict(
        technique='path-sensitive must-follow / result-use analysis over MIR',
        text='The two transitions that can lose a wake-up (release of the lock; a notified waiter leaving that state '
             'without locking) are followed on every MIR path by the hand-over to the oldest waiter; every waker '
             'taken out of a node reaches Waker::wake in every public wrapper; every Pending return stored the '
             'waker of this poll; a future parks only on a path that knows the mutex is locked (or, fair, a waiter '
             'is queued); the constructor starts unlocked with an empty queue.', note='Eventual completion (needs executor fairness) is not decided.', ref='5-C03'),
    'C04': dict(
        technique='path-sensitive guard analysis over MIR (FairGate), queue-end rule, typestate',
        text='Structure of fair hand-over: the lock bit is set only on paths entitled to it in fair mode; waiters '
             'enter at the front and are taken from the tail; the notified head stays linked; a queued waiter is never re-inserted '
             '(only a New node is enqueued on a path that can be fair; the one excluded path is excluded by the '
             'checked hand-over invariant).',
        note='Order preservation of LinkedList::remove is assumed (C20).', ref='5-C04'),
    'C05': dict(
        technique='path-sensitive dataflow over MIR (guarded subtraction, single growth site, value-origin equality)',
        text='Ledger invariant for permits: every subtraction is dominated by the matching >= test on the same '
             'values, permits grow in one function reachable only from release and releaser destructors, the '
             'releaser carries exactly the subtracted amount, disarm zeroes; no transition adds permits more than once.',
        note='Overflow of permits += n (the source\'s own TODO) is not decided.', ref='5-C05'),
    'C06': dict(
        technique='path-sensitive must-follow analysis over MIR (wake-up owed after head/permit/notification change)',
        text='Necessary conditions of "head fits => head notified", one per stranding scenario, on every MIR path of '
             'the semaphore state functions (incl. a notified acquirer takes fitting permits; an acquirer parks only '
             'when its request does not fit or, fair, somebody is queued); reported D1a and D1b on the pinned tree '
             '(both fixed).',
        note='The full induction over joint states and eventual completion are not decided.', ref='5-C06'),
    'C07': dict(
        technique='path-sensitive guard analysis over MIR (FairGate on permit subtraction), queue-end rule, typestate',
        text='Structure of fair service order: permits are subtracted only on paths entitled to it in fair mode '
             '(unfair, empty queue, zero request, notified head); zero-permit fast path exists; tail-only '
             'notification; fair walk touches only the head and leaves it linked; a queued acquirer is never re-inserted on a path '
             'that can be fair.',
        note='Order preservation of LinkedList::remove is assumed (C20).', ref='5-C07'),
    'C16': dict(
        technique='trait-solver queries under each unsafe impl\'s own where-clauses (node-erased auto-trait '
                  'derivation, rustc_private) + rustc accept/reject probe matrix with compiling twins',
        text='For-all-types bound adequacy: every leaf obligation on a payload/buffer parameter derived from the '
             'fields of each of the 30 `unsafe impl Send/Sync` (and, for type-erased futures, from every type a '
             'constructor puts behind the dyn) must be entailed by the impl\'s where-clauses according to rustc\'s '
             'trait solver; plus !Unpin/NoopLock marker facts and a generated probe matrix (must-compile / '
             'must-not-compile with E0277) over every public type. Reported D2 and D4 (fixed); D5 is a known '
             'finding (4 keys).',
        note='The erasure table (rules/autotrait.py) states what the unsafe impls legitimately vouch for; lock-'
             'parameter leaves follow the crate\'s documented convention, stricter derivations are observation O2.',
        ref='5-C16'),
    'C11': dict(
        technique='path-sensitive effect/guard analysis over MIR, who-may-write scan, handle-lifecycle rule on '
                  'Clone/Drop pairs (solver Clone facts)',
        text='Monotone flag, effect-free AlreadyClosed path, drain-all-queues-with-waking-closure on the NewlyClosed '
             'path, acceptance of new values only under flag == false with the caller\'s own value handed back, '
             'flag-independent delivery paths, and counted close for every Clone handle (fetch_sub(1) == 1 on the '
             'counter its Clone increments; at most one side may leave the close to the other; every construction site of a '
             'counted handle increments). Clone panics only beyond the overflow limit; the variant predicates of CloseStatus / TrySendError / '
             'TryReceiveError and into_inner say what the variant is. Reported D3 (fixed).',
        note='Relative to atomics doing what fetch_add/fetch_sub say.', ref='5-C11'),
    'C08': dict(
        technique='drop-site analysis on drop-elaborated MIR paths (dyn calls fanned out), result-use and '
                  'who-may-call rules, zero-count scan with positive control',
        text='In safe Rust a non-Clone generic value can only be moved or dropped: every non-cleanup Drop of a type '
             'that owns a payload by value, on every MIR path of every function of the channel modules, drops a '
             'provably empty slot or is one of four listed sinks; taken values flow only into buffer.push or the '
             'return value; clear() only from the last receiver; no raw read/write/forget on payloads; cancel '
             'unlinks before taking the value back; every counted handle is counted where it is made (handles built <= '
             'counter increments on the path).',
        note='That a parked value is eventually received is C10; ring-buffer accounting is C19.', ref='5-C08'),
    'C09': dict(
        technique='path-sensitive guard / must-follow analysis over MIR (capacity guard, refill, queue ends)',
        text='Structure of the bounded FIFO: push only under can_push or after pop; a freed slot is refilled from '
             'the oldest parked sender inside the same critical section; add_front/tail-only queue access; success '
             'only after transfer; direct hand-over only with an empty buffer; a parked sender/receiver is never '
             're-inserted (its node is enqueued only when it entered unqueued); buffered values are discarded by '
             'the last receiver only.',
        note='Order over whole interleavings and the buffers\' own FIFO (C19) are not decided here.', ref='5-C09'),
    'C10': dict(
        technique='path-sensitive must-follow / result-use analysis over MIR',
        text='Every path that makes a value available hands over to the oldest parked receiver; a dropped notified '
             'receiver forwards; taking a sender\'s value returns its waker; close wakes all; every returned waker '
             'reaches Waker::wake in each wrapper; Pending stores the current waker; a receiver parks only with an '
             'empty buffer and no parked sender, a sender only when the buffer cannot take its value.',
        note='Deadlock freedom under every schedule is not decided.', ref='5-C10'),
    'C12': dict(
        technique='path-sensitive guard / effect analysis over MIR, who-may-write scan',
        text='The slot is written only in send under is_fulfilled == false (which also sets the flag, drains and '
             'wakes), the reject path returns the caller\'s value; single-consumer delivery moves the value out with '
             'take(), broadcast delivery clones and never takes (slot discipline over every transition, incl. '
             'functions that reach into the state); None only when fulfilled and empty; a receiver parks '
             'only while nothing is decided; the constructor starts empty and unfulfilled; Notified never produced '
             'in these modules.', note='Which receiver wins is not decided.', ref='5-C12'),
    'C13': dict(
        technique='path-sensitive guard / orientation analysis over MIR (operand origins of comparisons)',
        text='state_id changes only by += 1 on the publishing path (value stored, waiters woken, open, id != MAX); '
             'both delivery sites are guarded by lt(requested, current) in that orientation and return (current id, '
             'clone of stored value); the slot is assigned only by the publishing transition and never taken; None only when closed and nothing newer; a receiver parks only while nothing '
             'newer exists and the channel is open; the constructor starts at id 0, open, without value.',
        note='Convergence over interleavings is not decided.', ref='5-C13'),
    'C14': dict(
        technique='path-sensitive effect analysis over MIR (effect-freedom of reset, latch rule)',
        text='set() newly-set path: flag + drain with wake + Done latch; reset() has exactly one effect (flag = '
             'false); New completes iff set at that poll, Done completes without reading the flag, Waiting stays '
             'pending with the latest waker; is_set() returns the flag; every transition that touches the flag is one '
             'of these by effect (an unknown transition fails closed).',
        note='Schedules are covered by atomicity of the state functions under the lock.', ref='5-C14'),
    'C15': dict(
        technique='path-sensitive guard / orientation analysis over MIR, zero-count arithmetic scan, typestate',
        text='Expired/Ready only under ge(clock.now(), own expiry) in that orientation; check_expirations marks, '
             'wakes and removes due minima and stops at the first non-due one; next_expiration = peek_min expiry; '
             'entry comparisons are self.expiry vs other.expiry; saturating deadline arithmetic; the deadline of an entry '
             'is written only while the entry is outside the heap (key stability).',
        note='That peek_min is the true minimum (heap order) is assumed (C20).', ref='5-C15'),
    'C17': dict(
        technique='path-sensitive return-correlation analysis over MIR (return shape vs final field value)',
        text='On every MIR path of all 14 poll/poll_next bodies: Ready => handle None, Pending => handle Some; every '
             'is_terminated is is_none() of that same field (or the stream flag); the handle is checked before any '
             'call into the primitive and the None case panics; cancel() clears the handle; streams latch '
             'end-of-stream exactly - and only on the channel\'s own closed verdict - and build their inner future with receive(); every future is constructed with a live handle and every stream '
             'live (slot empty, not terminated).',
        note='Calls into the primitive through dyn are opaque here (their results are only correlated, not '
             'interpreted).', ref='5-C17'),
    'C18': dict(
        technique='call-graph effect analysis over resolved callees (who-may-allocate), no_std compile witness, '
                  'path-sensitive bound check for FixedHeapBuf',
        text='The no_std configuration has no alloc/std callee at all; in every configuration each call into '
             'alloc/std is classified by a frozen table (unknown => allocating) and allocating calls - transitively '
             'through the crate\'s call graph - occur only in constructors (no self receiver, returns a crate type), '
             'GrowingHeapBuf::push (stated exception) and the capacity-bounded FixedHeapBuf::push.',
        note='User code (wakers, payloads, user buffers, clocks) and the lock type\'s internals are outside the '
             'crate; dropping the last Arc handle counts as destruction.', ref='5-C18'),
    'C19': dict(
        technique='per-path agreement of each buffer function\'s MIR effect summary with the canonical ring schema '
                  '(guarded raw access, index advance through next_idx, size +-1), who-may-write scan',
        text='PARTIAL. Decided: access/accounting pairing of ArrayBuf (write at send_idx under size != LEN; read and '
             'drop at recv_idx under size > 0; the used index advances through next_idx, i+1 or 0 at LEN; size +-1; '
             'Drop walks size elements and returns after 0, 1 and >= 2 of them), pure report functions, and the VecDeque delegation of the heap buffers. '
             'NOT decided: FIFO order and exactly-once drop as behaviour over all push/pop sequences - they follow '
             'from the schema by the textbook ring-buffer induction, which is not mechanised (program verification '
             'over integer values is outside this technique family here).',
        note='VecDeque is trusted to be a FIFO deque.', ref='5-C19'),
    'C20': dict(
        technique='per-path agreement of each list/heap function\'s MIR effect summary with the canonical link-'
                  'surgery schema (final-store comparison, argument orientation of calls)',
        text='PARTIAL. Decided, per function and per MIR path: removed nodes carry no links (list and heap), both '
             'ends kept consistent under the entry invariant head None <=> tail None, neighbours spliced, non-member '
             'removal is a write-free false, drains clear links before each callback, meld makes the smaller node '
             'the parent, remove re-attaches merged children, safe_lesser(a,b) is a < b and defuses its bomb; is_empty / is_root / maybe_meld / last_child agree with their schema; every walk '
             '(drain, reverse_drain, last_child) has returning paths after 0, 1 and >= 2 steps; every internal '
             'assertion can fail only on a path whose facts witness an inconsistent structure or a broken '
             'precondition (R5). NOT decided: that the '
             'list is a deque and the heap a min-priority queue for every operation sequence with all links '
             'mutually consistent - functional correctness of pointer structures over unbounded histories is '
             'beyond shape rules; every other property assumes it through the queue-op summaries.',
        note='Nodes passed in are members of this container or of none (documented unsafe precondition).',
        ref='5-C20'),
}


def main():
    props = [json.loads(l) for l in open(os.path.join(VERIF, 'properties.jsonl'))]
    checks = []
    na = []
    extra_na = {}
    na_file = os.path.join(VERIF, 'tools', 'not_applicable.json')
    if os.path.exists(na_file):
        extra_na = json.load(open(na_file))
    for p in props:
        pid = p['id']
        mod = os.path.join(VERIF, 'rules', 'props', pid.lower() + '.py')
        if pid in CHECKS and os.path.exists(mod) and pid not in extra_na:
            c = CHECKS[pid]
            checks.append({
                'property_id': pid,
                'quick_cmd': './check %s --tier quick' % pid,
                'thorough_cmd': './check %s --tier thorough' % pid,
                'evidence_file': 'evidence/%s.json' % pid,
                'replay_cmd_template': './check %s --replay {path}' % pid,
                'engine': 'fi-static',
                'level_claimed': {'category': 'other', 'text': c['text'], 'design_ref': 'DESIGN.md section ' + c['ref']},
                'level_note': COMMON_NOTE + c['note'],
                'technique': c['technique'],
            })
        else:
            na.append({'property_id': pid, 'reason': extra_na.get(
                pid, 'check not built yet (build in progress; DESIGN.md section 5 gives the planned static rules)')})
    m = {
        'version': 1,
        'setup_cmd': 'cd driver && CARGO_NET_OFFLINE=true cargo +nightly build --offline --release',
        'hooks': {
            'guard': 'futures_intrusive_verif',
            'enable': 'none: static analysis reads private items through the compiler (rustc_private driver); '
                      'no instrumentation exists in /repo',
            'baseline_off_cmd': 'cd /repo && cargo test --workspace --no-fail-fast --offline',
            'source_commits': [],
            'add_only': True,
        },
        'engines': [
            {'name': 'fi-static', 'path': 'check',
             'serves_properties': [c['property_id'] for c in checks],
             'kind_free_text': 'static analysis: rustc_private fact extractor (driver/) + python path-sensitive MIR '
                               'rule engine (rules/) + rustc probe matrix (probes/); nothing of the crate is executed'},
        ],
        'checks': checks,
        'not_applicable': na,
        'notes': 'Exit 0 = rules hold on everything analysed; exit 1 + VIOLATION line = located construct breaks a '
                 'rule; exit 2 + CHECKER-ERROR = an anchor is missing and the tree cannot be judged. Fix commits in '
                 '/repo are listed in KNOWN_FINDINGS.',
    }
    with open(os.path.join(VERIF, 'MANIFEST.json'), 'w') as f:
        json.dump(m, f, indent=1)
    print('MANIFEST.json: %d checks, %d not_applicable' % (len(checks), len(na)))


if __name__ == '__main__':
    main()
