#!/usr/bin/env python3
"""tools/sweep_recheck.py <sweep.jsonl> [--jobs N]: re-run the 20 quick checks (current rules) on the mutants of a
sweep result file that no check reported, keeping the recorded test-suite outcome; prints what is still silent."""
import json
import os
import sys
from concurrent.futures import ThreadPoolExecutor

sys.path.insert(0, os.path.dirname(os.path.abspath(__file__)))
import mutation_sweep as ms  # noqa


def main():
    src = sys.argv[1]
    jobs = int(sys.argv[sys.argv.index('--jobs') + 1]) if '--jobs' in sys.argv else 8
    rs = [json.loads(l) for l in open(src)]
    todo = [r for r in rs if r['compiled'] and not any(v['rc'] == 1 for v in r['fired'].values())]
    muts = {(m['file'], m['line'] + 1, m['kind']): m for m in ms.gen_mutants(ms.FILES)}
    jobs_l = [(muts[(r['file'], r['line'], r['kind'])], False) for r in todo]
    out = []
    with ThreadPoolExecutor(max_workers=jobs) as ex:
        for r, new in zip(todo, ex.map(ms.run_one, jobs_l)):
            new['tests_pass'] = r.get('tests_pass')
            new['tests_fail_sample'] = r.get('tests_fail_sample')
            out.append(new)
    dst = src.replace('.jsonl', '.recheck.jsonl')
    with open(dst, 'w') as fh:
        for r in out:
            fh.write(json.dumps(r) + '\n')
    still = [r for r in out if not any(v['rc'] == 1 for v in r['fired'].values())]
    print('%d re-checked, %d still unreported -> %s' % (len(out), len(still), dst))


if __name__ == '__main__':
    main()
