#!/usr/bin/env python3
"""tools/mutation_sweep.py [--files f1,f2] [--jobs N] [--limit N] [--out FILE] [--tests]

Systematic gap finder for the checker (development aid, not a registered check): generates
line-level source mutants of the crate (statement deletion, condition negation, operator and
queue-end swaps), and for each one that still type-checks runs all 20 quick checks against a
scratch copy.  With --tests, the repository's own test suite is run on the mutants that no check
reports, to separate "the tests catch it anyway" from "silent for both" (the interesting ones:
either equivalent mutants or gaps of the checker)."""
import json
import os
import re
import shutil
import subprocess
import sys
import threading
from concurrent.futures import ThreadPoolExecutor

VERIF = os.path.dirname(os.path.dirname(os.path.abspath(__file__)))
REPO = '/repo'
ALL = ['C%02d' % i for i in range(1, 21)]
FILES = ['src/sync/mutex.rs', 'src/sync/semaphore.rs', 'src/sync/manual_reset_event.rs', 'src/channel/mpmc.rs',
         'src/channel/oneshot.rs', 'src/channel/oneshot_broadcast.rs', 'src/channel/state_broadcast.rs',
         'src/channel/channel_future.rs', 'src/timer/timer.rs', 'src/buffer/ring_buffer.rs',
         'src/intrusive_double_linked_list.rs', 'src/intrusive_pairing_heap.rs', 'src/utils/mod.rs',
         'src/channel/error.rs', 'src/timer/clock.rs']

OPS = [
    ('>=', '>'), ('<=', '<'), (' > ', ' >= '), (' < ', ' <= '), ('==', '!='), ('!=', '=='), ('&&', '||'), ('||', '&&'),
    ('remove_last', 'remove_first'), ('peek_last_mut', 'peek_first_mut'), ('reverse_drain', 'drain'),
    ('is_none()', 'is_some()'), ('is_some()', 'is_none()'), ('true', 'false'), ('false', 'true'),
    ('+= 1', '+= 2'), ('-= 1', '-= 0'), ('.take()', '.clone()'), ('Poll::Pending', 'Poll::Ready(())'),
    ('Ordering::Release) != 1', 'Ordering::Release) != 2'), ('saturating_add', 'wrapping_add'),
    ('is_ready()', 'is_pending()'),
    # second generation: variant, queue and status swaps
    ('PollState::Waiting', 'PollState::Notified'), ('PollState::Notified', 'PollState::Waiting'),
    ('PollState::Done', 'PollState::New'), ('PollState::New', 'PollState::Done'),
    ('PollState::Registered', 'PollState::Unregistered'), ('PollState::Unregistered', 'PollState::Registered'),
    ('RecvPollState::Notified', 'RecvPollState::Unregistered'), ('SendPollState::SendComplete', 'SendPollState::Unregistered'),
    ('PollState::Expired', 'PollState::Unregistered'),
    ('send_waiters', 'receive_waiters'), ('receive_waiters', 'send_waiters'),
    ('remove_first', 'remove_last'), ('peek_first', 'peek_last'),
    ('fetch_sub', 'fetch_add'), ('fetch_add', 'fetch_sub'),
    ('Poll::Ready(())', 'Poll::Pending'),
    ('NewlyClosed', 'AlreadyClosed'), ('AlreadyClosed', 'NewlyClosed'),
    ('TrySendError::Full', 'TrySendError::Closed'), ('TrySendError::Closed', 'TrySendError::Full'),
    ('TryReceiveError::Empty', 'TryReceiveError::Closed'), ('TryReceiveError::Closed', 'TryReceiveError::Empty'),
    (' == 0', ' == 1'), (' > 0', ' > 1'), ('.senders', '.receivers'), ('.receivers', '.senders'),
    ('wake_recv_waiters', 'wake_send_waiters'), ('return_oldest_receive_waiter', 'return_oldest_send_waiter'),
    ('.prev', '.next'), ('.next', '.prev'), ('head', 'tail'), ('first_child', 'next'),
]


def code_lines(path):
    """(index, line) of lines outside tests / comments / attributes"""
    lines = open(path).read().split('\n')
    out = []
    in_tests = False
    for i, l in enumerate(lines):
        s = l.strip()
        if re.match(r'^(#\[cfg\(all\(test|#\[cfg\(test|mod tests|mod .*_tests)', s) or s.startswith('#[cfg(test)]'):
            in_tests = True
        if in_tests:
            continue
        if not s or s.startswith('//') or s.startswith('#[') or s.startswith('///') or s.startswith('use '):
            continue
        out.append((i, l))
    return lines, out


def simple_stmt(l):
    s = l.strip()
    return s.endswith(';') and s.count('(') == s.count(')') and s.count('{') == s.count('}') \
        and not s.startswith(('use ', 'pub ', 'type ', 'const ', 'static ', 'fn ', 'unsafe impl', 'impl', '//', '#['))


def gen_swaps(files):
    """third generation: order of two adjacent simple statements exchanged"""
    muts = []
    for f in files:
        p = os.path.join(REPO, f)
        lines, code = code_lines(p)
        idx = dict(code)
        for i, l in code:
            if i + 1 in idx and simple_stmt(l) and simple_stmt(idx[i + 1]) \
                    and len(l) - len(l.lstrip()) == len(idx[i + 1]) - len(idx[i + 1].lstrip()) and l != idx[i + 1]:
                muts.append({'file': f, 'line': i, 'kind': 'swap', 'old': l, 'new': idx[i + 1] + '\n' + l, 'span': 2})
    return muts


def gen_mutants(files):
    muts = []
    for f in files:
        p = os.path.join(REPO, f)
        lines, code = code_lines(p)
        for i, l in code:
            s = l.strip()
            # statement deletion: simple expression statements
            if s.endswith(';') and not s.startswith(('let ', 'return', 'use ', 'pub ', 'type ', 'const ', 'static ',
                                                      'fn ', 'unsafe impl', 'impl', 'break', 'continue')) \
                    and s.count('(') == s.count(')') and '{' not in s:
                muts.append({'file': f, 'line': i, 'kind': 'delete', 'old': l, 'new': ''})
            # condition negation
            m = re.match(r'^(\s*)(if|while) (?!let)(.*) \{\s*$', l)
            if m and '=>' not in l:
                muts.append({'file': f, 'line': i, 'kind': 'negate', 'old': l,
                             'new': '%s%s !(%s) {' % (m.group(1), m.group(2), m.group(3))})
            for a, b in OPS:
                if a in l and not s.startswith(('fn ', 'pub fn', 'unsafe fn', 'impl', 'pub struct', 'struct', 'where')):
                    # first occurrence only
                    muts.append({'file': f, 'line': i, 'kind': 'op:%s->%s' % (a.strip(), b.strip()), 'old': l,
                                 'new': l.replace(a, b, 1)})
    return muts


_tls = threading.local()
_ids = iter(range(100000))
_lock = threading.Lock()


def wdir():
    if not hasattr(_tls, 'd'):
        with _lock:
            i = next(_ids)
        _tls.d = os.path.join(VERIF, '.work', 'scratch', 'sweep%d' % i)
    return _tls.d


def fresh_copy():
    d = wdir()
    if os.path.isdir(d):
        for f in ('src', 'tests'):
            shutil.rmtree(os.path.join(d, f), ignore_errors=True)
    else:
        os.makedirs(d)
    for f in sorted(os.listdir(REPO)):
        if f in ('target', '.git'):
            continue
        s = os.path.join(REPO, f)
        t = os.path.join(d, f)
        if os.path.isdir(s):
            if os.path.isdir(t):
                shutil.rmtree(t)
            shutil.copytree(s, t)
        else:
            shutil.copy(s, t)
    return d


def run_one(job):
    m, do_tests = job
    d = fresh_copy()
    p = os.path.join(d, m['file'])
    lines = open(p).read().split('\n')
    assert lines[m['line']] == m['old']
    lines[m['line']:m['line'] + m.get('span', 1)] = [m['new']]
    open(p, 'w').write('\n'.join(lines))
    res = {'file': m['file'], 'line': m['line'] + 1, 'kind': m['kind'], 'old': m['old'].strip(), 'new': m['new'].strip()}
    fired = {}
    compiled = True
    for prop in ALL:
        env = dict(os.environ, FI_REPO=d, FI_EVID_DIR=os.path.join(d, 'evidence'), FI_SELFTEST='1')
        r = subprocess.run([os.path.join(VERIF, 'check'), prop, '--tier', 'quick'], env=env, cwd=VERIF,
                           stdout=subprocess.PIPE, stderr=subprocess.STDOUT, text=True)
        if r.returncode == 2 and 'fact extraction failed' in r.stdout:
            compiled = False
            break
        if r.returncode != 0:
            keys = [l.split(' key=', 1)[1].split('|')[0] for l in r.stdout.splitlines()
                    if l.strip().startswith('rule=') and ' key=' in l]
            fired[prop] = {'rc': r.returncode, 'rules': sorted(set(keys))}
    res['compiled'] = compiled
    res['fired'] = fired
    if compiled and not any(v['rc'] == 1 for v in fired.values()) and do_tests:
        env = dict(os.environ, CARGO_TARGET_DIR=os.path.join(d, '..', 'tgt-' + os.path.basename(d)), CARGO_NET_OFFLINE='true')
        # a mutant that loses a wake-up makes a test wait forever: bound the run
        r = subprocess.run(['timeout', '-k', '5', '400', 'cargo', 'test', '--offline', '--no-fail-fast', '-q'],
                           cwd=d, env=env, stdout=subprocess.PIPE, stderr=subprocess.STDOUT, text=True)
        res['tests_pass'] = r.returncode == 0
        if r.returncode in (124, 137):
            res['tests_fail_sample'] = ['HANG (timeout)']
        elif r.returncode != 0:
            res['tests_fail_sample'] = [l for l in r.stdout.splitlines() if 'FAILED' in l or 'panicked' in l][:3]
    return res


def main():
    files = FILES
    if '--files' in sys.argv:
        files = sys.argv[sys.argv.index('--files') + 1].split(',')
    jobs = int(sys.argv[sys.argv.index('--jobs') + 1]) if '--jobs' in sys.argv else 6
    out = sys.argv[sys.argv.index('--out') + 1] if '--out' in sys.argv else os.path.join(VERIF, '.work', 'sweep.jsonl')
    do_tests = '--tests' in sys.argv
    muts = gen_swaps(files) if '--swaps' in sys.argv else gen_mutants(files)
    if '--limit' in sys.argv:
        import random
        random.seed(1)
        random.shuffle(muts)
        muts = muts[:int(sys.argv[sys.argv.index('--limit') + 1])]
    done = set()
    if '--resume' in sys.argv and os.path.exists(out):
        for l in open(out):
            r = json.loads(l)
            done.add((r['file'], r['line'], r['kind']))
        muts = [m for m in muts if (m['file'], m['line'] + 1, m['kind']) not in done]
    print('%d mutants' % len(muts), flush=True)
    n = 0
    with open(out, 'a' if done else 'w') as fh, ThreadPoolExecutor(max_workers=jobs) as ex:
        for res in ex.map(run_one, [(m, do_tests) for m in muts]):
            fh.write(json.dumps(res) + '\n')
            fh.flush()
            n += 1
            if n % 25 == 0:
                print(n, flush=True)
    print('done', flush=True)
    import glob
    for d in glob.glob(os.path.join(VERIF, '.work', 'scratch', 'sweep*')) + glob.glob(os.path.join(VERIF, '.work', 'scratch', 'tgt-sweep*')):
        shutil.rmtree(d, ignore_errors=True)     # scratch copies and their build output


if __name__ == '__main__':
    main()
