#!/bin/bash
# tools/variant_patch.sh <patch.diff> <python-edit-script> <out.diff>: apply a patch to a scratch copy, edit the
# result with a python script (cwd = scratch copy), and write the combined diff against /repo.
D=/verif/.work/scratch/variant
rm -rf $D $D.orig; mkdir -p $D $D.orig
(cd /repo && tar cf - --exclude=target --exclude=.git .) | tar xf - -C $D
(cd /repo && tar cf - --exclude=target --exclude=.git .) | tar xf - -C $D.orig
(cd $D && patch -s -p1 -i "$1") || exit 2
(cd $D && python3 "$2") || exit 2
(cd /verif/.work/scratch && diff -ruN variant.orig variant | sed 's#^--- variant.orig/#--- a/#; s#^+++ variant/#+++ b/#; /^diff -ruN/d' > "$3")
rm -rf $D $D.orig
