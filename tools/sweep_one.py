#!/usr/bin/env python3
"""tools/sweep_one.py <file> <line> <kind-prefix> [props...]: apply one sweep mutant to a scratch copy, print check output"""
import os, subprocess, sys
sys.path.insert(0, os.path.dirname(os.path.abspath(__file__)))
import mutation_sweep as ms
f, line, kind = sys.argv[1], int(sys.argv[2]), sys.argv[3]
props = sys.argv[4:] or ms.ALL
m = [m for m in (ms.gen_mutants([f]) + ms.gen_swaps([f])) if m['line'] + 1 == line and m['kind'].startswith(kind)][0]
d = ms.fresh_copy()
p = os.path.join(d, m['file'])
lines = open(p).read().split('\n')
lines[m['line']:m['line'] + m.get('span', 1)] = [m['new']]
open(p, 'w').write('\n'.join(lines))
print(m['old'].strip(), '->', m['new'].strip())
for prop in props:
    env = dict(os.environ, FI_REPO=d, FI_EVID_DIR=os.path.join(d, 'evidence'), FI_SELFTEST='1')
    r = subprocess.run([os.path.join(ms.VERIF, 'check'), prop, '--tier', 'quick'], env=env, cwd=ms.VERIF,
                       stdout=subprocess.PIPE, stderr=subprocess.STDOUT, text=True)
    print(prop, 'rc=%d' % r.returncode)
    if r.returncode:
        print('\n'.join(r.stdout.splitlines()[-12:]))
print('scratch:', d)
