#!/bin/bash
# tools/test_patch.sh <patch.diff>: apply to a scratch copy of /repo and run the repository's own test suite there
D=/verif/.work/scratch/tp-$$
rm -rf $D; mkdir -p $D
(cd /repo && tar cf - --exclude=target --exclude=.git .) | tar xf - -C $D
(cd $D && patch -s -p1 -i "$1") || { rm -rf $D; exit 2; }
(cd $D && CARGO_NET_OFFLINE=true CARGO_TARGET_DIR=$D/target timeout 900 cargo test --offline --no-fail-fast -q 2>&1 | grep "test result\|FAILED\|error" | sort | uniq -c)
rm -rf $D
