#!/usr/bin/env python3
"""tools/sweep_still_reported.py <sweep.jsonl> [--files f1,f2] [--jobs N]: for the mutants of a sweep result file that
some check reported (exit 1), re-run only the checks that reported them (current rules) and print every mutant that
no longer is; a quick answer to "did a generalisation lose a detection?" between full sweeps."""
import json
import os
import subprocess
import sys
from concurrent.futures import ThreadPoolExecutor

sys.path.insert(0, os.path.dirname(os.path.abspath(__file__)))
import mutation_sweep as ms  # noqa


def run(job):
    m, props = job
    d = ms.fresh_copy()
    p = os.path.join(d, m['file'])
    lines = open(p).read().split('\n')
    assert lines[m['line']] == m['old']
    lines[m['line']:m['line'] + m.get('span', 1)] = [m['new']]
    open(p, 'w').write('\n'.join(lines))
    for prop in props:
        env = dict(os.environ, FI_REPO=d, FI_EVID_DIR=os.path.join(d, 'evidence'), FI_SELFTEST='1')
        r = subprocess.run([os.path.join(ms.VERIF, 'check'), prop, '--tier', 'quick'], env=env, cwd=ms.VERIF,
                           stdout=subprocess.PIPE, stderr=subprocess.STDOUT, text=True)
        if r.returncode == 1:
            return True
    return False


def main():
    src = sys.argv[1]
    jobs = int(sys.argv[sys.argv.index('--jobs') + 1]) if '--jobs' in sys.argv else 8
    files = sys.argv[sys.argv.index('--files') + 1].split(',') if '--files' in sys.argv else None
    rs = [json.loads(l) for l in open(src)]
    todo = [r for r in rs if r['compiled'] and any(v['rc'] == 1 for v in r['fired'].values())
            and (files is None or r['file'] in files)]
    muts = {(m['file'], m['line'] + 1, m['kind']): m for m in ms.gen_mutants(ms.FILES)}
    jl = [(muts[(r['file'], r['line'], r['kind'])], sorted(p for p, v in r['fired'].items() if v['rc'] == 1)) for r in todo]
    lost = 0
    with ThreadPoolExecutor(max_workers=jobs) as ex:
        for r, ok in zip(todo, ex.map(run, jl)):
            if not ok:
                lost += 1
                print('LOST %s:%s %s  %s -> %s  (was: %s)' % (r['file'], r['line'], r['kind'], r['old'], r['new'],
                                                           {p: v['rules'] for p, v in r['fired'].items() if v['rc'] == 1}))
    print('%d previously reported mutants re-run, %d no longer reported' % (len(todo), lost))
    import glob
    import shutil
    for d in glob.glob(os.path.join(ms.VERIF, '.work', 'scratch', 'sweep*')):
        shutil.rmtree(d, ignore_errors=True)


if __name__ == '__main__':
    main()
