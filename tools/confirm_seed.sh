#!/bin/bash
# tools/confirm_seed.sh <worktree> <patch.diff> <demo.rs>  -- confirm a seeded change independently:
# builds in three configs, unedited suite passes with the change, demo fails with / passes without.
set -u
WT=$1; PATCH=$2; DEMO=$3
export CARGO_TARGET_DIR=$WT/target CARGO_NET_OFFLINE=true
cd $WT || exit 2
git stash list >/dev/null 2>&1
git checkout -q -- src 2>/dev/null; git clean -fdq tests/seed_demo.rs 2>/dev/null
rm -f tests/seed_demo.rs
git apply $PATCH || { echo "APPLY-FAILED"; exit 2; }
for cfg in "" "--no-default-features" "--no-default-features --features alloc"; do
  cargo build --offline --lib $cfg >/dev/null 2>&1 && echo "build[$cfg] ok" || echo "build[$cfg] FAILED"
done
echo "--- existing suite WITH the change"
cargo test --offline --no-fail-fast 2>&1 | grep -E "^test result|FAILED|panicked" | awk '{print}' | sort | uniq -c | sort -rn | head -12
cp $DEMO tests/seed_demo.rs
echo "--- demo WITH the change"
cargo test --offline --test seed_demo 2>&1 | grep -E "^test result|^test .*(FAILED|ok)$" | head -80
git checkout -q -- src
echo "--- demo WITHOUT the change"
cargo test --offline --test seed_demo 2>&1 | grep -E "^test result|^test .*(FAILED|ok)$" | head -80
rm -f tests/seed_demo.rs
