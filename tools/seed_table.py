#!/usr/bin/env python3
"""regenerates the seeded-changes table in DESIGN.md from seeded/*/meta.json (+ seeded/NOTES.json for
the ones that were missed at first and what was strengthened)"""
import glob
import json
import os
import re

VERIF = os.path.dirname(os.path.dirname(os.path.abspath(__file__)))
notes = {}
nf = os.path.join(VERIF, 'seeded', 'NOTES.json')
if os.path.exists(nf):
    notes = json.load(open(nf))
rows = []
for f in sorted(glob.glob(os.path.join(VERIF, 'seeded', '*', 'meta.json'))):
    m = json.load(open(f))
    fired = m['checks_that_fire_on_/repo_with_the_patch_applied']
    rules = []
    for p, v in sorted(fired.items()):
        ks = sorted(set(k.split('|')[0] for k in v['keys'])) or ['rc=%d' % v['rc']]
        rules.append('%s (%s)' % (p, ', '.join(ks)))
    n = notes.get(m['name'], '')
    rows.append('| `%s` | %s | %s | %s | %s |' % (m['name'], m['breaks_property'], m['needs_to_manifest'],
                                                   '; '.join(rules) or 'NONE', n or 'caught as first built'))
table = ('| seeded change | breaks | needs, to manifest | checks that fire (rule ids) | history |\n'
         '|---|---|---|---|---|\n' + '\n'.join(rows))
p = os.path.join(VERIF, 'DESIGN.md')
s = open(p).read()
if 'SEEDED-TABLE-PLACEHOLDER' in s:
    s = s.replace('SEEDED-TABLE-PLACEHOLDER', '<!-- SEEDED-TABLE-BEGIN -->\n' + table + '\n<!-- SEEDED-TABLE-END -->')
else:
    s = re.sub(r'<!-- SEEDED-TABLE-BEGIN -->.*?<!-- SEEDED-TABLE-END -->',
               lambda _m: '<!-- SEEDED-TABLE-BEGIN -->\n' + table + '\n<!-- SEEDED-TABLE-END -->', s, flags=re.S)
# mutant counts of section 9.1
import collections
import sys
sys.path.insert(0, os.path.join(VERIF, 'selftest'))
from mutants import MUTANTS, BENIGN  # noqa
c = collections.Counter()
for m in MUTANTS:
    for pr in m['expect']:
        c[pr] += 1
counts = ('%d mutants (each an exact-string edit that still compiles; %d property/mutant\nruns) and %d benign '
          'refactors (%d runs). Per property: %s.' % (
              len(MUTANTS), sum(c.values()), len(BENIGN), sum(len(b['props']) for b in BENIGN),
              ', '.join('%s %d' % (k, c[k]) for k in sorted(c))))
s = re.sub(r'<!-- MUTANT-COUNTS-BEGIN -->.*?<!-- MUTANT-COUNTS-END -->',
           lambda _m: '<!-- MUTANT-COUNTS-BEGIN -->\n' + counts + '\n<!-- MUTANT-COUNTS-END -->', s, flags=re.S)
open(p, 'w').write(s)
print(len(rows), 'rows;', len(MUTANTS), 'mutants')
