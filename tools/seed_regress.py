#!/usr/bin/env python3
"""tools/seed_regress.py [--jobs N]: applies every stored seeded change to a scratch copy and runs the check of the
property it breaks (plus every check that fired when it was stored); prints which still fire.  Development aid."""
import glob, json, os, shutil, subprocess, sys
from concurrent.futures import ThreadPoolExecutor
VERIF = os.path.dirname(os.path.dirname(os.path.abspath(__file__)))


def one(f):
    m = json.load(open(f))
    name = m['name']
    d = os.path.join(VERIF, '.work', 'scratch', 'seed-' + name[:40])
    shutil.rmtree(d, ignore_errors=True)
    os.makedirs(d)
    subprocess.run('cd /repo && tar --exclude=target --exclude=.git -cf - . | tar -xf - -C %s' % d, shell=True, check=True)
    r = subprocess.run(['patch', '-p1', '-s', '-i', os.path.join(os.path.dirname(f), 'patch.diff')], cwd=d,
                       stdout=subprocess.PIPE, stderr=subprocess.STDOUT, text=True)
    if r.returncode != 0:
        return name, m['breaks_property'], 'PATCH FAILED', {}
    props = sorted(set([m['breaks_property']] + list(m['checks_that_fire_on_/repo_with_the_patch_applied'])))
    res = {}
    for p in props:
        env = dict(os.environ, FI_REPO=d, FI_EVID_DIR=os.path.join(d, 'evidence'), FI_SELFTEST='1')
        rr = subprocess.run([os.path.join(VERIF, 'check'), p, '--tier', 'quick'], env=env, cwd=VERIF,
                            stdout=subprocess.PIPE, stderr=subprocess.STDOUT, text=True)
        keys = sorted(set(l.split(' key=', 1)[1].split('|')[0] for l in rr.stdout.splitlines()
                          if l.strip().startswith('rule=') and ' key=' in l))
        res[p] = (rr.returncode, keys)
    shutil.rmtree(d, ignore_errors=True)
    return name, m['breaks_property'], 'ok', res


def main():
    jobs = int(sys.argv[sys.argv.index('--jobs') + 1]) if '--jobs' in sys.argv else 8
    files = sorted(glob.glob(os.path.join(VERIF, 'seeded', '*', 'meta.json')))
    bad = 0
    with ThreadPoolExecutor(max_workers=jobs) as ex:
        for name, prop, st, res in ex.map(one, files):
            own = res.get(prop, (None, []))
            flag = 'CAUGHT' if own[0] == 1 else ('NOT-DECIDED' if own[0] == 2 else 'MISSED')
            others = {p: v for p, v in res.items() if p != prop and v[0] != 0}
            if flag != 'CAUGHT':
                bad += 1
            print('%-12s %s %-62s own=%s others=%s' % (flag, prop, name[:62], own[1], {p: (v[0], v[1]) for p, v in others.items()}))
    print('%d seeds, %d not caught by their own property check' % (len(files), bad))


if __name__ == '__main__':
    main()
