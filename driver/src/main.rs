//! fi-facts: a rustc_private driver that serialises the type-checked program
//! (ADTs, impls, trait-solver answers, MIR of every function) of the
//! `futures_intrusive` crate as one JSON file per compilation.  It contains no
//! property logic; `/verif/rules` decides.
//!
//! Used as RUSTC_WORKSPACE_WRAPPER: argv[1] is the real rustc, dropped.
//! Output: $FI_FACTS_OUT (one write per process).
#![feature(rustc_private)]
#![allow(clippy::all)]

extern crate rustc_abi;
extern crate rustc_driver;
extern crate rustc_hir;
extern crate rustc_infer;
extern crate rustc_interface;
extern crate rustc_middle;
extern crate rustc_span;
extern crate rustc_trait_selection;

mod json;
use json::J;

use rustc_driver::Compilation;
use rustc_hir::def::DefKind;
use rustc_hir::def_id::{DefId, LOCAL_CRATE};
use rustc_infer::infer::TyCtxtInferExt;
use rustc_interface::interface::Compiler;
use rustc_middle::mir::{
    self, AggregateKind, BasicBlockData, Body, Operand, Place, PlaceElem, Rvalue, StatementKind,
    TerminatorKind,
};
use rustc_middle::ty::{self, GenericArgsRef, Ty, TyCtxt, TypingEnv, TypingMode};
use rustc_span::Span;
use rustc_trait_selection::infer::InferCtxtExt;

const TARGET_CRATE: &str = "futures_intrusive";

struct Cb;
impl rustc_driver::Callbacks for Cb {
    fn after_analysis<'tcx>(&mut self, _c: &Compiler, tcx: TyCtxt<'tcx>) -> Compilation {
        let name = tcx.crate_name(LOCAL_CRATE);
        if name.as_str() != TARGET_CRATE {
            return Compilation::Continue;
        }
        let out = match std::env::var("FI_FACTS_OUT") {
            Ok(o) => o,
            Err(_) => return Compilation::Continue,
        };
        let facts = Facts { tcx }.collect();
        let mut s = String::with_capacity(1 << 22);
        facts.write(&mut s);
        std::fs::write(&out, s).expect("write facts");
        Compilation::Continue
    }
}

struct Facts<'tcx> {
    tcx: TyCtxt<'tcx>,
}

fn strip_crate(p: &str) -> String {
    p.to_string()
}

impl<'tcx> Facts<'tcx> {
    fn path(&self, did: DefId) -> String {
        strip_crate(&self.tcx.def_path_str(did))
    }

    fn loc(&self, span: Span) -> (String, i128) {
        let sm = self.tcx.sess.source_map();
        let lo = sm.lookup_char_pos(span.lo());
        let file = format!("{}", lo.file.name.prefer_local_unconditionally());
        (file, lo.line as i128)
    }

    fn auto_traits(&self) -> Vec<(&'static str, DefId)> {
        let tcx = self.tcx;
        let mut v = Vec::new();
        if let Some(d) = tcx.get_diagnostic_item(rustc_span::sym::Send) {
            v.push(("Send", d));
        }
        if let Some(d) = tcx.get_diagnostic_item(rustc_span::sym::Sync) {
            v.push(("Sync", d));
        }
        if let Some(d) = tcx.lang_items().unpin_trait() {
            v.push(("Unpin", d));
        }
        if let Some(d) = tcx.lang_items().clone_trait() {
            v.push(("Clone", d));
        }
        if let Some(d) = tcx.lang_items().copy_trait() {
            v.push(("Copy", d));
        }
        v
    }

    /// Solver answers: does `ty` implement each of Send/Sync/Unpin/Clone/Copy
    /// for all instantiations admitted by `penv`?
    fn trait_facts(&self, ty: Ty<'tcx>, penv: ty::ParamEnv<'tcx>) -> J {
        let tcx = self.tcx;
        let mut o = J::obj();
        for (n, d) in self.auto_traits() {
            let infcx = tcx.infer_ctxt().build(TypingMode::non_body_analysis());
            let r = infcx.type_implements_trait(d, [ty], penv).must_apply_modulo_regions();
            o = o.f(n, J::Bool(r));
        }
        o.done()
    }

    // ------------------------------------------------------------------ types
    fn ty_tree(&self, ty: Ty<'tcx>, depth: usize) -> J {
        let tcx = self.tcx;
        let s = format!("{}", ty);
        if depth > 8 {
            return J::obj().f("k", J::s("deep")).f("str", J::s(s)).done();
        }
        match ty.kind() {
            ty::Adt(def, args) => {
                let targs: Vec<J> = args.types().map(|t| self.ty_tree(t, depth + 1)).collect();
                J::obj()
                    .f("k", J::s("adt"))
                    .f("path", J::s(self.path(def.did())))
                    .f("local", J::Bool(def.did().is_local()))
                    .f("krate", J::s(tcx.crate_name(def.did().krate).to_string()))
                    .f("args", J::Arr(targs))
                    .f("str", J::s(s))
                    .done()
            }
            ty::Ref(_, t, m) => J::obj()
                .f("k", J::s("ref"))
                .f("mut", J::Bool(m.is_mut()))
                .f("ty", self.ty_tree(*t, depth + 1))
                .f("str", J::s(s))
                .done(),
            ty::RawPtr(t, m) => J::obj()
                .f("k", J::s("ptr"))
                .f("mut", J::Bool(m.is_mut()))
                .f("ty", self.ty_tree(*t, depth + 1))
                .f("str", J::s(s))
                .done(),
            ty::Param(p) => J::obj()
                .f("k", J::s("param"))
                .f("name", J::s(p.name.to_string()))
                .f("str", J::s(s))
                .done(),
            ty::Tuple(ts) => J::obj()
                .f("k", J::s("tuple"))
                .f("tys", J::Arr(ts.iter().map(|t| self.ty_tree(t, depth + 1)).collect()))
                .f("str", J::s(s))
                .done(),
            ty::Array(t, _) | ty::Slice(t) => J::obj()
                .f("k", J::s("array"))
                .f("ty", self.ty_tree(*t, depth + 1))
                .f("str", J::s(s))
                .done(),
            ty::Dynamic(preds, _) => {
                let mut principal = J::Null;
                let mut pargs = Vec::new();
                let mut autos = Vec::new();
                if let Some(p) = preds.principal() {
                    let p = p.skip_binder();
                    principal = J::s(self.path(p.def_id));
                    for t in p.args.types() {
                        pargs.push(self.ty_tree(t, depth + 1));
                    }
                }
                for a in preds.auto_traits() {
                    autos.push(J::s(self.path(a)));
                }
                J::obj()
                    .f("k", J::s("dyn"))
                    .f("trait", principal)
                    .f("args", J::Arr(pargs))
                    .f("autos", J::Arr(autos))
                    .f("str", J::s(s))
                    .done()
            }
            ty::Bool | ty::Char | ty::Int(_) | ty::Uint(_) | ty::Float(_) | ty::Str | ty::Never => {
                J::obj().f("k", J::s("prim")).f("name", J::s(s.clone())).f("str", J::s(s)).done()
            }
            ty::Closure(did, _) => J::obj()
                .f("k", J::s("closure"))
                .f("path", J::s(self.path(*did)))
                .f("str", J::s(s))
                .done(),
            ty::FnDef(did, args) => J::obj()
                .f("k", J::s("fndef"))
                .f("path", J::s(self.path(*did)))
                .f(
                    "args",
                    J::Arr(args.types().map(|t| self.ty_tree(t, depth + 1)).collect()),
                )
                .f("str", J::s(s))
                .done(),
            ty::Alias(..) => J::obj().f("k", J::s("alias")).f("str", J::s(s)).done(),
            ty::FnPtr(..) => J::obj().f("k", J::s("fnptr")).f("str", J::s(s)).done(),
            _ => J::obj().f("k", J::s("other")).f("str", J::s(s)).done(),
        }
    }

    // ------------------------------------------------------------------- adts
    fn adts(&self) -> J {
        let tcx = self.tcx;
        let mut out = Vec::new();
        let eff = tcx.effective_visibilities(());
        for id in tcx.hir_crate_items(()).definitions() {
            let did = id.to_def_id();
            let kind = tcx.def_kind(did);
            if !matches!(kind, DefKind::Struct | DefKind::Enum | DefKind::Union) {
                continue;
            }
            let adt = tcx.adt_def(did);
            let generics = tcx.generics_of(did);
            let params: Vec<J> = generics
                .own_params
                .iter()
                .filter(|p| matches!(p.kind, ty::GenericParamDefKind::Type { .. }))
                .map(|p| J::s(p.name.to_string()))
                .collect();
            let penv = tcx.param_env(did);
            let id_args = ty::GenericArgs::identity_for_item(tcx, did);
            let self_ty = tcx.type_of(did).instantiate_identity().skip_norm_wip();
            let mut variants = Vec::new();
            for v in adt.variants() {
                let mut fields = Vec::new();
                for f in &v.fields {
                    let fty = f.ty(tcx, id_args);
                    let vis = match f.vis {
                        ty::Visibility::Public => "pub".to_string(),
                        ty::Visibility::Restricted(m) => {
                            if m == tcx.parent_module_from_def_id(id).to_def_id() {
                                "private".to_string()
                            } else {
                                format!("restricted:{}", self.path(m))
                            }
                        }
                    };
                    fields.push(
                        J::obj()
                            .f("name", J::s(f.name.to_string()))
                            .f("ty", self.ty_tree(fty, 0))
                            .f("vis", J::s(vis))
                            .f("auto", self.trait_facts(fty, penv))
                            .done(),
                    );
                }
                variants.push(
                    J::obj()
                        .f("name", J::s(v.name.to_string()))
                        .f("fields", J::Arr(fields))
                        .done(),
                );
            }
            let preds: Vec<J> = tcx
                .predicates_of(did)
                .instantiate_identity(tcx)
                .predicates
                .iter()
                .map(|p| J::s(format!("{}", p.skip_norm_wip())))
                .collect();
            let (file, line) = self.loc(tcx.def_span(did));
            out.push(
                J::obj()
                    .f("path", J::s(self.path(did)))
                    .f(
                        "kind",
                        J::s(match kind {
                            DefKind::Struct => "struct",
                            DefKind::Enum => "enum",
                            _ => "union",
                        }),
                    )
                    .f("params", J::Arr(params))
                    .f("preds", J::Arr(preds))
                    .f("reachable", J::Bool(eff.is_reachable(id)))
                    .f("self_auto", self.trait_facts(self_ty, penv))
                    .f("variants", J::Arr(variants))
                    .f("file", J::s(file))
                    .f("line", J::Int(line))
                    .done(),
            );
        }
        J::Arr(out)
    }

    // ------------------------------------------------------------------ impls
    fn clause_json(&self, c: ty::Clause<'tcx>) -> J {
        let s = format!("{}", c);
        match c.kind().skip_binder() {
            ty::ClauseKind::Trait(tp) => J::obj()
                .f("kind", J::s("trait"))
                .f("self", self.ty_tree(tp.self_ty(), 0))
                .f("trait", J::s(self.path(tp.def_id())))
                .f("str", J::s(s))
                .done(),
            ty::ClauseKind::Projection(_) => {
                J::obj().f("kind", J::s("proj")).f("str", J::s(s)).done()
            }
            ty::ClauseKind::TypeOutlives(_) | ty::ClauseKind::RegionOutlives(_) => {
                J::obj().f("kind", J::s("outlives")).f("str", J::s(s)).done()
            }
            _ => J::obj().f("kind", J::s("other")).f("str", J::s(s)).done(),
        }
    }

    fn generic_names(&self, did: DefId) -> J {
        // type parameters in scope of `did`, in substitution-index order (parents first)
        let tcx = self.tcx;
        let mut v: Vec<(u32, String)> = Vec::new();
        let mut g = Some(tcx.generics_of(did));
        while let Some(gen) = g {
            for p in &gen.own_params {
                if let ty::GenericParamDefKind::Type { .. } = p.kind {
                    v.push((p.index, p.name.to_string()));
                }
            }
            g = gen.parent.map(|p| tcx.generics_of(p));
        }
        v.sort();
        J::Arr(v.into_iter().map(|(_, n)| J::s(n)).collect())
    }

    fn param_facts(&self, did: DefId) -> J {
        // For every type parameter in scope of `did`: which marker traits does
        // the item's own where-clause environment entail?
        let tcx = self.tcx;
        let penv = tcx.param_env(did);
        let mut o = J::obj();
        let mut g = Some(tcx.generics_of(did));
        while let Some(gen) = g {
            for p in &gen.own_params {
                if let ty::GenericParamDefKind::Type { .. } = p.kind {
                    let pty = Ty::new_param(tcx, p.index, p.name);
                    o = o.f(p.name.to_string(), self.trait_facts(pty, penv));
                }
            }
            g = gen.parent.map(|p| tcx.generics_of(p));
        }
        o.done()
    }

    fn impls(&self) -> J {
        let tcx = self.tcx;
        let mut out = Vec::new();
        for id in tcx.hir_crate_items(()).definitions() {
            let did = id.to_def_id();
            if !matches!(tcx.def_kind(did), DefKind::Impl { .. }) {
                continue;
            }
            let self_ty = tcx.type_of(did).instantiate_identity().skip_norm_wip();
            let self_adt = match self_ty.kind() {
                ty::Adt(d, _) => J::s(self.path(d.did())),
                _ => J::Null,
            };
            let mut tr = J::Null;
            let mut tr_str = J::Null;
            let mut tr_args = Vec::new();
            let mut negative = false;
            let mut is_unsafe = false;
            if tcx.impl_opt_trait_ref(did).is_some() {
                let h = tcx.impl_trait_header(did);
                let tref = h.trait_ref.instantiate_identity().skip_norm_wip();
                tr = J::s(self.path(tref.def_id));
                tr_str = J::s(format!("{:?}", tref));
                for t in tref.args.types().skip(1) {
                    tr_args.push(self.ty_tree(t, 0));
                }
                negative = matches!(h.polarity, ty::ImplPolarity::Negative);
                is_unsafe = matches!(h.safety, rustc_hir::Safety::Unsafe);
            }
            let preds: Vec<J> = tcx
                .predicates_of(did)
                .instantiate_identity(tcx)
                .predicates
                .iter()
                .map(|p| self.clause_json(p.skip_norm_wip()))
                .collect();
            let params: Vec<J> = tcx
                .generics_of(did)
                .own_params
                .iter()
                .filter(|p| matches!(p.kind, ty::GenericParamDefKind::Type { .. }))
                .map(|p| J::s(p.name.to_string()))
                .collect();
            let mut fns = Vec::new();
            for item in tcx.associated_items(did).in_definition_order() {
                if matches!(item.kind, ty::AssocKind::Fn { .. }) {
                    fns.push(J::s(self.path(item.def_id)));
                }
            }
            let (file, line) = self.loc(tcx.def_span(did));
            out.push(
                J::obj()
                    .f("id", J::s(self.path(did)))
                    .f("trait", tr)
                    .f("trait_str", tr_str)
                    .f("trait_args", J::Arr(tr_args))
                    .f("negative", J::Bool(negative))
                    .f("unsafe", J::Bool(is_unsafe))
                    .f("self_ty", self.ty_tree(self_ty, 0))
                    .f("self_adt", self_adt)
                    .f("params", J::Arr(params))
                    .f("preds", J::Arr(preds))
                    .f("param_facts", self.param_facts(did))
                    .f("fns", J::Arr(fns))
                    .f("file", J::s(file))
                    .f("line", J::Int(line))
                    .done(),
            );
        }
        J::Arr(out)
    }

    // -------------------------------------------------------------------- MIR
    fn place(&self, body: &Body<'tcx>, p: &Place<'tcx>) -> J {
        let tcx = self.tcx;
        let mut proj = Vec::new();
        let mut pty = mir::PlaceTy::from_ty(body.local_decls[p.local].ty);
        for elem in p.projection.iter() {
            match elem {
                PlaceElem::Deref => proj.push(J::s("*")),
                PlaceElem::Field(idx, _fty) => {
                    let name = match pty.ty.kind() {
                        ty::Adt(def, _) => {
                            let v = match pty.variant_index {
                                Some(vi) => def.variant(vi),
                                None => def.non_enum_variant(),
                            };
                            v.fields[idx].name.to_string()
                        }
                        _ => format!("{}", idx.as_usize()),
                    };
                    proj.push(J::obj().f("f", J::s(name)).f("i", J::Int(idx.as_usize() as i128)).done());
                }
                PlaceElem::Downcast(name, vi) => {
                    let n = match name {
                        Some(n) => n.to_string(),
                        None => match pty.ty.kind() {
                            ty::Adt(def, _) => def.variant(vi).name.to_string(),
                            _ => format!("{}", vi.as_usize()),
                        },
                    };
                    proj.push(J::obj().f("dc", J::s(n)).f("i", J::Int(vi.as_usize() as i128)).done());
                }
                PlaceElem::Index(l) => {
                    proj.push(J::obj().f("idx", J::Int(l.as_usize() as i128)).done())
                }
                PlaceElem::ConstantIndex { offset, .. } => {
                    proj.push(J::obj().f("cidx", J::Int(offset as i128)).done())
                }
                _ => proj.push(J::s("?")),
            }
            pty = pty.projection_ty(tcx, elem);
        }
        J::obj()
            .f("l", J::Int(p.local.as_usize() as i128))
            .f("p", J::Arr(proj))
            .done()
    }

    fn callee_json(&self, owner: DefId, did: DefId, args: GenericArgsRef<'tcx>) -> J {
        let tcx = self.tcx;
        let mut o = J::obj()
            .f("path", J::s(self.path(did)))
            .f("name", J::s(tcx.item_name(did).to_string()))
            .f("krate", J::s(tcx.crate_name(did.krate).to_string()))
            .f("gargs", J::Arr(args.types().map(|t| self.ty_tree(t, 0)).collect()))
            .f("gargs_str", J::s(format!("{:?}", args)));
        let tr = tcx.trait_of_assoc(did);
        o = o.f("trait", match tr {
            Some(t) => J::s(self.path(t)),
            None => J::Null,
        });
        if let Some(imp) = tcx.impl_of_assoc(did) {
            let sty = tcx.type_of(imp).instantiate_identity().skip_norm_wip();
            if let ty::Adt(d, _) = sty.kind() {
                o = o.f("impl_adt", J::s(self.path(d.did())));
            }
            if let Some(tref) = tcx.impl_opt_trait_ref(imp) {
                o = o.f("impl_trait", J::s(self.path(tref.skip_binder().def_id)));
            }
        }
        // Resolve through the trait solver where the receiver type allows it.
        let mut resolved = J::Null;
        let mut virt = false;
        if matches!(tcx.def_kind(did), DefKind::Fn | DefKind::AssocFn) {
            let tenv = TypingEnv::post_analysis(tcx, owner);
            if let Ok(Some(inst)) = ty::Instance::try_resolve(tcx, tenv, did, args) {
                match inst.def {
                    ty::InstanceKind::Item(d2) => {
                        let mut r = J::obj()
                            .f("path", J::s(self.path(d2)))
                            .f("local", J::Bool(d2.is_local()))
                            .f("krate", J::s(tcx.crate_name(d2.krate).to_string()))
                            .f("gargs", J::Arr(inst.args.types().map(|t| self.ty_tree(t, 0)).collect()));
                        if let Some(imp) = tcx.impl_of_assoc(d2) {
                            let sty = tcx.type_of(imp).instantiate_identity().skip_norm_wip();
                            if let ty::Adt(d, _) = sty.kind() {
                                r = r.f("impl_adt", J::s(self.path(d.did())));
                            }
                            if let Some(tref) = tcx.impl_opt_trait_ref(imp) {
                                r = r.f("impl_trait", J::s(self.path(tref.skip_binder().def_id)));
                            }
                        }
                        resolved = r.done();
                    }
                    ty::InstanceKind::Virtual(..) => virt = true,
                    _ => {}
                }
            }
        }
        o.f("resolved", resolved).f("virtual", J::Bool(virt)).done()
    }

    fn operand(&self, owner: DefId, body: &Body<'tcx>, op: &Operand<'tcx>) -> J {
        let tcx = self.tcx;
        match op {
            Operand::Copy(p) => J::obj().f("copy", self.place(body, p)).done(),
            Operand::Move(p) => J::obj().f("move", self.place(body, p)).done(),
            Operand::Constant(c) => {
                let ty = c.const_.ty();
                let mut o = J::obj()
                    .f("const", J::s(format!("{}", c.const_)))
                    .f("ty", J::s(format!("{}", ty)));
                if let ty::FnDef(did, args) = ty.kind() {
                    o = o.f("fn", self.callee_json(owner, *did, args));
                }
                if let mir::Const::Unevaluated(uv, _) = c.const_ {
                    if let Some(p) = uv.promoted {
                        if uv.def == owner {
                            o = o.f("promoted", J::Int(p.as_usize() as i128));
                        }
                    } else {
                        o = o.f("const_item", J::s(self.path(uv.def)));
                    }
                }
                let tenv = TypingEnv::post_analysis(tcx, owner);
                if ty.is_integral() || ty.is_bool() || ty.is_char() {
                    if let Some(si) = c.const_.try_eval_scalar_int(tcx, tenv) {
                        let size = si.size();
                        let v: i128 = if ty.is_signed() {
                            si.to_int(size)
                        } else {
                            si.to_uint(size) as i128
                        };
                        o = o.f("int", J::Int(v));
                    }
                }
                o.done()
            }
            #[allow(unreachable_patterns)]
            other => J::obj().f("rt", J::s(format!("{:?}", other))).done(),
        }
    }

    fn enum_variants(&self, ty: Ty<'tcx>) -> J {
        let tcx = self.tcx;
        if let ty::Adt(def, _) = ty.kind() {
            if def.is_enum() {
                let mut v = Vec::new();
                for (vi, d) in def.discriminants(tcx) {
                    v.push(J::Arr(vec![
                        J::Int(d.val as i128),
                        J::s(def.variant(vi).name.to_string()),
                    ]));
                }
                return J::obj()
                    .f("enum", J::s(self.path(def.did())))
                    .f("variants", J::Arr(v))
                    .done();
            }
        }
        J::Null
    }

    fn rvalue(&self, owner: DefId, body: &Body<'tcx>, rv: &Rvalue<'tcx>) -> J {
        let tcx = self.tcx;
        match rv {
            Rvalue::Use(op, ..) => J::obj().f("use", self.operand(owner, body, op)).done(),
            Rvalue::Ref(_, bk, p) => J::obj()
                .f("ref", self.place(body, p))
                .f("mut", J::Bool(matches!(bk, mir::BorrowKind::Mut { .. })))
                .done(),
            Rvalue::RawPtr(k, p) => J::obj()
                .f("rawptr", self.place(body, p))
                .f("mut", J::Bool(format!("{:?}", k).contains("Mut")))
                .done(),
            Rvalue::Cast(kind, op, ty) => J::obj()
                .f("cast", self.operand(owner, body, op))
                .f("kind", J::s(format!("{:?}", kind)))
                .f("to", J::s(format!("{}", ty)))
                .f("to_ty", self.ty_tree(*ty, 0))
                .f("from_ty", self.ty_tree(op.ty(&body.local_decls, tcx), 0))
                .done(),
            Rvalue::BinaryOp(op, ab) => J::obj()
                .f("binop", J::s(format!("{:?}", op)))
                .f("a", self.operand(owner, body, &ab.0))
                .f("b", self.operand(owner, body, &ab.1))
                .done(),
            Rvalue::UnaryOp(op, a) => J::obj()
                .f("unop", J::s(format!("{:?}", op)))
                .f("a", self.operand(owner, body, a))
                .done(),
            Rvalue::Discriminant(p) => {
                let pty = p.ty(&body.local_decls, tcx).ty;
                J::obj()
                    .f("discr", self.place(body, p))
                    .f("of", self.enum_variants(pty))
                    .done()
            }
            Rvalue::Aggregate(kind, ops) => {
                let opsj: Vec<J> = ops.iter().map(|o| self.operand(owner, body, o)).collect();
                let mut o = J::obj();
                match &**kind {
                    AggregateKind::Adt(did, vi, args, _, _) => {
                        let def = tcx.adt_def(*did);
                        let v = def.variant(*vi);
                        let fnames: Vec<J> =
                            v.fields.iter().map(|f| J::s(f.name.to_string())).collect();
                        o = o
                            .f("agg", J::s("adt"))
                            .f("adt", J::s(self.path(*did)))
                            .f("variant", J::s(v.name.to_string()))
                            .f("fields", J::Arr(fnames))
                            .f(
                                "gargs",
                                J::Arr(args.types().map(|t| self.ty_tree(t, 0)).collect()),
                            );
                    }
                    AggregateKind::Tuple => o = o.f("agg", J::s("tuple")),
                    AggregateKind::Closure(did, _) => {
                        o = o.f("agg", J::s("closure")).f("closure", J::s(self.path(*did)))
                    }
                    AggregateKind::Array(_) => o = o.f("agg", J::s("array")),
                    AggregateKind::RawPtr(..) => o = o.f("agg", J::s("rawptr")),
                    _ => o = o.f("agg", J::s("other")),
                }
                o.f("ops", J::Arr(opsj)).done()
            }
            Rvalue::CopyForDeref(p) => J::obj()
                .f("use", J::obj().f("copy", self.place(body, p)).done())
                .done(),
            other => J::obj().f("other", J::s(format!("{:?}", other))).done(),
        }
    }

    fn block(&self, owner: DefId, body: &Body<'tcx>, bb: &BasicBlockData<'tcx>) -> J {
        let tcx = self.tcx;
        let mut stmts = Vec::new();
        for s in &bb.statements {
            let (_, line) = self.loc(s.source_info.span);
            let exp = s.source_info.span.from_expansion();
            match &s.kind {
                StatementKind::Assign(b) => {
                    let (p, rv) = &**b;
                    stmts.push(
                        J::obj()
                            .f("k", J::s("assign"))
                            .f("place", self.place(body, p))
                            .f("rv", self.rvalue(owner, body, rv))
                            .f("ln", J::Int(line))
                            .f("exp", J::Bool(exp))
                            .done(),
                    );
                }
                StatementKind::SetDiscriminant { place, variant_index } => {
                    let pty = place.ty(&body.local_decls, tcx).ty;
                    let vname = match pty.kind() {
                        ty::Adt(def, _) => def.variant(*variant_index).name.to_string(),
                        _ => format!("{}", variant_index.as_usize()),
                    };
                    stmts.push(
                        J::obj()
                            .f("k", J::s("setdiscr"))
                            .f("place", self.place(body, place))
                            .f("variant", J::s(vname))
                            .f("ln", J::Int(line))
                            .done(),
                    );
                }
                StatementKind::Intrinsic(i) => {
                    stmts.push(
                        J::obj()
                            .f("k", J::s("intrinsic"))
                            .f("str", J::s(format!("{:?}", i)))
                            .f("ln", J::Int(line))
                            .done(),
                    );
                }
                _ => {}
            }
        }
        let t = bb.terminator();
        let (tfile, tline) = self.loc(t.source_info.span);
        let texp = t.source_info.span.from_expansion();
        let bbn = |b: mir::BasicBlock| J::Int(b.as_usize() as i128);
        let term = match &t.kind {
            TerminatorKind::Goto { target } => J::obj().f("k", J::s("goto")).f("t", bbn(*target)),
            TerminatorKind::SwitchInt { discr, targets } => {
                let mut ts = Vec::new();
                for (v, b) in targets.iter() {
                    ts.push(J::Arr(vec![J::Int(v as i128), bbn(b)]));
                }
                let dty = discr.ty(&body.local_decls, tcx);
                J::obj()
                    .f("k", J::s("switch"))
                    .f("discr", self.operand(owner, body, discr))
                    .f("dty", J::s(format!("{}", dty)))
                    .f("targets", J::Arr(ts))
                    .f("otherwise", bbn(targets.otherwise()))
            }
            TerminatorKind::Return => J::obj().f("k", J::s("return")),
            TerminatorKind::Unreachable => J::obj().f("k", J::s("unreachable")),
            TerminatorKind::UnwindResume => J::obj().f("k", J::s("resume")),
            TerminatorKind::UnwindTerminate(_) => J::obj().f("k", J::s("terminate")),
            TerminatorKind::Drop { place, target, .. } => {
                let pty = place.ty(&body.local_decls, tcx).ty;
                J::obj()
                    .f("k", J::s("drop"))
                    .f("place", self.place(body, place))
                    .f("ty", self.ty_tree(pty, 0))
                    .f("t", bbn(*target))
            }
            TerminatorKind::Call { func, args, destination, target, fn_span, .. } => {
                let argsj: Vec<J> =
                    args.iter().map(|a| self.operand(owner, body, &a.node)).collect();
                let argtys: Vec<J> = args
                    .iter()
                    .map(|a| J::s(format!("{}", a.node.ty(&body.local_decls, tcx))))
                    .collect();
                let (_, cl) = self.loc(*fn_span);
                let dty = destination.ty(&body.local_decls, tcx).ty;
                J::obj()
                    .f("k", J::s("call"))
                    .f("func", self.operand(owner, body, func))
                    .f("args", J::Arr(argsj))
                    .f("argtys", J::Arr(argtys))
                    .f("dest", self.place(body, destination))
                    .f("dest_ty", J::s(format!("{}", dty)))
                    .f("diverges", J::Bool(target.is_none()))
                    .f("t", match target {
                        Some(b) => bbn(*b),
                        None => J::Null,
                    })
                    .f("call_ln", J::Int(cl))
            }
            TerminatorKind::Assert { cond, expected, msg, target, .. } => J::obj()
                .f("k", J::s("assert"))
                .f("cond", self.operand(owner, body, cond))
                .f("expected", J::Bool(*expected))
                .f("msg", J::s(format!("{:?}", msg)))
                .f("t", bbn(*target)),
            TerminatorKind::FalseEdge { real_target, .. } => {
                J::obj().f("k", J::s("goto")).f("t", bbn(*real_target))
            }
            TerminatorKind::FalseUnwind { real_target, .. } => {
                J::obj().f("k", J::s("goto")).f("t", bbn(*real_target))
            }
            other => J::obj().f("k", J::s("other")).f("str", J::s(format!("{:?}", other))),
        };
        let term = term
            .f("ln", J::Int(tline))
            .f("file", J::s(tfile))
            .f("exp", J::Bool(texp))
            .done();
        J::obj()
            .f("cleanup", J::Bool(bb.is_cleanup))
            .f("stmts", J::Arr(stmts))
            .f("term", term)
            .done()
    }

    fn fns(&self) -> J {
        let tcx = self.tcx;
        let mut out = Vec::new();
        let eff = tcx.effective_visibilities(());
        for ldid in tcx.hir_body_owners() {
            let did = ldid.to_def_id();
            let kind = tcx.def_kind(did);
            if !matches!(kind, DefKind::Fn | DefKind::AssocFn | DefKind::Closure) {
                continue;
            }
            let body: &Body<'tcx> = tcx.optimized_mir(did);
            let (file, line) = self.loc(tcx.def_span(did));
            let mut o = J::obj()
                .f("path", J::s(self.path(did)))
                .f(
                    "kind",
                    J::s(match kind {
                        DefKind::Fn => "fn",
                        DefKind::AssocFn => "assoc",
                        _ => "closure",
                    }),
                )
                .f("file", J::s(file))
                .f("line", J::Int(line))
                .f("arg_count", J::Int(body.arg_count as i128));
            if matches!(kind, DefKind::Fn | DefKind::AssocFn) {
                o = o
                    .f("name", J::s(tcx.item_name(did).to_string()))
                    .f("reachable", J::Bool(eff.is_reachable(ldid)))
                    .f(
                        "vis",
                        J::s(match tcx.visibility(did) {
                            ty::Visibility::Public => "pub".to_string(),
                            ty::Visibility::Restricted(m) => format!("restricted:{}", self.path(m)),
                        }),
                    )
                    .f(
                        "unsafe",
                        J::Bool(tcx.fn_sig(did).skip_binder().safety().is_unsafe()),
                    )
                    .f("param_facts", self.param_facts(did))
                    .f("generics", self.generic_names(did));
            } else {
                o = o.f("parent", J::s(self.path(tcx.typeck_root_def_id(did))));
            }
            if let Some(imp) = tcx.impl_of_assoc(did) {
                o = o.f("impl", J::s(self.path(imp)));
                let sty = tcx.type_of(imp).instantiate_identity().skip_norm_wip();
                if let ty::Adt(d, _) = sty.kind() {
                    o = o.f("impl_adt", J::s(self.path(d.did())));
                }
                if let Some(tref) = tcx.impl_opt_trait_ref(imp) {
                    o = o.f("impl_trait", J::s(self.path(tref.skip_binder().def_id)));
                }
            }
            if let Some(tr) = tcx.trait_of_assoc(did) {
                o = o.f("in_trait", J::s(self.path(tr)));
            }
            let mut locals = Vec::new();
            for (_l, decl) in body.local_decls.iter_enumerated() {
                locals.push(
                    J::obj()
                        .f("ty", self.ty_tree(decl.ty, 0))
                        .done(),
                );
            }
            let mut dbg = Vec::new();
            for v in &body.var_debug_info {
                if let mir::VarDebugInfoContents::Place(p) = &v.value {
                    dbg.push(
                        J::obj()
                            .f("name", J::s(v.name.to_string()))
                            .f("place", self.place(body, p))
                            .done(),
                    );
                }
            }
            let blocks: Vec<J> =
                body.basic_blocks.iter().map(|bb| self.block(did, body, bb)).collect();
            let mut promoted = Vec::new();
            for pb in tcx.promoted_mir(did).iter() {
                let pblocks: Vec<J> =
                    pb.basic_blocks.iter().map(|bb| self.block(did, pb, bb)).collect();
                let plocals: Vec<J> = pb
                    .local_decls
                    .iter()
                    .map(|d| J::obj().f("ty", self.ty_tree(d.ty, 0)).done())
                    .collect();
                promoted.push(
                    J::obj().f("locals", J::Arr(plocals)).f("blocks", J::Arr(pblocks)).done(),
                );
            }
            o = o.f("promoted", J::Arr(promoted));
            out.push(
                o.f("locals", J::Arr(locals))
                    .f("debug", J::Arr(dbg))
                    .f("blocks", J::Arr(blocks))
                    .done(),
            );
        }
        J::Arr(out)
    }

    /// associated / free constants of the crate with the MIR of their initialiser (so that a rule engine can see
    /// what `<E as Trait>::CONST` is for a given implementor)
    fn consts(&self) -> J {
        let tcx = self.tcx;
        let mut out = Vec::new();
        for ldid in tcx.hir_body_owners() {
            let did = ldid.to_def_id();
            let kind = tcx.def_kind(did);
            if !matches!(kind, DefKind::AssocConst { .. } | DefKind::Const { .. }) {
                continue;
            }
            let body: &Body<'tcx> = tcx.mir_for_ctfe(did);
            let mut o = J::obj()
                .f("path", J::s(self.path(did)))
                .f("name", J::s(tcx.item_name(did).to_string()));
            if let Some(imp) = tcx.impl_of_assoc(did) {
                let sty = tcx.type_of(imp).instantiate_identity().skip_norm_wip();
                if let ty::Adt(d, _) = sty.kind() {
                    o = o.f("impl_adt", J::s(self.path(d.did())));
                }
                if let Some(tref) = tcx.impl_opt_trait_ref(imp) {
                    o = o.f("impl_trait", J::s(self.path(tref.skip_binder().def_id)));
                }
            }
            if let Some(tr) = tcx.trait_of_assoc(did) {
                o = o.f("in_trait", J::s(self.path(tr)));
            }
            let locals: Vec<J> = body
                .local_decls
                .iter()
                .map(|d| J::obj().f("ty", self.ty_tree(d.ty, 0)).done())
                .collect();
            let blocks: Vec<J> =
                body.basic_blocks.iter().map(|bb| self.block(did, body, bb)).collect();
            out.push(o.f("locals", J::Arr(locals)).f("blocks", J::Arr(blocks)).done());
        }
        J::Arr(out)
    }

    fn traits(&self) -> J {
        let tcx = self.tcx;
        let mut out = Vec::new();
        for id in tcx.hir_crate_items(()).definitions() {
            let did = id.to_def_id();
            if !matches!(tcx.def_kind(did), DefKind::Trait) {
                continue;
            }
            let mut impls = Vec::new();
            for imp in tcx.all_impls(did) {
                if imp.is_local() {
                    impls.push(J::s(self.path(imp)));
                }
            }
            let supers: Vec<J> = tcx
                .explicit_super_predicates_of(did)
                .skip_binder()
                .iter()
                .map(|(c, _)| J::s(format!("{}", c)))
                .collect();
            out.push(
                J::obj()
                    .f("path", J::s(self.path(did)))
                    .f("impls", J::Arr(impls))
                    .f("supers", J::Arr(supers))
                    .f("unsafe", J::Bool(tcx.trait_def(did).safety.is_unsafe()))
                    .done(),
            );
        }
        J::Arr(out)
    }

    fn collect(&self) -> J {
        let tcx = self.tcx;
        let mut cfgs = Vec::new();
        for (k, v) in tcx.sess.config.iter() {
            if k.as_str() == "feature" {
                if let Some(v) = v {
                    cfgs.push(J::s(v.to_string()));
                }
            }
        }
        J::obj()
            .f("crate", J::s(TARGET_CRATE))
            .f("features", J::Arr(cfgs))
            .f("debug_assertions", J::Bool(tcx.sess.opts.debug_assertions))
            .f("adts", self.adts())
            .f("impls", self.impls())
            .f("traits", self.traits())
            .f("fns", self.fns())
            .f("consts", self.consts())
            .done()
    }
}

fn main() {
    let mut args: Vec<String> = std::env::args().collect();
    // RUSTC_WORKSPACE_WRAPPER: argv[1] is the path of the real rustc.
    if args.len() > 1 && (args[1].ends_with("rustc") || args[1].contains("/rustc")) {
        args.remove(1);
    }
    rustc_driver::run_compiler(&args, &mut Cb);
}
