"""Fact base: loads the JSON written by the fi-facts driver and indexes it.

Fact extraction (driver run) lives in extract.py; this module is read-only.
"""
import json
import re


def strip_generics(path):
    """`a::B::<T>::c` -> `a::B::c` ; `<X<'a, T> as Tr>::f` kept but generics removed."""
    out = []
    depth = 0
    i = 0
    while i < len(path):
        c = path[i]
        if c == '<' and (i == 0 or path[i - 1] == ':' or depth > 0 or path[i - 1].isalnum() or path[i-1] == '_'):
            # leading '<' of a qualified path `<T as Tr>::f` is kept as is
            if i == 0:
                out.append(c)
                i += 1
                continue
            depth += 1
        elif c == '>' and depth > 0:
            depth -= 1
            # drop a trailing `::` that preceded the generics
            i += 1
            continue
        elif depth == 0:
            out.append(c)
        i += 1
    s = ''.join(out)
    s = s.replace('::::', '::')
    s = re.sub(r'::$', '', s)
    return s


KNOWN_MODULES = frozenset([
    'buffer', 'buffer::real_array', 'buffer::ring_buffer', 'buffer::ring_buffer::if_alloc', 'channel',
    'channel::channel_future', 'channel::channel_future::if_alloc', 'channel::channel_future::if_alloc::shared',
    'channel::error', 'channel::mpmc', 'channel::mpmc::if_alloc', 'channel::mpmc::if_alloc::shared',
    'channel::mpmc::if_alloc::shared::if_std', 'channel::oneshot', 'channel::oneshot::if_alloc',
    'channel::oneshot::if_alloc::shared', 'channel::oneshot::if_alloc::shared::if_std', 'channel::oneshot_broadcast',
    'channel::oneshot_broadcast::if_alloc', 'channel::oneshot_broadcast::if_alloc::shared',
    'channel::oneshot_broadcast::if_alloc::shared::if_std', 'channel::state_broadcast',
    'channel::state_broadcast::if_alloc', 'channel::state_broadcast::if_alloc::shared',
    'channel::state_broadcast::if_alloc::shared::if_std', 'intrusive_double_linked_list', 'intrusive_pairing_heap',
    'noop_lock', 'sync', 'sync::manual_reset_event', 'sync::mutex', 'sync::semaphore', 'sync::semaphore::if_alloc',
    'timer', 'timer::clock', 'timer::clock::if_std', 'timer::timer', 'utils'])


def _unknown_modules(raw):
    """modules (path prefixes of types, traits and free functions that are not items themselves) which today's
    module tree does not have and whose parent it has"""
    items = set(a['path'] for a in raw['adts']) | set(t['path'] for t in raw['traits'])
    fnpaths = set(f['path'] for f in raw['fns'])
    mods = set()
    for p in list(items):
        segs = p.split('::')
        for i in range(1, len(segs)):
            mods.add('::'.join(segs[:i]))
    for f in raw['fns']:
        if f['kind'] == 'fn' and not f['path'].startswith('<'):
            segs = f['path'].split('::')
            for i in range(1, len(segs)):
                pre = '::'.join(segs[:i])
                if pre not in items and pre not in fnpaths:
                    mods.add(pre)
    return set(m for m in mods if m not in KNOWN_MODULES and '::' in m and m.rsplit('::', 1)[0] in KNOWN_MODULES
               and m not in items)


class Facts:
    def __init__(self, path):
        with open(path) as f:
            text = f.read()
        # no_std builds print `core::` / `alloc::` where std builds print the `std::` re-export:
        # one spelling for the rules (crate-local paths never start with these crate names)
        text = re.sub(r'\b(core|alloc)::', 'std::', text)
        self.raw = json.loads(text)
        # Module nesting is not vocabulary.  The rules name the crate's types by their paths in today's module tree
        # (KNOWN_MODULES); a private inline module added below a known one (`mod imp { struct MutexState .. }`) is
        # transparent: its segment is removed from every path, so `sync::mutex::imp::MutexState` is the
        # `sync::mutex::MutexState` the rules are written against.  Two items that collide after that fail closed.
        self.transparent_modules = []
        for _round in range(4):
            unknown = _unknown_modules(self.raw)
            if not unknown:
                break
            for m in sorted(unknown, key=len, reverse=True):
                parent = m.rsplit('::', 1)[0]
                text = text.replace(m + '::', parent + '::')
                self.transparent_modules.append(m)
            self.raw = json.loads(text)
        self.path = path
        self.features = self.raw['features']
        self.adts = {a['path']: a for a in self.raw['adts']}
        self._flatten_field_groups()
        self.impls = self.raw['impls']
        self.impl_by_id = {i['id']: i for i in self.impls}
        self.traits = {t['path']: t for t in self.raw['traits']}
        self.fns = {}
        for fn in self.raw['fns']:
            # identical def paths cannot occur for distinct bodies (unless a transparent module hid a name clash)
            if fn['path'] in self.fns:
                raise AnchorMissing('two functions named %s after flattening the private module(s) %s'
                                    % (fn['path'], self.transparent_modules))
            self.fns[fn['path']] = fn
        self.closures_of = {}
        for fn in self.raw['fns']:
            if fn['kind'] == 'closure':
                self.closures_of.setdefault(fn['parent'], []).append(fn['path'])

    # ------------------------------------------------------------ lookups
    def fn(self, path):
        return self.fns.get(path)

    def find_fns(self, *, impl_adt=None, name=None, impl_trait=None, suffix=None, module=None):
        out = []
        for fn in self.raw['fns']:
            if impl_adt is not None and fn.get('impl_adt') != impl_adt:
                continue
            if name is not None and fn.get('name') != name:
                continue
            if impl_trait is not None:
                t = fn.get('impl_trait') or ''
                if impl_trait == '' and t:
                    continue
                if impl_trait and not t.endswith(impl_trait):
                    continue
            if suffix is not None and not fn['path'].endswith(suffix):
                continue
            if module is not None and not fn['path'].lstrip('<').startswith(module):
                continue
            out.append(fn)
        return out

    def one_fn(self, **kw):
        r = self.find_fns(**kw)
        if not r and 'impl_adt' in kw and 'name' in kw and getattr(self, '_breach', None):
            # the state's own method was folded into the public operation: that function mutates the lock-protected
            # state directly and is judged as the transition of that name (see rl.breach_wrappers)
            c = [self.fn(p) for p in self._breach.get(kw['impl_adt'], {}) if (self.fn(p) or {}).get('name') == kw['name']]
            if len(c) == 1:
                return c[0]
            # ... or a read-only operation folded into the public method: the inherent, non-shared public method of
            # that name in the state's module that takes the lock; judged with the locked state addressed as `self`
            mod = kw['impl_adt'].rsplit('::', 1)[0] + '::'
            c = [f for f in self.raw['fns'] if f.get('name') == kw['name'] and f['kind'] != 'closure'
                 and f['path'].startswith(mod) and '::shared::' not in f['path'] and not f.get('impl_trait')
                 and f.get('impl_adt') != kw['impl_adt']
                 and self._takes_lock(f)]
            if len(c) == 1:
                self.alias_fns.add(c[0]['path'])
                return c[0]
        if len(r) != 1:
            raise AnchorMissing('expected exactly one fn for %r, found %d' % (kw, len(r)))
        return r[0]

    def _flatten_field_groups(self):
        """Grouping fields is not vocabulary either.  A private struct that exists only as ONE field of another private
        struct (`struct MutexState { is_fair, is_locked, queue: WaitQueue }`, `struct WaitQueue { waiters }`) is a
        field group: its fields are the outer struct's fields.  The ADT table is flattened here (originals kept in
        adts_orig); the engine drops the hop through the group field from every access path and splices group
        aggregates (Engine.eval_place / eval_rvalue), so `self.queue.waiters` is the `self.waiters` the rules name."""
        import copy
        from autotrait import subst
        self.adts_orig = copy.deepcopy(self.adts)
        self.group_fields = {}
        special = ('intrusive_double_linked_list::', 'intrusive_pairing_heap::')
        users = {}
        for a in self.adts_orig.values():
            for v in a['variants']:
                for f in v['fields']:
                    t = f['ty']
                    if t.get('k') == 'adt' and t.get('local'):
                        users.setdefault(t['path'], []).append((a['path'], f['name']))
        # a struct that appears as the type of a local variable / parameter on its own is a value in its own right
        # only if it is never a field; groups are recognised by being a field of exactly one private struct
        for sub, us in users.items():
            b = self.adts_orig.get(sub)
            if not b or b['kind'] != 'struct' or b.get('reachable') or sub.startswith(special) or len(us) != 1:
                continue
            outer, fname = us[0]
            o = self.adts_orig[outer]
            if o['kind'] != 'struct' or o.get('reachable') or outer.startswith(special):
                continue
            # only inside the state of a primitive: the outer struct (or the outer of the outer) is a lock payload -
            # approximated by "has a bool / queue / counter next to it and is itself never generic over the group"
            if not any(True for _ in b['variants'][0]['fields']):
                continue
            outer_names = set(f['name'] for f in o['variants'][0]['fields'])
            if any(f['name'] in outer_names for f in b['variants'][0]['fields']):
                continue     # a name clash after flattening: leave it alone (the anchors then fail closed)
            self.group_fields[(outer, fname)] = sub
        for _round in range(3):
            changed = False
            for (outer, fname), sub in list(self.group_fields.items()):
                o = self.adts[outer]
                new_fields = []
                for f in o['variants'][0]['fields']:
                    if f['name'] == fname and f['ty'].get('path') == sub:
                        b = self.adts[sub]
                        m = dict(zip(b.get('params') or [], f['ty'].get('args') or []))
                        for g in b['variants'][0]['fields']:
                            g2 = dict(g)
                            g2['ty'] = subst(g['ty'], m)
                            new_fields.append(g2)
                        changed = True
                    else:
                        new_fields.append(f)
                o['variants'][0]['fields'] = new_fields
            if not changed:
                break

    def field_ty(self, adt_ty, field, variant=None):
        """type of `field` in the ORIGINAL definition of the ADT type `adt_ty` (its generics substituted), or None"""
        from autotrait import subst
        a = getattr(self, 'adts_orig', self.adts).get((adt_ty or {}).get('path'))
        if not a:
            return None
        m = dict(zip(a.get('params') or [], adt_ty.get('args') or []))
        for v in a['variants']:
            if variant is not None and v['name'] != variant:
                continue
            for f in v['fields']:
                if f['name'] == field:
                    return subst(f['ty'], m)
        return None

    def _takes_lock(self, f):
        try:
            from rl import reaches_lock, CallGraph
            if getattr(self, '_cg', None) is None:
                self._cg = CallGraph(self)
            return reaches_lock(self, self._cg, f)
        except Exception:
            return any(b['term']['k'] == 'call' and 'fn' in b['term']['func'] and
                       b['term']['func']['fn']['path'].startswith('lock_api::') and
                       b['term']['func']['fn']['name'] == 'lock' for b in f['blocks'] if not b['cleanup'])

    def methods_of(self, adt, inherent_only=True):
        return [fn for fn in self.raw['fns']
                if fn.get('impl_adt') == adt and (not inherent_only or not fn.get('impl_trait'))]

    def adt(self, path):
        a = self.adts.get(path)
        if a is None:
            raise AnchorMissing('ADT %s not found' % path)
        return a

    def impls_of(self, *, trait_suffix=None, self_adt=None):
        out = []
        for i in self.impls:
            if trait_suffix is not None:
                if not i['trait'] or not i['trait'].endswith(trait_suffix):
                    continue
            if self_adt is not None and i['self_adt'] != self_adt:
                continue
            out.append(i)
        return out

    def loc(self, fn, ln):
        return '%s:%s' % (fn['file'], ln)


class AnchorMissing(Exception):
    """An anchor (type / field / role function) the rules rely on is absent:
    the checker cannot judge this tree (exit 2, CHECKER-ERROR), which is not a
    VIOLATION."""
    pass


# ------------------------------------------------------------------ type trees
def ty_mentions_param(t, names=None):
    """Does the type tree mention a type parameter (optionally one of `names`)?"""
    k = t.get('k')
    if k == 'param':
        return names is None or t['name'] in names
    for key in ('args', 'tys'):
        for x in t.get(key, []):
            if ty_mentions_param(x, names):
                return True
    if 'ty' in t and isinstance(t['ty'], dict):
        return ty_mentions_param(t['ty'], names)
    if k in ('alias', 'other', 'deep', 'closure', 'fnptr'):
        # conservative textual fallback for shapes the driver does not expand
        s = t.get('str', '')
        if names is None:
            return False
        return any(re.search(r'\b%s\b' % re.escape(n), s) for n in names)
    return False


def ty_adt_paths(t, acc=None):
    if acc is None:
        acc = set()
    if t.get('k') == 'adt':
        acc.add(t['path'])
    for key in ('args', 'tys'):
        for x in t.get(key, []):
            ty_adt_paths(x, acc)
    if 'ty' in t and isinstance(t['ty'], dict):
        ty_adt_paths(t['ty'], acc)
    return acc
