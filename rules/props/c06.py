"""C06 — semaphore: the longest-waiting acquirer is never stranded (necessary wake-up rules)."""
from rl import (method_role, entry_methods, loc_endswith, path_cond, trace_summary, where, const_of, fmt_val, fmt_loc, fields_of)
from common import (effective, w4_pending_stores_waker, w4_helper, own_node_roots, poll_variant, fifo_ends, contains, cmp_fact)
from lib import CheckerError

STATE = 'sync::semaphore::SemaphoreState'


def find_wakeup_fn(F, E):
    """role: the state method in whose body - own code or the private helpers / closures it calls, but not another
    state method it calls - a queue token is marked Notified"""
    from rl import call_stacks, innermost
    # (associated helper functions without a `self` receiver are part of whoever calls them)
    methods = [m for m in F.methods_of(STATE) if m.get('name') != 'new' and
               any(d['name'] == 'self' and d['place']['l'] == 1 and not d['place']['p'] for d in m['debug'])]
    names = set(m['path'] for m in methods)
    found = []
    for m in methods:
        hit = False
        for path in E.run(m['path']):
            stacks = call_stacks(path)
            for i, e in enumerate(path.events):
                if e['k'] == 'write' and e['loc'][0][0] == 'tok' and loc_endswith(e['loc'], 'state') \
                        and e['val'][0] == 'agg' and e['val'][2] == 'Notified' and innermost(stacks[i], names) == m['path']:
                    hit = True
            if hit:
                break
        if hit:
            found.append(m)
    if len(found) != 1:
        raise CheckerError('anchor=semaphore wake-up walk: expected exactly one function that marks queue tokens '
                           'Notified, found %s' % [f['path'] for f in found])
    return found[0]


def wakeup_after(path, wk, idx):
    for i, e in enumerate(path.events):
        if i > idx and e['k'] == 'enter' and e['fn'] == wk['path']:
            return True
    return False


def state_permit_sub(path):
    out = []
    for i, e in enumerate(path.events):
        if e['k'] == 'write' and loc_endswith(e['loc'], 'permits') and e['val'][0] == 'bin' and e['val'][1] in ('Sub', 'Add'):
            out.append((i, e))
    return out


def run(C, R):
    R.explanation = ('Necessary conditions for "head fits => head notified", each tied to a concrete stranding '
                     'scenario: on every MIR path of the semaphore state functions, the wake-up walk (the function '
                     'that marks queue tokens Notified, found by role) runs AFTER (R1) any increase of permits, '
                     '(R2) the consumption of a Notified own node by a fair grant or by a drop, (R3) the unlinking '
                     'of an own node that did not take permits (cancellation of a Waiting node: it may have been '
                     'the head), (R4) the re-queueing of a Notified own node (its wake-up is abandoned); R5 the walk '
                     'itself starts at the tail, notifies while available >= required, wakes the stored task of '
                     'each newly notified node and stops after one node in fair mode; R6 Pending => latest waker '
                     'stored.  The full induction over joint states and eventual completion are not decided.')
    R.trusted += ['rustc nightly MIR', 'queue-op summaries (C20)', 'lock_api::Mutex']
    R.assumptions += ['eventual completion needs the executor to re-poll woken tasks (not decided)',
                      'the unfair self-acquisition of a Waiting node only decreases permits: no wake-up owed']
    for cfg in C.configs():
        F = C.facts(cfg)
        E = C.engine(cfg)
        CG = C.cg(cfg)
        R.configs.append(cfg)
        from common import futures_start_initial as _fsi
        R.floor('C06.R0 future-construction-paths[%s]' % cfg, _fsi(C, R, cfg, ['sync::semaphore::SemaphoreState'], 'C06.R0'), 1)
        from common import wrapper_discipline
        R.floor('C06.W wrapper-paths[%s]' % cfg, wrapper_discipline(C, R, cfg, ['sync::semaphore::SemaphoreState'], 'C06.W'), 2)
        wk = find_wakeup_fn(F, E)
        counts = {'R1': 0, 'R2': 0, 'R3': 0, 'R4': 0}
        for m in entry_methods(F, CG, STATE):
            paths = E.run(m['path'])
            R.add_paths(m['path'], len(paths))
            owns = own_node_roots(F, m)
            # the cancel transition: reached from a destructor - after it returns the future is gone, whatever state
            # its node was left in
            from rl import lift_private_callers as _lift06
            is_cancel = any(((F.fn(c_) or {}).get('impl_trait') or '').endswith('ops::Drop')
                            for c_ in _lift06(F, CG, m['path']))
            for path in paths:
                if path.exit != 'return':
                    continue
                pc = path_cond(E, path)
                changes = state_permit_sub(path)
                adds = [(i, e) for i, e in changes if e['val'][1] == 'Add']
                subs = [(i, e) for i, e in changes if e['val'][1] == 'Sub']
                for i, e in adds:
                    counts['R1'] += 1
                    if wakeup_after(path, wk, i):
                        R.ok('C06.R1', '%s|%s' % (m['path'], pc))
                    else:
                        R.fail('C06.R1', [m['path'], 'permits-increased-without-wakeup'],
                               '%s increases permits and returns without running the wake-up walk [%s]' % (
                                   m['path'], pc), where(F, e), {'trace': trace_summary(path)})
                for root in owns:
                    sloc = root + ('data', 'state')
                    k0 = path.facts.get(('discr', ('init', sloc)))
                    s0 = k0[1] if k0 and k0[0] == 'eq' else None
                    ws = [(i, e) for i, e in enumerate(path.events) if e['k'] == 'write' and e['loc'] == sloc]
                    final = ws[-1][1]['val'][2] if ws and ws[-1][1]['val'][0] == 'agg' else s0
                    own_ops = [(i, e) for i, e in enumerate(path.events)
                               if e['k'] == 'qop' and e.get('node') is not None and e['node'][:1] == root]
                    last_own = max([i for i, _ in own_ops] + [i for i, _ in subs] + [-1])
                    fair = const_of(E, path.facts, ('init', (('P', 'self'), 'is_fair')))
                    relinked = [(i, e) for i, e in own_ops if e['op'] == 'add_front']
                    unlinked = [(i, e) for i, e in own_ops if e['op'] == 'remove']
                    # R4: a notified node goes back to waiting
                    if s0 == 'Notified' and relinked:
                        counts['R4'] += 1
                        if wakeup_after(path, wk, relinked[-1][0]):
                            R.ok('C06.R4', '%s|%s' % (m['path'], pc))
                        else:
                            R.fail('C06.R4', [m['path'], 'notified-requeued-without-wakeup'],
                                   '%s: a notified acquirer that finds too few permits re-queues itself and '
                                   'abandons its wake-up without re-running the wake-up walk; an older waiter '
                                   'whose request fits stays asleep [%s]' % (m['path'], pc),
                                   where(F, relinked[-1][1]), {'trace': trace_summary(path)})
                        continue
                    # R2: notified node consumed
                    if s0 == 'Notified' and ((final not in ('Notified', None) and final != 'Waiting') or
                                             (is_cancel and not subs)):
                        if subs and fair == 0:
                            continue  # unfair grant: everything that fits was already notified
                        counts['R2'] += 1
                        if wakeup_after(path, wk, last_own):
                            R.ok('C06.R2', '%s|%s' % (m['path'], pc))
                        else:
                            R.fail('C06.R2', [m['path'], 'notified-consumed-without-wakeup',
                                              'grant' if subs else 'drop'],
                                   '%s: a notified acquirer %s without the wake-up walk being re-run afterwards '
                                   '[%s]' % (m['path'], 'acquires on a fair semaphore' if subs else 'is dropped',
                                             pc), '%s:%s' % (m['file'], m['line']), {'trace': trace_summary(path)})
                        continue
                    # R3: own node unlinked without taking permits
                    if unlinked and not subs:
                        counts['R3'] += 1
                        if wakeup_after(path, wk, unlinked[-1][0]):
                            R.ok('C06.R3', '%s|%s' % (m['path'], pc))
                        else:
                            R.fail('C06.R3', [m['path'], 'waiting-cancelled-without-wakeup'],
                                   '%s: a waiting acquirer is unlinked (cancelled) without re-running the wake-up '
                                   'walk; if it was the head, a request behind it that fits stays asleep [%s]' % (
                                       m['path'], pc), where(F, unlinked[-1][1]), {'trace': trace_summary(path)})
            # R8: an acquirer starts waiting only when its request does not fit, or - fair mode - somebody is
            # queued ahead of it and the request is not for zero permits
            for path in paths:
                if path.exit != 'return' or poll_variant(E, path) != 'Pending':
                    continue
                for root in owns:
                    parks = [e for e in path.events if e['k'] == 'qop' and e['op'] == 'add_front' and e['node'][:1] == root]
                    if not parks:
                        continue
                    req = ('init', root + ('data', 'required_permits'))
                    too_few = cmp_fact(E, path.facts, 'Lt', ('init', (('P', 'self'), 'permits')), req) == 1
                    fair = const_of(E, path.facts, ('init', (('P', 'self'), 'is_fair')))
                    nonempty = any(isinstance(k, tuple) and k and k[0] == 'qempty' and v == ('eq', 0)
                                   for k, v in path.facts.items()) or \
                        any(e['k'] == 'qop' and e['op'].startswith('peek') and e.get('node') is not None
                            for e in path.events)     # (a peek that returned a node: somebody is queued)
                    nonzero = const_of(E, path.facts, ('bin', 'Eq', req, ('const', 0))) == 0 or \
                        (path.facts.get(req) or ('', None))[0] == 'ne'
                    if too_few or (fair == 1 and nonempty and nonzero):
                        R.ok('C06.R8', '%s|parks: %s|%s' % (m['path'], 'too few permits' if too_few else
                                                              'fair, queued behind others', path_cond(E, path)))
                    else:
                        R.fail('C06.R8', [m['path'], 'parks-although-request-fits', path_cond(E, path)],
                               '%s queues the acquirer and returns Pending on a path that has established neither '
                               'permits < required nor (fair, others queued, non-zero request): nobody will wake it '
                               '[%s]' % (m['path'], path_cond(E, path)), where(F, parks[0]),
                               {'trace': trace_summary(path)})
            # R7: a notified acquirer acquires unless the path has established that its request does NOT fit
            for path in paths:
                for root in owns:
                    sloc = root + ('data', 'state')
                    if path.facts.get(('discr', ('init', sloc))) != ('eq', 'Notified'):
                        continue
                    if not method_role(F, m)[1]:
                        continue   # only the poll function (it takes the task context)
                    req = ('init', root + ('data', 'required_permits'))
                    too_few = cmp_fact(E, path.facts, 'Lt', ('init', (('P', 'self'), 'permits')), req) == 1
                    if path.exit == 'return' and poll_variant(E, path) == 'Ready':
                        R.ok('C06.R7', '%s|notified => acquires|%s' % (m['path'], path_cond(E, path)))
                    elif path.exit == 'panic' and any(e['k'] == 'qop' and e['op'] == 'remove' for e in path.events):
                        continue   # failed-unlink panic: infeasible by C01.I1
                    elif too_few:
                        R.ok('C06.R7', '%s|notified, permits < required => waits|%s' % (m['path'], path_cond(E, path)))
                    else:
                        R.fail('C06.R7', [m['path'], 'notified-acquirer-does-not-take-fitting-permits', path.exit],
                               '%s: a notified acquirer does not acquire (%s) on a path that has not established '
                               'permits < required [%s]' % (m['path'], 'panics' if path.exit == 'panic' else
                                                            'stays pending', path_cond(E, path)),
                               '%s:%s' % (m['file'], m['line']), {'trace': trace_summary(path)})
            w4_pending_stores_waker(R, E, F, m, paths, 'C06.R6')
        w4_helper(R, E, F, 'C06.R6h')
        R.floor('C06.R1 permit-increase-paths[%s]' % cfg, counts['R1'], 1)
        R.floor('C06.R2 notified-consumed-paths[%s]' % cfg, counts['R2'], 2)
        R.floor('C06.R3 cancel-paths[%s]' % cfg, counts['R3'], 1)
        R.floor('C06.R4 requeue-paths[%s]' % cfg, counts['R4'], 1)
        # R5: the walk itself
        paths = E.run(wk['path'])
        R.add_paths(wk['path'], len(paths))
        fifo_ends(R, E, F, wk, paths, 'C06.R5')
        nnot = 0
        for path in paths:
            if path.exit != 'return':
                continue
            pc = path_cond(E, path)
            toks = [e for e in path.events if e['k'] == 'qop' and e['op'].startswith('peek') and e.get('node')]
            fair = const_of(E, path.facts, ('init', (('P', 'self'), 'is_fair')))
            if fair == 1 and len(toks) > 1:
                R.fail('C06.R5', [wk['path'], 'fair-walk-notifies-more-than-head'],
                       'the fair wake-up walk examines more than the oldest waiter', where(F, toks[1]))
            for e in path.events:
                if not (e['k'] == 'write' and e['loc'][0][0] == 'tok' and loc_endswith(e['loc'], 'state')
                        and e['val'][0] == 'agg' and e['val'][2] == 'Notified' and effective(E, path, e)):
                    continue     # (Notified stored over Notified notifies nobody anew)
                nnot += 1
                tok = e['loc'][:1]
                req = ('init', tok + ('data', 'required_permits'))
                fits = False
                for k, v in path.facts.items():
                    if isinstance(k, tuple) and k and k[0] == 'bin' and k[1] in ('Lt', 'Ge', 'Le', 'Gt'):
                        for avail in (k[2], k[3]):
                            if contains(avail, ('init', (('P', 'self'), 'permits'))) and \
                                    cmp_fact(E, path.facts, 'Ge', avail, req) == 1:
                                fits = True
                task = ('init', tok + ('data', 'task'))
                tk = E.variant_known(path.facts, task)
                inner = E.project(task, (('dc', 'Some'), '0'))
                woken = any(w['k'] == 'wake' and w['waker'] in (task, inner) for w in path.events)
                if not fits:
                    R.fail('C06.R5', [wk['path'], 'notify-without-fit-test'],
                           'a waiter is notified without `available >= required_permits` on the path [%s]' % pc,
                           where(F, e), {'trace': trace_summary(path)})
                elif not (woken or (tk and tk == ('eq', 'None'))):
                    R.fail('C06.R5', [wk['path'], 'notify-without-wake'],
                           'a waiter is marked Notified but its stored waker is not woken [%s]' % pc,
                           where(F, e), {'trace': trace_summary(path)})
                else:
                    R.ok('C06.R5', '%s|%s' % (wk['path'], pc),
                         {'function': wk['path'], 'notified': 'tail token', 'guard': 'available >= required',
                          'woken': woken})
        R.floor('C06.R5 notify-instances[%s]' % cfg, nnot, 2)
