"""C18 — no heap allocation at runtime for non-growing flavours (call-graph effect analysis)."""
import json
from rl import (loc_endswith, path_cond, trace_summary, const_of, fmt_val)
from common import scan_calls
from lib import CheckerError

# classification of every alloc/std callee the crate uses (unknown => treated as allocating)
NON_ALLOCATING = {
    '<std::sync::Arc<T, A> as std::clone::Clone>::clone': 'reference-count increment only',
    '<std::sync::Arc<T, A> as std::ops::Deref>::deref': 'pointer dereference',
    'std::sync::Arc::<T, A>::as_ptr': 'pointer read',
    'std::sync::Arc::<T, A>::ptr_eq': 'pointer compare',
    'std::collections::VecDeque::<T, A>::len': 'field read',
    'std::collections::VecDeque::<T, A>::is_empty': 'field read',
    'std::collections::VecDeque::<T, A>::capacity': 'field read',
    'std::collections::VecDeque::<T, A>::pop_front': 'removes an element; never reallocates',
    'std::collections::VecDeque::<T, A>::pop_back': 'removes an element; never reallocates',
    'std::collections::VecDeque::<T, A>::clear': 'drops the elements, keeps the allocation (documented)',
    'std::collections::VecDeque::<T, A>::truncate': 'drops elements, keeps the allocation',
    'std::collections::VecDeque::<T, A>::front': 'element access',
    'std::collections::VecDeque::<T, A>::back': 'element access',
    'std::collections::VecDeque::<T>::new': 'VecDeque::new() does not allocate (documented: "Creates an empty deque")',
    'std::time::Instant::now': 'clock read',
    '<std::time::Instant as std::ops::Sub>::sub': 'arithmetic',
    'std::time::Instant::elapsed': 'clock read + arithmetic',
    'std::time::Instant::duration_since': 'arithmetic',
    'std::time::Instant::saturating_duration_since': 'arithmetic',
    'std::time::Instant::checked_duration_since': 'arithmetic',
}
ALLOCATING = {
    'std::sync::Arc::<T>::new': 'allocates the shared state',
    'std::collections::VecDeque::<T>::with_capacity': 'pre-allocates the ring',
    'std::collections::VecDeque::<T, A>::push_back': 'may grow the ring',
}
PANIC_MACHINERY = ('std::rt::begin_panic', 'std::rt::panic_fmt', 'std::panicking::')

GROWING = 'buffer::ring_buffer::if_alloc::GrowingHeapBuf'
FIXED = 'buffer::ring_buffer::if_alloc::FixedHeapBuf'


def is_constructor(fn):
    """role: no `self` receiver AND the return type contains a crate type (it builds a primitive,
    a buffer or handles) — a free helper returning () is not a constructor"""
    if fn['kind'] == 'closure':
        return False
    for d in fn['debug']:
        if d['name'] == 'self' and not d['place']['p'] and d['place']['l'] == 1:
            return False
    from facts import ty_adt_paths
    ret = fn['locals'][0]['ty']
    return any(not p.startswith('std::') for p in ty_adt_paths(ret)) or ret.get('k') == 'param'


def strip(o):
    if isinstance(o, dict):
        return {k: strip(v) for k, v in o.items()
                if k not in ('ln', 'file', 'line', 'call_ln', 'exp', 'reachable', 'gargs_str')}
    if isinstance(o, list):
        return [strip(x) for x in o]
    if isinstance(o, str) and 'DefId(' in o:
        import re
        return re.sub(r'DefId\([^)]*\)', 'DefId', o)
    return o


def run(C, R):
    R.explanation = ('A. compile witness: the --no-default-features configuration type-checks with no callee in crate '
                     'alloc or std anywhere (every Generic*/Local* primitive, borrowed future, ArrayBuf and the '
                     'intrusive collections have no allocator API in scope).  B. effect analysis, run on EVERY '
                     'feature configuration\'s own MIR (so nothing has to transfer between builds): every call '
                     '(non-cleanup) whose '
                     'resolved callee lives in alloc/std is classified by a frozen table (unknown => allocating); '
                     'allocating callees are allowed only in constructors (no self receiver), in '
                     'GrowingHeapBuf::push (the stated exception) and in FixedHeapBuf::push where push_back is '
                     'dominated by can_push() with cap being what with_capacity pre-allocated; Debug::fmt and panic '
                     'machinery are outside "runtime operations".  C. so no container of wakers can be built on a '
                     'wake path.')
    R.trusted += ['rustc nightly MIR + resolved callees', 'the classification table in rules/props/c18.py',
                  'std documentation of VecDeque/Arc for the non-allocating entries']
    R.assumptions += ['user code (Waker vtable, payload Clone/Drop, user RingBuf, Clock) and the lock type\'s internals '
                      '(parking_lot parking table) are outside the crate',
                      'dropping the last Arc handle (incl. a shared future holding one) is destruction of the primitive']
    cfgs = ['std', 'alloc', 'none'] if C.tier == 'thorough' else ['std', 'none']
    facts = {c: C.facts(c) for c in cfgs}
    R.configs += cfgs
    # ---- A
    Fn = facts['none']
    bad = []
    nfn = 0
    for fn in Fn.raw['fns']:
        nfn += 1
        for b in fn['blocks']:
            t = b['term']
            if t['k'] == 'call' and 'fn' in t['func']:
                ci = t['func']['fn']
                r = ci.get('resolved') or {}
                kr = r.get('krate') or ci['krate']
                if kr in ('alloc', 'std'):
                    bad.append((fn, t, r.get('path') or ci['path']))
    R.floor('C18.A functions-in-no-default-features-build', nfn, 150)
    if bad:
        for fn, t, p in bad:
            R.fail('C18.A', [fn['path'], p], 'the no_std build calls %s in %s' % (p, fn['path']), Fn.loc(fn, t['ln']))
    else:
        R.ok('C18.A', 'no alloc/std callee in %d functions of the --no-default-features build' % nfn,
             {'config': 'none', 'functions': nfn, 'alloc_or_std_callees': 0})
    # ---- B
    for cfg in cfgs:
        if cfg == 'none':
            continue
        F = facts[cfg]
        E = C.engine(cfg)
        nsite = 0
        for fn in F.raw['fns']:
            tr = fn.get('impl_trait') or ''
            for b in fn['blocks']:
                if b['cleanup']:
                    continue
                t = b['term']
                if t['k'] != 'call' or 'fn' not in t['func']:
                    continue
                ci = t['func']['fn']
                r = ci.get('resolved') or {}
                kr = r.get('krate') or ci['krate']
                if kr not in ('alloc', 'std'):
                    continue
                p = r.get('path') or ci['path']
                nsite += 1
                subj = '%s|%s|%s' % (cfg, fn['path'], p)
                if p in NON_ALLOCATING:
                    R.ok('C18.B', subj + '|non-allocating', {'site': fn['path'], 'callee': p,
                                                             'class': 'non-allocating: ' + NON_ALLOCATING[p]})
                    continue
                if any(p.startswith(x) for x in PANIC_MACHINERY):
                    R.ok('C18.B', subj + '|panic path')
                    continue
                if tr.endswith('fmt::Debug'):
                    R.ok('C18.B', subj + '|Debug::fmt (not a runtime operation of the property)')
                    continue
                cls = 'allocating' if p in ALLOCATING else 'unknown (treated as allocating)'
                root = fn
                while root['kind'] == 'closure':
                    root = F.fn(root['parent'])
                from rl import is_private_helper, lift_private_callers
                CG_ = C.cg(cfg)
                if is_private_helper(F, CG_, root) and not is_constructor(root):
                    # a private helper (free function, provided method of a private trait): the operation that allocates
                    # is whoever calls it - every one of them must be a place where allocation is allowed
                    ups = [F.fn(c_) or {} for c_ in lift_private_callers(F, CG_, root['path'])]
                    okc = bool(ups) and all(is_constructor(u) or (u.get('impl_adt') == GROWING and u.get('name') == 'push')
                                            or (u.get('impl_adt') == FIXED and u.get('name') == 'push' and p.endswith('push_back'))
                                            for u in ups)
                    if okc:
                        R.ok('C18.B', subj + '|private helper of constructors / the stated exceptions')
                    else:
                        R.fail('C18.B', [fn['path'], p],
                               '%s calls %s (%s) and is reached from %s: a runtime operation of a non-growing flavour '
                               'allocates' % (fn['path'], p, cls, [u.get('path') for u in ups][:4]), F.loc(fn, t['ln']))
                elif is_constructor(root):
                    R.ok('C18.B', subj + '|constructor', {'site': fn['path'], 'callee': p, 'class': cls,
                                                          'allowed_because': 'constructor (no self receiver)'})
                elif root.get('impl_adt') == GROWING and root.get('name') == 'push':
                    R.ok('C18.B', subj + '|GrowingHeapBuf::push (stated exception)')
                elif root.get('impl_adt') == FIXED and root.get('name') == 'push' and p.endswith('push_back'):
                    R.ok('C18.B', subj + '|FixedHeapBuf::push (bounded by cap, see B3)')
                else:
                    R.fail('C18.B', [fn['path'], p],
                           '%s calls %s (%s) outside a constructor: a runtime operation of a non-growing flavour '
                           'allocates' % (fn['path'], p, cls), F.loc(fn, t['ln']))
        R.floor('C18.B alloc/std-call-sites[%s]' % cfg, nsite, 60)
        # transitive: whoever calls an allocating function (or a buffer constructor through the RingBuf
        # trait) must itself be a constructor, up to the public API
        CG = C.cg(cfg)
        allocating = set()
        for fn in F.raw['fns']:
            if (fn.get('impl_trait') or '').endswith('fmt::Debug'):
                continue
            for rp, ci, ln, bi, cl in CG.callees.get(fn['path'], []):
                if cl:
                    continue
                r = ci.get('resolved') or {}
                kr = r.get('krate') or ci['krate']
                if kr in ('alloc', 'std') and rp not in NON_ALLOCATING and not any(rp.startswith(x) for x in PANIC_MACHINERY):
                    allocating.add(CG.root_fn(fn['path']))
                if (ci.get('trait') or '').endswith('RingBuf') and ci['name'] in ('new', 'with_capacity'):
                    allocating.add(CG.root_fn(fn['path']))
        changed = True
        while changed:
            changed = False
            for fn in F.raw['fns']:
                root = CG.root_fn(fn['path'])
                if root in allocating or (fn.get('impl_trait') or '').endswith('fmt::Debug'):
                    continue
                for rp, ci, ln, bi, cl in CG.callees.get(fn['path'], []):
                    if not cl and rp in allocating:
                        allocating.add(root)
                        changed = True
                        break
        for p in sorted(allocating):
            fn = F.fn(p)
            from rl import is_private_helper as _iph
            if _iph(F, CG, fn) and not is_constructor(fn):
                continue     # transparent: its callers are in the set too and are judged
            if is_constructor(fn) or (fn.get('impl_adt') in (GROWING, FIXED) and fn.get('name') == 'push'):
                R.ok('C18.B', '%s|transitively allocating|constructor or stated exception|%s' % (cfg, p))
            else:
                R.fail('C18.B', [p, 'reaches-allocation'],
                       '%s (not a constructor) reaches a heap allocation through its callees' % p,
                       '%s:%s' % (fn['file'], fn['line']))
        # B3: FixedHeapBuf: push_back only under can_push, cap == with_capacity argument
        push = F.one_fn(impl_adt=FIXED, name='push')
        for path in E.run(push['path']):
            pbs = [e for e in path.events if e['k'] == 'call' and e['name'] == 'push_back']
            if not pbs:
                continue
            guarded = False
            for e in path.events:
                if e['k'] == 'call' and e['name'] == 'can_push' and e.get('ret') is not None:
                    pass
            # can_push is inlined: len != cap
            for k, v in path.facts.items():
                if isinstance(k, tuple) and k and k[0] == 'bin' and k[1] in ('Ne', 'Eq') and \
                        any(x[0] == 'init' and loc_endswith(x[1], 'cap') for x in k[2:4] if isinstance(x, tuple)):
                    if (k[1] == 'Ne' and v == ('eq', 1)) or (k[1] == 'Eq' and v == ('eq', 0)):
                        guarded = True
                # ... or len != the VecDeque's own capacity() (push_back reallocates only at len == capacity)
                if isinstance(k, tuple) and k and k[0] == 'bin' and k[1] in ('Ne', 'Eq'):
                    rets = {}
                    for e in path.events:
                        if e['k'] == 'call' and e['name'] in ('len', 'capacity') and 'VecDeque' in e['callee']:
                            rets[e['ret']] = e['name']
                    if sorted(rets.get(x) or '' for x in k[2:4]) == ['capacity', 'len'] and \
                            ((k[1] == 'Ne' and v == ('eq', 1)) or (k[1] == 'Eq' and v == ('eq', 0))):
                        guarded = True
            if guarded and path.exit == 'return':
                R.ok('C18.B3', '%s|push_back under len != cap' % push['path'])
            elif path.exit == 'return':
                R.fail('C18.B3', [push['path'], 'unbounded-push-back'],
                       'FixedHeapBuf::push reaches VecDeque::push_back without the len != cap test: the '
                       'pre-allocated ring may grow', '%s:%s' % (push['file'], push['line']),
                       {'trace': trace_summary(path)})
        wc = F.one_fn(impl_adt=FIXED, name='with_capacity')
        has_cap_field = any(f['name'] == 'cap' for f in F.adt(FIXED)['variants'][0]['fields'])
        if not has_cap_field:
            R.ok('C18.B3', '%s|no stored limit: push is bounded by VecDeque::capacity() itself' % wc['path'])
        for path in (E.run(wc['path']) if has_cap_field else []):
            calls = [e for e in path.events if e['k'] == 'call' and e['name'] == 'with_capacity']
            rv = path.ret
            cap = dict(rv[3]).get('cap') if rv[0] == 'agg' else None
            if calls and cap is not None and calls[0]['args'][0] == cap and cap[0] == 'param':
                R.ok('C18.B3', '%s|cap == pre-allocated capacity' % wc['path'])
            else:
                R.fail('C18.B3', [wc['path'], 'cap-mismatch'],
                       'FixedHeapBuf::with_capacity: the stored limit is not the pre-allocated capacity',
                       '%s:%s' % (wc['file'], wc['line']))
        from common import scan_field_writes
        for fn, s in scan_field_writes(F, 'cap', 'buffer::ring_buffer'):
            R.fail('C18.B3', [fn['path'], 'cap-reassigned'], 'FixedHeapBuf.cap is reassigned in %s' % fn['path'],
                   F.loc(fn, s['ln']))
