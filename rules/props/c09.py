"""C09 — mpmc is a bounded FIFO (structure: capacity guard, refill, FIFO ends, success only after transfer)."""
from rl import (method_role, entry_methods, loc_endswith, path_cond, trace_summary, where, const_of, fmt_val, fmt_loc, fields_of)
from common import fifo_ends, contains, poll_variant, own_node_roots, fair_no_requeue
from lib import CheckerError

STATE = 'channel::mpmc::ChannelState'


def buf_calls(path):
    return [(i, e) for i, e in enumerate(path.events)
            if e['k'] == 'call' and 'RingBuf' in e['callee'] and e['name'] in ('push', 'pop', 'can_push', 'is_empty', 'len')]


def _handed_out(path, v):
    """the popped value is passed on, by value, to code outside the crate that the caller supplied (an `Extend`
    sink, a callback): a delivery like returning it - not a drop"""
    for e in path.events:
        if e['k'] == 'call' and e.get('mode') == 'opaque' and e['name'] not in ('drop', 'drop_in_place', 'forget') \
                and not (e.get('ci') or {}).get('rlocal') and any(contains(a, v) for a in e.get('args', ())):
            return True
    return False


def run(C, R):
    R.explanation = ('R1 capacity: every RingBuf::push on a MIR path of the channel state functions is preceded by '
                     'can_push() == true on the same buffer state, or by a pop() with no push in between (the '
                     'refill); R2 a pop() in the receive path is followed, in the same critical section, by the '
                     'attempt to refill the freed slot from the OLDEST parked sender (tail), whose state becomes '
                     'SendComplete and whose value is the one pushed; R3 FIFO ends for both queues; R4 a send '
                     'reports success only after pushing its own value or in state SendComplete, which is written '
                     'only together with taking that sender\'s value; R5 a value is taken directly from a parked '
                     'sender to the receiver only under buffer.is_empty(); R7 a parked sender or receiver is never re-inserted (the own node is enqueued '
                     'only when it entered the transition in an unlinked state), so the tail stays the oldest.  Order across whole interleavings and '
                     'the buffers\' own FIFO (C19) are not decided here.')
    R.trusted += ['rustc nightly MIR', 'queue-op summaries (C20)', 'RingBuf contract (C19)']
    R.assumptions += ['RingBuf::push/pop are FIFO (C19, user buffers opaque)']
    for cfg in C.configs():
        F = C.facts(cfg)
        E = C.engine(cfg)
        CG = C.cg(cfg)
        R.configs.append(cfg)
        from common import constructor_state
        constructor_state(R, C.engine(cfg), C.facts(cfg), STATE, {'is_closed': ('const', 0), 'buffer': ('param', 'buffer'), 'receive_waiters': 'empty-queue', 'send_waiters': 'empty-queue'}, 'C09.R0')
        from common import wrapper_discipline
        R.floor('C09.W wrapper-paths[%s]' % cfg, wrapper_discipline(C, R, cfg, ['channel::mpmc::ChannelState'], 'C09.W'), 2)
        npush = npop = nsucc = nsc = ndirect = nq = nenq = 0
        # the state layer's atomic transitions, and - so that a wrapper reaching around them is seen too -
        # every method of the channel type itself (state functions inlined)
        subjects = list(entry_methods(F, CG, STATE))
        subjects += [f for f in F.raw['fns'] if f.get('impl_adt') == 'channel::mpmc::GenericChannel'
                     and f['kind'] != 'closure' and not (f.get('impl_trait') or '').endswith('fmt::Debug')]
        for m in subjects:
            paths = E.run(m['path'])
            R.add_paths(m['path'], len(paths))
            owns = own_node_roots(F, m)
            for path in paths:
                if path.exit != 'return':
                    continue
                pc = path_cond(E, path)
                bc = buf_calls(path)
                # R1
                for n, (i, e) in enumerate(bc):
                    if e['name'] != 'push':
                        continue
                    npush += 1
                    ok = None
                    for j in range(n - 1, -1, -1):
                        pe = bc[j][1]
                        if pe['name'] == 'push':
                            break
                        if pe['name'] == 'pop':
                            ok = 'slot freed by pop()'
                            break
                        if pe['name'] == 'can_push' and const_of(E, path.facts, pe['ret']) == 1:
                            ok = 'can_push() == true'
                            break
                    if ok:
                        R.ok('C09.R1', '%s|%s|%s' % (m['path'], ok, pc), {'function': m['path'], 'push_guard': ok})
                    else:
                        R.fail('C09.R1', [m['path'], 'push-without-capacity-test'],
                               '%s pushes into the buffer without can_push() == true or a preceding pop() on the '
                               'path [%s]' % (m['path'], pc), where(F, e), {'trace': trace_summary(path)})
                # R2
                for n, (i, e) in enumerate(bc):
                    if e['name'] != 'pop' or not (contains(path.ret, e['ret']) or _handed_out(path, e['ret'])):
                        # a popped value that is not delivered (dropped on the spot, in whatever spelling) is the
                        # discard of the last receiver: C08.R1/R2 judge that; R2 is about the receive path
                        continue
                    npop += 1
                    # (the oldest sender may be taken off the queue before or after the pop - it is one critical
                    # section; its value goes into the buffer after the pop, which R1 requires anyway)
                    refill = [(k, q) for k, q in enumerate(path.events) if q['k'] == 'qop'
                              and q['op'] in ('remove_last',) and loc_endswith(q['queue'], 'send_waiters')]
                    if not refill:
                        R.fail('C09.R2', [m['path'], 'pop-without-refill'],
                               '%s frees a buffer slot and does not offer it to the oldest parked sender in the '
                               'same critical section: a later send could overtake it [%s]' % (m['path'], pc),
                               where(F, e), {'trace': trace_summary(path)})
                        continue
                    k, q = refill[0]
                    if q['node'] is None:
                        R.ok('C09.R2', '%s|no parked sender|%s' % (m['path'], pc))
                        continue
                    tok = q['node']
                    takes = [t for t in path.events[k:] if t['k'] == 'take' and t['loc'] == tok + ('data', 'value')]
                    pushed = False
                    if takes:
                        x = takes[0]['old']
                        inner = E.project(x, (('dc', 'Some'), '0'))
                        pushed = any(c['k'] == 'call' and c['name'] == 'push' and c['args'][1] in (x, inner)
                                     for c in path.events[max(k, i):])
                    sc = any(w['k'] == 'write' and w['loc'] == tok + ('data', 'state') and w['val'][0] == 'agg'
                             and w['val'][2] == 'SendComplete' for w in path.events[k:])
                    if takes and pushed and sc:
                        R.ok('C09.R2', '%s|refilled from tail|%s' % (m['path'], pc),
                             {'function': m['path'], 'after': 'buffer.pop()', 'refill': 'oldest sender value pushed'})
                    else:
                        R.fail('C09.R2', [m['path'], 'refill-incomplete'],
                               '%s removes the oldest parked sender after a pop() but take=%s push=%s '
                               'SendComplete=%s' % (m['path'], bool(takes), pushed, sc), where(F, q),
                               {'trace': trace_summary(path)})
                # R4 success
                if method_role(F, m)[0] == 'send':
                    rv = path.ret
                    success = False
                    if rv[0] == 'agg' and rv[1] == 'std::result::Result':
                        success = rv[2] == 'Ok'
                    elif rv[0] == 'tuple':
                        success = poll_variant(E, path) == 'Ready' and rv[1][1] == ('agg', 'std::option::Option', 'None', ())
                    if success:
                        nsucc += 1
                        own_pushed = False
                        for i, e in bc:
                            if e['name'] == 'push':
                                v = e['args'][1]
                                if v[0] == 'param' or (v[0] == 'init' and v[1][0][0] == 'P' and v[1][0][1] != 'self'):
                                    own_pushed = True
                        s0 = None
                        for root in owns:
                            k0 = path.facts.get(('discr', ('init', root + ('data', 'state'))))
                            s0 = k0[1] if k0 and k0[0] == 'eq' else None
                        if own_pushed or s0 == 'SendComplete':
                            R.ok('C09.R4', '%s|%s|%s' % (m['path'], 'pushed' if own_pushed else 'SendComplete', pc))
                        else:
                            R.fail('C09.R4', [m['path'], 'success-without-transfer'],
                                   '%s reports a successful send although the value was neither stored in the '
                                   'buffer nor taken by a receiver [%s]' % (m['path'], pc),
                                   '%s:%s' % (m['file'], m['line']), {'trace': trace_summary(path)})
                # R4b SendComplete only with take; R5 direct hand-over only when the buffer is empty
                for e in path.events:
                    if e['k'] == 'write' and loc_endswith(e['loc'], 'state') and e['val'][0] == 'agg' \
                            and e['val'][2] == 'SendComplete':
                        nsc += 1
                        node = e['loc'][:1]
                        if any(t['k'] == 'take' and t['loc'] == node + ('data', 'value') for t in path.events):
                            R.ok('C09.R4', '%s|SendComplete-with-take|%s' % (m['path'], pc))
                        else:
                            R.fail('C09.R4', [m['path'], 'sendcomplete-without-take'],
                                   '%s marks a sender SendComplete without taking its value' % m['path'],
                                   where(F, e), {'trace': trace_summary(path)})
                    if e['k'] == 'take' and loc_endswith(e['loc'], 'value') and e['loc'][0][0] == 'tok':
                        x = e['old']
                        inner = E.project(x, (('dc', 'Some'), '0'))
                        if contains(path.ret, x) or contains(path.ret, inner):
                            ndirect += 1
                            empties = [b for _, b in bc if b['name'] == 'is_empty'
                                       and const_of(E, path.facts, b['ret']) == 1]
                            if empties:
                                R.ok('C09.R5', '%s|direct hand-over under is_empty|%s' % (m['path'], pc))
                            else:
                                R.fail('C09.R5', [m['path'], 'direct-handover-with-buffered-values'],
                                       '%s hands a parked sender\'s value directly to the receiver without the '
                                       'buffer being empty: buffered (older) values are overtaken [%s]' % (
                                           m['path'], pc), where(F, e), {'trace': trace_summary(path)})
            nq += fifo_ends(R, E, F, m, paths, 'C09.R3')
            # R7: a parked sender / receiver keeps its place: the own node is enqueued only when it entered unqueued
            from specs import TYPESTATE
            unl = set(v for tab in TYPESTATE[STATE].values() for v, linked in tab.items() if linked is False)
            nenq += fair_no_requeue(R, E, F, m, paths, own_node_roots(F, m), 'C09.R7', 'channel', None,
                                    fair_only=False, unlinked=unl,
                                    all_variants=set(v for tab in TYPESTATE[STATE].values() for v in tab))
        R.floor('C09.R7 enqueue-paths[%s]' % cfg, nenq, 2)
        # R8: buffered values leave the buffer towards a receiver - or are discarded by the LAST receiver only (then
        # the channel is closed and nobody is parked): a discard while receivers remain loses accepted values and frees
        # slots past the parked senders.  (Same instances as C08.R2, judged here for the bounded-FIFO claim.)
        n8 = 0
        for fn in F.raw['fns']:
            if fn['kind'] == 'closure' or not fn['path'].lstrip('<').startswith('channel::mpmc'):
                continue
            # (no syntactic pre-filter: the lock and the discard may sit in a helper or a closure the function calls)
            if not fn.get('reachable') and not fn.get('impl_trait') and fn['kind'] in ('fn', 'assoc') and \
                    [c for c, _ in CG.callers_of(fn['path']) if c != fn['path']]:
                continue     # a private helper: judged inlined into whoever calls it
            if fn.get('impl_adt') == STATE:
                continue     # the state functions themselves: R2 (delivery) and C08.R2 (what clear does)
            for path in E.run(fn['path']):
                if path.exit != 'return':
                    continue
                disc = [e for e in path.events if (e['k'] == 'call' and (
                    (e['name'] == 'clear' and e.get('mode') == 'inline' and 'ChannelState' in e['callee']) or
                    (e['name'] == 'pop' and 'RingBuf' in e.get('callee', '') and e.get('fn') == fn['path']
                     and not contains(path.ret, e['ret'])))) or
                    (e['k'] in ('replace', 'write') and e.get('loc') and fields_of(e['loc'])[-1:] == ('buffer',)
                     and '<locked>' in e['loc'])]     # the whole buffer swapped out
                if not disc:
                    continue
                n8 += 1
                subs = [e for e in path.events if e['k'] == 'call' and e['name'] == 'fetch_sub'
                        and e['args'][0][0] == 'ref' and fields_of(e['args'][0][1])[-1:] == ('receivers',)]
                last = any(const_of(E, path.facts, e['ret']) == 1 and e['args'][1] == ('const', 1) for e in subs)
                if last:
                    R.ok('C09.R8', '%s|buffered values discarded by the last receiver only|%s' % (fn['path'], path_cond(E, path)))
                else:
                    R.fail('C09.R8', [fn['path'], 'discard-while-receivers-remain'],
                           '%s discards buffered values on a path that is not the drop of the last receiver: accepted '
                           'values are lost and the freed slots let later sends overtake parked senders [%s]'
                           % (fn['path'], path_cond(E, path)), where(F, disc[0]), {'trace': trace_summary(path)})
        if cfg != 'none':
            R.floor('C09.R8 discard-paths[%s]' % cfg, n8, 1)
        R.floor('C09.R1 push-sites[%s]' % cfg, npush, 3)
        R.floor('C09.R2 pop-paths[%s]' % cfg, npop, 2)
        R.floor('C09.R4 success-paths[%s]' % cfg, nsucc, 3)
        R.floor('C09.R4 SendComplete-writes[%s]' % cfg, nsc, 2)
        R.floor('C09.R5 direct-handovers[%s]' % cfg, ndirect, 1)
        R.floor('C09.R3 queue-op-kinds[%s]' % cfg, nq, 5)
        if cfg != 'none':
            # R6: "capacity 0 => rendezvous" and "at most `capacity` accepted values" rest on the buffers
            # reporting the capacity they were asked for (same rule instances as C19.R4)
            from props.c19 import heap_variants
            heap_variants(R, E, F, 'C09.R6', cfg)
