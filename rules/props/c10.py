"""C10 — mpmc: no lost wake-up for receivers or senders (necessary rules)."""
from rl import (method_role, entry_methods, loc_endswith, path_cond, trace_summary, where, const_of, fmt_val, fmt_loc, fields_of)
from common import (w3_waker_use, w4_pending_stores_waker, w4_helper, contains, own_node_roots, poll_variant, waker_escapes, entered_unqueued)
from engine import NONE
from lib import CheckerError

STATE = 'channel::mpmc::ChannelState'
CHANNEL = 'channel::mpmc::GenericChannel'


def receiver_handover(E, path, after_idx):
    """after event `after_idx` the oldest parked receiver (tail) is taken; if there is one it is marked
    Notified and its waker is taken and returned"""
    for i, e in enumerate(path.events):
        if i <= after_idx:
            continue
        if e['k'] == 'qop' and e['op'] in ('remove_last', 'peek_last_mut') and loc_endswith(e['queue'], 'receive_waiters'):
            if e['node'] is None:
                return True, 'no parked receiver'
            tok = e['node']
            notified = any(w['k'] == 'write' and w['loc'] == tok + ('data', 'state') and w['val'][0] == 'agg'
                           and w['val'][2] == 'Notified' for w in path.events[i:])
            takes = [t for t in path.events[i:] if t['k'] == 'take' and t['loc'] == tok + ('data', 'task')]
            if not notified:
                return False, 'the oldest receiver is not marked Notified'
            if not takes:
                return False, 'the oldest receiver\'s waker is not taken'
            if not contains(path.ret, takes[0]['old']):
                return False, 'the receiver\'s waker is not returned to the caller'
            return True, 'oldest receiver notified'
    return False, 'the oldest parked receiver is not looked at'


def run(C, R):
    R.explanation = ('R1 every MIR path of the channel state functions that accepts a NEW value (push of the '
                     'caller\'s own value, or parking the caller\'s own sender node) afterwards takes the oldest '
                     'parked receiver, marks it Notified and returns its waker; R2 dropping a Notified receiver '
                     'forwards the wake-up the same way; R3 taking a value out of a parked sender also takes that '
                     'sender\'s waker and returns it; R4 close wakes everybody (drain of both queues with waking '
                     'closures); R5 (W3) every waker returned by a state function reaches Waker::wake in each '
                     'public wrapper; R6 (W4) Pending => the waker of this poll is stored.  Deadlock freedom under '
                     'all schedules is not decided.')
    R.trusted += ['rustc nightly MIR', 'queue-op summaries (C20)', 'lock_api::Mutex']
    R.assumptions += ['tasks re-poll when woken (executor), not decided here']
    for cfg in C.configs():
        F = C.facts(cfg)
        E = C.engine(cfg)
        CG = C.cg(cfg)
        R.configs.append(cfg)
        from common import futures_start_initial as _fsi
        R.floor('C10.R0 future-construction-paths[%s]' % cfg, _fsi(C, R, cfg, ['channel::mpmc::ChannelState'], 'C10.R0'), 2)
        from common import wrapper_discipline
        R.floor('C10.W wrapper-paths[%s]' % cfg, wrapper_discipline(C, R, cfg, ['channel::mpmc::ChannelState'], 'C10.W'), 2)
        n1 = n2 = n3 = 0
        for m in entry_methods(F, CG, STATE):
            paths = E.run(m['path'])
            R.add_paths(m['path'], len(paths))
            owns = own_node_roots(F, m)
            for path in paths:
                if path.exit != 'return':
                    continue
                pc = path_cond(E, path)
                # R1
                accepts = []
                for i, e in enumerate(path.events):
                    if e['k'] == 'call' and e['name'] == 'push' and 'RingBuf' in e['callee']:
                        v = e['args'][1]
                        if v[0] == 'param' or (v[0] == 'init' and v[1][0][0] == 'P' and v[1][0][1] != 'self'):
                            accepts.append((i, e, 'push of the own value'))
                    elif e['k'] == 'qop' and e['op'] == 'add_front' and loc_endswith(e['queue'], 'send_waiters') \
                            and e['node'][0][0] == 'P' and entered_unqueued(path, e['node'][:1], 'Unregistered'):
                        # (re-inserting a sender that is already parked offers nothing new: C09.R7 judges that)
                        accepts.append((i, e, 'own sender parked'))
                for i, e, what in accepts:
                    n1 += 1
                    ok, why = receiver_handover(E, path, i)
                    if ok:
                        R.ok('C10.R1', '%s|%s|%s' % (m['path'], what, pc),
                             {'function': m['path'], 'availability': what, 'hand_over': why})
                    else:
                        R.fail('C10.R1', [m['path'], 'value-available-without-receiver-wakeup', what],
                               '%s makes a value available (%s) but %s [%s]' % (m['path'], what, why, pc),
                               where(F, e), {'trace': trace_summary(path)})
                # R2
                for root, data in owns.items():
                    if 'Recv' not in data:
                        continue
                    sloc = root + ('data', 'state')
                    k0 = path.facts.get(('discr', ('init', sloc)))
                    if k0 != ('eq', 'Notified') or method_role(F, m)[1]:   # removal functions take no Context
                        continue
                    n2 += 1
                    ok, why = receiver_handover(E, path, -1)
                    if ok:
                        R.ok('C10.R2', '%s|%s' % (m['path'], pc))
                    else:
                        R.fail('C10.R2', [m['path'], 'notified-receiver-dropped-without-forwarding'],
                               '%s: a notified receiver is removed but %s [%s]' % (m['path'], why, pc),
                               '%s:%s' % (m['file'], m['line']), {'trace': trace_summary(path)})
                # R3
                for e in path.events:
                    if e['k'] == 'take' and loc_endswith(e['loc'], 'value') and e['loc'][0][0] == 'tok':
                        n3 += 1
                        tok = e['loc'][:1]
                        tt = [t for t in path.events if t['k'] == 'take' and t['loc'] == tok + ('data', 'task')]
                        if tt and contains(path.ret, tt[0]['old']):
                            R.ok('C10.R3', '%s|%s' % (m['path'], pc))
                        else:
                            R.fail('C10.R3', [m['path'], 'sender-value-taken-without-waking-sender'],
                                   '%s takes the value of a parked sender but does not return that sender\'s waker '
                                   '[%s]' % (m['path'], pc), where(F, e), {'trace': trace_summary(path)})
            # R7: a future parks only when it cannot make progress: a receiver only with an empty buffer, no parked
            # sender and an open channel; a sender only with a full buffer and an open channel
            for path in paths:
                if path.exit != 'return' or poll_variant(E, path) != 'Pending':
                    continue
                for e in path.events:
                    if not (e['k'] == 'qop' and e['op'] == 'add_front' and e['node'][0][0] == 'P'
                            and entered_unqueued(path, e['node'][:1], 'Unregistered')):
                        continue
                    q = fields_of(e['queue'])[-1]
                    open_ = const_of(E, path.facts, ('init', (('P', 'self'), 'is_closed'))) == 0
                    calls = [c for c in path.events if c['k'] == 'call' and 'RingBuf' in c['callee']]
                    if q == 'receive_waiters':
                        empty = any(c['name'] == 'is_empty' and const_of(E, path.facts, c['ret']) == 1 for c in calls)
                        no_sender = any(x['k'] == 'qop' and loc_endswith(x['queue'], 'send_waiters')
                                        and x['op'] in ('remove_last', 'peek_last_mut', 'peek_last')
                                        and x['node'] is None for x in path.events)
                        ok = empty and no_sender and open_
                        why = 'buffer empty=%s, no parked sender=%s, open=%s' % (empty, no_sender, open_)
                    else:
                        full = any(c['name'] == 'can_push' and const_of(E, path.facts, c['ret']) == 0 for c in calls)
                        ok = full and open_
                        why = 'buffer full=%s, open=%s' % (full, open_)
                    if ok:
                        R.ok('C10.R7', '%s|parks on %s: %s|%s' % (m['path'], q, why, path_cond(E, path)))
                    else:
                        R.fail('C10.R7', [m['path'], 'parks-although-it-could-proceed', q],
                               '%s parks the future on %s although the path has not established that it cannot '
                               'proceed (%s): nobody will wake it [%s]' % (m['path'], q, why, path_cond(E, path)),
                               where(F, e), {'trace': trace_summary(path)})
            w3_waker_use(R, E, F, m, paths, 'C10.R5', strict=False)
            w4_pending_stores_waker(R, E, F, m, paths, 'C10.R6')
        w4_helper(R, E, F, 'C10.R6h')
        R.floor('C10.R1 acceptance-paths[%s]' % cfg, n1, 3)
        R.floor('C10.R2 notified-receiver-removals[%s]' % cfg, n2, 1)
        R.floor('C10.R3 sender-value-takes[%s]' % cfg, n3, 2)
        # R4: close wakes all (same rule instance as C11.R2, evaluated here for the mpmc state)
        from props.c11 import flag_fact
        close = F.one_fn(impl_adt=STATE, name='close')
        for path in E.run(close['path']):
            if flag_fact(E, path, 'is_closed') != 0:
                continue
            drained = {}
            for e in path.events:
                if e['k'] == 'qop' and e['op'] in ('reverse_drain', 'drain'):
                    tok = e['node']
                    takes = [t for t in path.events if t['k'] == 'take' and t['loc'] == tok + ('data', 'task')]
                    woke = False
                    if takes:
                        x = takes[0]['old']
                        inner = E.project(x, (('dc', 'Some'), '0'))
                        k = E.variant_known(path.facts, x)
                        woke = any(w['k'] == 'wake' and w['waker'] in (x, inner) for w in path.events) or \
                            (k == ('eq', 'None'))
                        if not woke:
                            esc = waker_escapes(path, (x, inner))
                            if esc is not None:
                                raise CheckerError(
                                    'cannot judge %s: the wakers of the drained waiters are handed to caller-visible '
                                    'storage (%s) instead of being woken in the drain closure; this rule does not '
                                    'follow a collection of wakers to the place where it is woken'
                                    % (close['path'], where(F, esc)))
                    drained[fields_of(e['queue'])[-1]] = woke
            if drained.get('receive_waiters') and drained.get('send_waiters'):
                R.ok('C10.R4', '%s|%s' % (close['path'], path_cond(E, path)))
            else:
                R.fail('C10.R4', [close['path'], 'close-does-not-wake-all', str(sorted(drained.items()))],
                       'close() must wake every parked receiver and sender; drained+woken: %s' % drained,
                       '%s:%s' % (close['file'], close['line']))
        # R5 wrappers (strict)
        nw = 0
        for fn in F.raw['fns']:
            if fn.get('impl_adt') != CHANNEL or fn['kind'] == 'closure':
                continue
            if (fn.get('impl_trait') or '').endswith('fmt::Debug'):
                continue
            paths = E.run(fn['path'])
            R.add_paths(fn['path'], len(paths))
            nw += w3_waker_use(R, E, F, fn, paths, 'C10.R5', strict=True)
        R.floor('C10.R5 wrapper-take-instances[%s]' % cfg, nw, 5)
