"""C13 — state broadcast: ids strictly increase, delivery only of something newer, latest state."""
from rl import (method_role, entry_methods, loc_endswith, path_cond, trace_summary, where, const_of, fmt_val, fmt_loc, fields_of)
from common import (scan_field_writes, w4_pending_stores_waker, w4_helper, contains, poll_variant, cmp_fact)
from lib import CheckerError

STATE = 'channel::state_broadcast::ChannelState'
U64MAX = 18446744073709551615
SELF_ID = ('init', (('P', 'self'), 'state_id'))
SELF_ID0 = ('init', (('P', 'self'), 'state_id', '0'))


TRANSITIONS = ('send', 'close', 'try_receive', 'receive_or_register', 'remove_waiter')


def _only_for_send(F, CG, fn):
    """a private helper of the state struct (`advance_state_id`) that only `send` calls, directly or through other
    such helpers: its write is send's write (what send does with it on each path is judged below)"""
    from rl import is_private_helper
    if not is_private_helper(F, CG, fn) or fn.get('name') in TRANSITIONS:
        return False
    seen, work = set(), [fn['path']]
    while work:
        q = work.pop()
        cs = [c for c, _ in CG.callers_of(q) if c != q]
        if not cs:
            return False
        for c in cs:
            if c in seen:
                continue
            seen.add(c)
            cf = F.fn(c)
            if cf is None:
                return False
            if method_role(F, cf)[0] == 'send' and cf.get('impl_adt') == STATE:
                continue
            if cf.get('impl_adt') == STATE and is_private_helper(F, CG, cf) and cf.get('name') not in TRANSITIONS:
                work.append(c)
                continue
            return False
    return True


def run(C, R):
    R.explanation = ('R1 state_id is written only by `+= 1` in send, on the MIR path that stores the value and '
                     'drains the waiters with a waking closure, under !is_closed and id != u64::MAX: strictly '
                     'increasing by construction; R2 orientation: both delivery sites are guarded by '
                     'lt(requested, current) with the operands in that order (requested = the caller\'s id / the '
                     'waiter\'s id, current = self.state_id) and return (current id, clone of the stored value); '
                     'R3 None is delivered only when closed and nothing newer exists; R4 Pending stores the '
                     'current waker.  Convergence over interleavings is not decided.')
    R.trusted += ['rustc nightly MIR', 'derived PartialOrd on StateId(u64) (summarised as a comparison)',
                  'T::clone is opaque user code']
    for cfg in C.configs():
        F = C.facts(cfg)
        E = C.engine(cfg)
        R.configs.append(cfg)
        from rl import unknown_transitions as _unk
        for _st in ['channel::state_broadcast::ChannelState']:
            _u = _unk(C.facts(cfg), C.cg(cfg), _st, ('send', 'close', 'try_receive', 'receive_or_register', 'remove_waiter', 'receive', 'drop', 'poll', 'cancel'))
            if _u:
                raise CheckerError('cannot judge: %s act(s) as a transition of %s (mutates it directly / composes state '
                                   'calls) and this property has no rule for an operation of that name' % (', '.join(_u), _st))
        from common import slot_discipline as _sd
        R.floor('C13.R6 slot-accesses[%s]' % cfg, _sd(R, C.engine(cfg), C.facts(cfg), C.cg(cfg), 'channel::state_broadcast::ChannelState', 'C13.R6', may_take=False), 1)
        from common import futures_start_initial as _fsi
        R.floor('C13.R0f future-construction-paths[%s]' % cfg, _fsi(C, R, cfg, ['channel::state_broadcast::ChannelState'], 'C13.R0f'), 1)
        from common import constructor_state
        constructor_state(R, C.engine(cfg), C.facts(cfg), STATE, {'value': 'none', 'is_closed': ('const', 0), 'state_id': ('zero-id',), 'waiters': 'empty-queue'}, 'C13.R0')
        from common import wrapper_discipline
        R.floor('C13.W wrapper-paths[%s]' % cfg, wrapper_discipline(C, R, cfg, ['channel::state_broadcast::ChannelState'], 'C13.W'), 2)
        F.adt(STATE)
        # R1
        nw = 0
        for fn in F.raw['fns']:
            if not fn['path'].lstrip('<').startswith('channel::state_broadcast::'):
                continue
            for b in fn['blocks']:
                for s in b['stmts']:
                    if s['k'] != 'assign':
                        continue
                    p = s['place']['p']
                    names = [x.get('f') for x in p if isinstance(x, dict) and 'f' in x]
                    if 'state_id' in names and fn.get('impl_adt') == STATE and s['place']['l'] == 1:
                        nw += 1
                        if method_role(F, fn)[0] != 'send' and not _only_for_send(F, C.cg(cfg), fn):
                            R.fail('C13.R1', [fn['path'], 'id-write-outside-send'],
                                   'state_id is written in %s' % fn['path'], F.loc(fn, s['ln']))
        # ... and the stores made through a method of the id type itself (`self.state_id.advance()`), seen as write
        # events on the paths of the transitions
        from rl import entry_methods as _em13
        for m_ in _em13(F, C.cg(cfg), STATE):
            wrote = False
            for path in E.run(m_['path']):
                if any(e['k'] in ('write', 'replace') and e.get('loc') and e['loc'][:1] == (('P', 'self'),)
                       and fields_of(e['loc'])[:1] == ('state_id',) for e in path.events):
                    wrote = True
            if wrote:
                nw += 1
                if method_role(F, m_)[0] != 'send':
                    R.fail('C13.R1', [m_['path'], 'id-write-outside-send'],
                           'state_id is written on a path of %s' % m_['path'], '%s:%s' % (m_['file'], m_['line']))
        R.floor('C13.R1 id-write-sites[%s]' % cfg, nw, 1)
        send = F.one_fn(impl_adt=STATE, name='send')
        from common import payload_param as _pp13
        paths = E.run(send['path'])
        R.add_paths(send['path'], len(paths))
        for path in paths:
            if path.exit != 'return':
                continue
            # writes of the id: the inner counter, or the whole StateId
            ws = [e for e in path.events if e['k'] == 'write' and e['loc'][:1] == (('P', 'self'),) and
                  fields_of(e['loc']) in (('state_id', '0'), ('state_id',))]
            okret = path.ret[0] == 'agg' and path.ret[2] == 'Ok'
            closed = const_of(E, path.facts, ('init', (('P', 'self'), 'is_closed')))
            # `id == MAX` is excluded, in any spelling (id != MAX, !(id < MAX) == false, ...)
            from common import eq_fact
            maxed = eq_fact(E, path.facts, SELF_ID0, ('const', U64MAX))
            if maxed is None and cmp_fact(E, path.facts, 'Lt', SELF_ID0, ('const', U64MAX)) == 1:
                maxed = 0
            final_id0 = E.read(type('S', (), {'store': path.store})(), (('P', 'self'), 'state_id', '0'))
            if okret:
                stored = [e for e in path.events if e['k'] == 'write' and fields_of(e['loc']) == ('value',)
                          and e['val'][0] == 'agg' and e['val'][2] == 'Some' and contains(e['val'], _pp13(send))]
                drained = [e for e in path.events if e['k'] == 'qop' and e['op'] in ('reverse_drain', 'drain')]
                inc = len(ws) == 1 and final_id0 == ('bin', 'Add', SELF_ID0, ('const', 1))
                if inc and stored and drained and closed == 0 and maxed == 0:
                    R.ok('C13.R1', '%s|publish|%s' % (send['path'], path_cond(E, path)),
                         {'function': send['path'], 'id': 'state_id += 1', 'guards': '!is_closed & id != MAX',
                          'stores_value': True, 'drains_waiters': True})
                else:
                    R.fail('C13.R1', [send['path'], 'publish-path',
                                      'inc=%s stored=%s drained=%s closed=%s max=%s' % (
                                          inc, bool(stored), bool(drained), closed, maxed)],
                           'a successful send must increment the id by exactly one, store the value, wake the '
                           'waiters, under !is_closed and id != u64::MAX', '%s:%s' % (send['file'], send['line']),
                           {'trace': trace_summary(path)})
            else:
                if ws:
                    R.fail('C13.R1', [send['path'], 'id-changed-on-reject'], 'a rejected send changes the id',
                           where(F, ws[0]))
                else:
                    R.ok('C13.R1', '%s|reject|%s' % (send['path'], path_cond(E, path)))
        # R2 / R3
        ndel = 0
        for name, requested in (('try_receive', ('param', 'state_id')),
                                ('receive_or_register', ('init', (('P', 'wait_node'), 'data', 'state_id')))):
            fn = F.one_fn(impl_adt=STATE, name=name)
            if name == 'try_receive':
                # the requested id is the parameter of type StateId, whatever it is called
                _names = {}
                for d_ in fn['debug']:
                    if not d_['place']['p']:
                        _names.setdefault(d_['place']['l'], d_['name'])
                for i_ in range(1, fn['arg_count'] + 1):
                    if (fn['locals'][i_]['ty'].get('path') or '').endswith('StateId'):
                        requested = ('param', _names.get(i_, 'arg%d' % i_))
            if name == 'receive_or_register':
                from common import own_node_roots as _onr
                _own = (list(_onr(F, fn)) or [(('P', 'wait_node'),)])[0]
                requested = ('init', _own + ('data', 'state_id'))
            paths = E.run(fn['path'])
            R.add_paths(fn['path'], len(paths))
            for path in paths:
                if path.exit != 'return':
                    continue
                rv = path.ret
                if name == 'receive_or_register':
                    pv = poll_variant(E, path)
                    if pv != 'Ready':
                        continue
                    rv = rv[3][0][1]
                lt = cmp_fact(E, path.facts, 'Lt', requested, SELF_ID)
                wrong = cmp_fact(E, path.facts, 'Lt', SELF_ID, requested)
                if rv[0] == 'agg' and rv[2] == 'Some':
                    ndel += 1
                    tup = rv[3][0][1]
                    clones = [e for e in path.events if e['k'] == 'call' and e['name'] == 'clone' and e['args']
                              and e['args'][0][0] == 'ref' and 'value' in fields_of(e['args'][0][1])
                              and e['args'][0][1][0] == ('P', 'self')]
                    good_val = tup[0] == 'tuple' and len(tup[1]) == 2 and tup[1][0] == SELF_ID and clones \
                        and tup[1][1] == clones[0]['ret']
                    if lt == 1 and good_val:
                        R.ok('C13.R2', '%s|deliver|%s' % (fn['path'], path_cond(E, path)),
                             {'function': fn['path'], 'guard': 'lt(requested, self.state_id)',
                              'returns': '(self.state_id, clone(self.value))'})
                    else:
                        R.fail('C13.R2', [fn['path'], 'delivery', 'lt=%s reversed=%s value=%s' % (lt, wrong, bool(good_val))],
                               '%s delivers without `requested < current` in that orientation, or does not return '
                               '(current id, clone of the stored value): returns %s' % (fn['path'], fmt_val(rv)),
                               '%s:%s' % (fn['file'], fn['line']), {'trace': trace_summary(path)})
                elif name == 'receive_or_register':
                    closed = const_of(E, path.facts, ('init', (('P', 'self'), 'is_closed')))
                    kv = E.variant_known(path.facts, ('init', (('P', 'self'), 'value')))
                    if closed == 1 and (kv == ('eq', 'None') or lt == 0):
                        R.ok('C13.R3', '%s|none|%s' % (fn['path'], path_cond(E, path)))
                    else:
                        R.fail('C13.R3', [fn['path'], 'none-while-newer-or-open'],
                               'Ready(None) is returned although the channel is open or a newer state exists '
                               '(closed=%s, lt=%s, slot=%s)' % (closed, lt, kv), '%s:%s' % (fn['file'], fn['line']),
                               {'trace': trace_summary(path)})
            if name == 'receive_or_register':
                w4_pending_stores_waker(R, E, F, fn, paths, 'C13.R4')
                # a receiver parks only when nothing newer exists and the channel is open
                for path in paths:
                    if path.exit != 'return' or poll_variant(E, path) != 'Pending':
                        continue
                    parks = [e for e in path.events if e['k'] == 'qop' and e['op'] == 'add_front']
                    if not parks:
                        continue
                    closed = const_of(E, path.facts, ('init', (('P', 'self'), 'is_closed')))
                    kv = E.variant_known(path.facts, ('init', (('P', 'self'), 'value')))
                    lt = cmp_fact(E, path.facts, 'Lt', requested, SELF_ID)
                    if closed == 0 and (kv == ('eq', 'None') or lt == 0):
                        R.ok('C13.R3', '%s|parks: nothing newer, open|%s' % (fn['path'], path_cond(E, path)))
                    else:
                        R.fail('C13.R3', [fn['path'], 'parks-although-newer-or-closed'],
                               'a receiver is queued although the path has not established "nothing newer and open" '
                               '(closed=%s, slot=%s, requested<current=%s)' % (closed, kv, lt), where(F, parks[0]),
                               {'trace': trace_summary(path)})
        R.floor('C13.R2 delivery-paths[%s]' % cfg, ndel, 2)
        w4_helper(R, E, F, 'C13.R4h')
