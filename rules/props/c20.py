"""C20 — intrusive list and pairing heap: every function agrees, path by path, with the canonical
link-surgery schema of a doubly linked list / pairing heap (removed nodes carry no links, both ends
kept, min orientation, non-member removal is a no-op).  Partial: deque / priority-queue behaviour
over all operation sequences follows from the schema by the textbook induction, not mechanised."""
from engine import Engine, NONE, some, fmt_loc, fmt_val, OPTION
from rl import (loc_endswith, path_cond, trace_summary, where, const_of, fields_of)
from common import contains, same_pred
from lib import CheckerError

LIST = 'intrusive_double_linked_list::LinkedList'
HEAP = 'intrusive_pairing_heap::PairingHeap'
SELF = (('P', 'self'),)
NODE = (('P', 'node'),)


class SV:
    def __init__(self, store):
        self.store = store


def I(loc):
    return ('init', loc)


def D(v):
    """location a pointer value refers to"""
    if v[0] == 'ref':
        return v[1]
    return (('D', v),)


def inner(v):
    """payload of an Option value known to be Some"""
    if v[0] == 'agg' and v[2] == 'Some':
        return v[3][0][1]
    if v[0] == 'init':
        return ('init', v[1] + (('dc', 'Some'), '0'))
    return ('field', ('field', v, ('dc', 'Some')), '0')


def var(E, path, v):
    if v[0] == 'agg':
        return v[2]
    k = E.variant_known(path.facts, v)
    return k[1] if k and k[0] == 'eq' else None


def is_some_of(E, path, got, x):
    """is `got` the Option Some(x) - as a literal or as a symbolic value the path knows to be Some with payload x"""
    if got == some(x):
        return True
    return got[0] != 'agg' and var(E, path, got) == 'Some' and inner(got) == x


def writes(path):
    return [e for e in path.events if e['k'] == 'write']


def run(C, R):
    R.explanation = ('Each function of the two intrusive containers is analysed on its own MIR (callees inside the '
                     'module opaque) and every returning path is compared with the canonical schema: list — '
                     'add_front links the node before the old head and sets tail iff the list was empty; '
                     'remove_first / remove_last / remove(member) splice the neighbours (or head / tail) around '
                     'the node and clear BOTH of its links; remove(non-member: prev == None and head != node) '
                     'returns false with no write; drain / reverse_drain clear head and tail, visit from head via '
                     'next / from tail via prev, and clear both links of each node before its callback; heap — '
                     'insert melds into the root, peek_min returns the root, meld makes the node that safe_lesser '
                     'found smaller the parent (orientation), add_child pushes in front of the child list, remove '
                     'splices the node out of its sibling list (or the root), re-attaches its merged children to '
                     'the parent (or the root) and leaves parent / prev / next / first_child of the node None; '
                     'safe_lesser(a, b) is a < b in that order.  The entry invariant (head None <=> tail None) is '
                     'assumed per path and re-established.  PARTIAL: that these schemas yield a deque / a min-'
                     'priority queue for every operation sequence is the textbook induction, not mechanised here.')
    R.trusted += ['rustc nightly MIR', 'the (unmechanised) induction from the per-operation schema to deque / '
                  'priority-queue behaviour']
    R.assumptions += ['nodes passed in are members of this container or of none (the functions\' documented unsafe '
                      'precondition)', 'T::cmp does not panic (safe_lesser aborts otherwise)']
    for cfg in C.configs():
        F = C.facts(cfg)
        R.configs.append(cfg)
        # the functions whose CALLS the schemas speak about stay opaque; any other function of the two modules
        # (a private helper somebody extracted) is inlined into its caller, so that moving code around is invisible
        SCHEMA_FNS = ('safe_lesser', 'meld', 'maybe_meld', 'add_child', 'merge_children', 'last_child', 'unlink_prev',
                      'add_front', 'remove', 'remove_first', 'remove_last', 'drain', 'reverse_drain', 'insert',
                      'peek_min', 'peek_first', 'peek_last', 'peek_first_mut', 'peek_last_mut', 'is_empty', 'new')
        E = Engine(F, inline_filter=lambda ci, callee: not (
            callee['path'].startswith('intrusive_pairing_heap::') or callee['path'].startswith('intrusive_double_linked_list::'))
            or callee['path'].endswith(('::deref', '::deref_mut')) or callee.get('name') in ('is_root',)
            or callee.get('name') not in SCHEMA_FNS
            # (a provided / implemented method of a private helper trait is a helper, whatever it is called)
            or bool(callee.get('in_trait')) or (bool(callee.get('impl_trait')) and not (callee.get('impl_trait') or '').startswith('std::')),
            inline_queue_helpers=True)

        # the schemas name the parameters by role; the source may call them anything
        E.param_names = {'meld': ['left', 'right'], 'maybe_meld': ['left', 'right'], 'add_child': ['parent', 'child'],
                         'unlink_prev': ['node'], 'merge_children': ['first_child'], 'last_child': ['first_child'],
                         'safe_lesser': ['a', 'b'], 'add_front': ['self', 'node'], 'remove': ['self', 'node'],
                         'insert': ['self', 'node']}

        def one(path_suffix):
            r = [f for p, f in F.fns.items() if p.endswith(path_suffix)]
            if len(r) != 1:
                raise CheckerError('anchor=%s (found %d)' % (path_suffix, len(r)))
            return r[0]

        def fin(path, loc):
            return E.read(SV(path.store), loc)

        def bad_entry(path):
            """head None <=> tail None (assumed at entry): contradicting paths are infeasible"""
            h = var(E, path, I(SELF + ('head',)))
            t = var(E, path, I(SELF + ('tail',)))
            return h is not None and t is not None and h != t

        VOCAB_OK = ('std::convert::', '<T as std::convert::', 'std::option::Option', '<std::option::Option', 'std::cmp::',
                    'std::mem::forget', 'std::mem::replace', 'std::mem::take', 'std::mem::swap', 'std::ops::Fn', 'std::ptr::',
                    'std::panicking', 'std::rt::', 'std::fmt', 'std::ops::Try', 'std::ops::FromResidual', 'std::ops::Deref',
                    'std::ops::DerefMut', 'std::intrinsics', 'std::hint', 'std::result::Result', '<std::result::Result',
                    'std::clone::', 'std::marker::', 'std::num::', 'std::ops::ControlFlow', '<std::ptr::', 'std::cell::')
        outside = {}

        def foreign_vocab(fn):
            """std functions outside the vocabulary of link surgery that the function (or what it inlines) calls -
            iterator adaptors, collections, ...: the schema comparison cannot follow an algorithm written with them"""
            if fn['path'] not in outside:
                found = set()
                for q in C.cg(cfg).reachable_from([fn['path']]):
                    g = F.fn(q)
                    if g is None or not q.lstrip('<').startswith(('intrusive_', 'std::ptr::NonNull<intrusive_')) and ' as intrusive_' not in q:
                        continue
                    for b_ in g['blocks']:
                        t_ = b_['term']
                        if b_['cleanup'] or t_['k'] != 'call' or 'fn' not in t_['func']:
                            continue
                        ci_ = t_['func']['fn']
                        r_ = ci_.get('resolved') or {}
                        if (r_.get('krate') or ci_['krate']) == 'futures_intrusive':
                            continue
                        pth = r_.get('path') or ci_['path']
                        if not pth.startswith(VOCAB_OK):
                            found.add(pth.split('::<')[0][:80])
                outside[fn['path']] = sorted(found)
            return outside[fn['path']]

        _fail0 = R.fail

        def _fail_or_cannot_judge(rule, key, msg, loc=None, extra=None):
            # (installed for this module only: a schema deviation in a function written with foreign vocabulary is
            # "cannot judge this algorithm", not a violation)
            fp = key[0] if key else None
            g = F.fn(fp) if fp else None
            fv = foreign_vocab(g) if g is not None and rule.startswith('C20.R') and rule != 'C20.R5' else []
            if fv:
                R.cannot_judge('%s does not agree with the canonical schema (%s), and it is written with %s - '
                               'outside the vocabulary the link-surgery schemas can follow; this algorithm is not judged'
                               % (fp, key[1] if len(key) > 1 else '', ', '.join(fv[:4])))
                return
            _fail0(rule, key, msg, loc, extra)
        R.fail = _fail_or_cannot_judge

        def report(rule, fn, path, ok, what, detail=None):
            if ok:
                R.ok(rule, '%s|%s|%s' % (fn['path'], what, path_cond(E, path)),
                     {'function': fn['path'], 'schema': what, 'path_condition': path_cond(E, path)})
            else:
                R.fail(rule, [fn['path'], what], '%s deviates from the canonical schema: %s%s [%s]' % (
                    fn['path'], what, (' — ' + detail) if detail else '', path_cond(E, path)),
                    '%s:%s' % (fn['file'], fn['line']), {'trace': trace_summary(path)})

        nret = 0
        # ================================================================ list
        fn = one('LinkedList::<T>::add_front')
        for path in E.run(fn['path']):
            R.add_paths(fn['path'], 1)
            if path.exit != 'return':
                continue
            if bad_entry(path):
                R.skip_infeasible()
                continue
            nret += 1
            oldh = I(SELF + ('head',))
            ok = fin(path, NODE + ('next',)) == oldh and fin(path, NODE + ('prev',)) == NONE \
                and fin(path, SELF + ('head',)) == some(('ref', NODE))
            hv = var(E, path, oldh)
            if hv == 'Some':
                ok = ok and fin(path, D(inner(oldh)) + ('prev',)) == some(('ref', NODE)) \
                    and fin(path, SELF + ('tail',)) == I(SELF + ('tail',))
            elif hv == 'None':
                ok = ok and fin(path, SELF + ('tail',)) == some(('ref', NODE))
            else:
                ok = False
            report('C20.R2', fn, path, ok, 'add_front links before old head; tail set iff list was empty')
        for name, end, other, fwd, back in (('remove_last', 'tail', 'head', 'prev', 'next'),
                                            ('remove_first', 'head', 'tail', 'next', 'prev')):
            fn = one('LinkedList::<T>::' + name)
            for path in E.run(fn['path']):
                R.add_paths(fn['path'], 1)
                if path.exit != 'return':
                    continue
                if bad_entry(path):
                    R.skip_infeasible()
                    continue
                nret += 1
                e0 = I(SELF + (end,))
                ev = var(E, path, e0)
                if ev == 'None':
                    report('C20.R4', fn, path, path.ret == NONE and not writes(path), 'empty list: None, no write')
                    continue
                n = D(inner(e0))
                nb = I(n + (fwd,))
                links_cleared = fin(path, n + ('prev',)) == NONE and fin(path, n + ('next',)) == NONE
                report('C20.R1', fn, path, links_cleared and path.ret == some(('ref', n)),
                       'the removed node is returned with prev == next == None')
                ok = fin(path, SELF + (end,)) == nb
                nv = var(E, path, nb)
                if nv == 'None':
                    ok = ok and fin(path, SELF + (other,)) == NONE
                elif nv == 'Some':
                    ok = ok and fin(path, D(inner(nb)) + (back,)) == NONE and fin(path, SELF + (other,)) == I(SELF + (other,))
                else:
                    ok = False
                report('C20.R2', fn, path, ok, '%s := node.%s; last node: %s := None, else neighbour.%s := None' % (
                    end, fwd, other, back))
        fn = one('LinkedList::<T>::remove')
        nnon = 0
        for path in E.run(fn['path']):
            R.add_paths(fn['path'], 1)
            if path.exit != 'return':
                continue
            nret += 1
            pv = var(E, path, I(NODE + ('prev',)))
            nx = var(E, path, I(NODE + ('next',)))
            if const_of(E, path.facts, path.ret) == 0:
                nnon += 1
                nothead = _eq_ptr(E, path.facts, I(SELF + ('head',)), NODE)
                report('C20.R4', fn, path, pv == 'None' and nothead == 0 and not writes(path),
                       'non-member (prev == None and head != node): false, no write')
                continue
            ok = const_of(E, path.facts, path.ret) == 1
            if pv == 'None':
                ok = ok and fin(path, SELF + ('head',)) == I(NODE + ('next',))
            elif pv == 'Some':
                ok = ok and fin(path, D(inner(I(NODE + ('prev',)))) + ('next',)) == I(NODE + ('next',))
            else:
                ok = False
            if nx == 'None':
                ok = ok and fin(path, SELF + ('tail',)) == I(NODE + ('prev',))
            elif nx == 'Some':
                ok = ok and fin(path, D(inner(I(NODE + ('next',)))) + ('prev',)) == I(NODE + ('prev',))
            else:
                ok = False
            report('C20.R2', fn, path, ok, 'member removal splices prev/next (or head/tail) around the node')
            report('C20.R1', fn, path, fin(path, NODE + ('prev',)) == NONE and fin(path, NODE + ('next',)) == NONE,
                   'the removed node has prev == next == None')
        R.floor('C20.R4 non-member-removal-paths[%s]' % cfg, nnon, 1)
        for name, start, step in (('drain', 'head', 'next'), ('reverse_drain', 'tail', 'prev')):
            fn = one('LinkedList::<T>::' + name)
            visited = set()
            for path in E.run(fn['path']):
                R.add_paths(fn['path'], 1)
                if path.exit != 'return':
                    continue
                nret += 1
                ok = fin(path, SELF + ('head',)) == NONE and fin(path, SELF + ('tail',)) == NONE
                cur = I(SELF + (start,))
                calls = [(i, e) for i, e in enumerate(path.events) if e['k'] == 'call' and e['name'] == 'call_mut']
                for i, e in calls:
                    n = D(inner(cur))
                    arg_ok = contains(e['args'][1], ('ref', n))
                    cleared = all(any(w['k'] == 'write' and w['loc'] == n + (f,) and w['val'] == NONE
                                      for w in path.events[:i]) for f in ('next', 'prev'))
                    ok = ok and arg_ok and cleared and var(E, path, cur) == 'Some'
                    cur = I(n + (step,))
                ok = ok and var(E, path, cur) in ('None', None if len(calls) >= 2 else 'None')
                visited.add(min(len(calls), 2))
                report('C20.R1', fn, path, ok, '%s: head = tail = None; nodes visited from %s via %s, links cleared '
                       'before each callback' % (name, start, step))
            for k in (0, 1, 2):
                if k in visited:
                    R.ok('C20.R1', '%s|returns after visiting %s%d node(s)' % (fn['path'], '>= ' if k == 2 else '', k))
                else:
                    R.fail('C20.R1', [fn['path'], 'walk-does-not-terminate', str(k)],
                           '%s has no returning path that visits %s%d node(s): the walk does not advance / end'
                           % (fn['path'], '>= ' if k == 2 else '', k), '%s:%s' % (fn['file'], fn['line']))
        for name, field in (('peek_first', 'head'), ('peek_first_mut', 'head'), ('peek_last', 'tail'),
                            ('peek_last_mut', 'tail')):
            fn = one('LinkedList::<T>::' + name)
            for path in E.run(fn['path']):
                R.add_paths(fn['path'], 1)
                if path.exit != 'return':
                    continue
                v = var(E, path, I(SELF + (field,)))
                ok = not writes(path) and ((v == 'None' and path.ret == NONE) or
                                           (v == 'Some' and contains(path.ret, inner(I(SELF + (field,))))))
                report('C20.R2', fn, path, ok, '%s returns %s without writing' % (name, field))
        # ================================================================ heap
        fn = one('intrusive_pairing_heap::safe_lesser')
        for path in E.run(fn['path']):
            if path.exit == 'return':
                report('C20.R3', fn, path, same_pred(path.ret, ('bin', 'Lt', ('ref', (('P', 'a'),)), ('ref', (('P', 'b'),)))),
                       'safe_lesser(a, b) == a < b')
        fn = one('intrusive_pairing_heap::meld')
        nm = 0
        for path in E.run(fn['path']):
            R.add_paths(fn['path'], 1)
            if path.exit != 'return':
                continue
            nm += 1
            L, Rr = ('param', 'left'), ('param', 'right')
            sl = [e for e in path.events if e['k'] == 'call' and e['name'] == 'safe_lesser']
            ac = [e for e in path.events if e['k'] == 'call' and e['name'] == 'add_child']
            ok = len(sl) == 1 and len(ac) == 1 and sl[0]['args'] == (('ref', D(L) + ('data',)), ('ref', D(Rr) + ('data',)))
            if ok:
                lesser = const_of(E, path.facts, sl[0]['ret'])
                if lesser == 1:
                    ok = ac[0]['args'] == (L, Rr) and path.ret == L
                elif lesser == 0:
                    ok = ac[0]['args'] == (Rr, L) and path.ret == Rr
                else:
                    ok = False
            report('C20.R3', fn, path, ok, 'meld: the node safe_lesser found smaller becomes the parent and is returned')
        R.floor('C20.R3 meld-paths[%s]' % cfg, nm, 2)
        fn = one('intrusive_pairing_heap::add_child')
        for path in E.run(fn['path']):
            R.add_paths(fn['path'], 1)
            if path.exit != 'return':
                continue
            P, Cc = ('param', 'parent'), ('param', 'child')
            ofc = I(D(P) + ('first_child',))
            ok = fin(path, D(P) + ('first_child',)) == some(Cc) and fin(path, D(Cc) + ('parent',)) == some(P)
            v = var(E, path, ofc)
            if v == 'Some':
                ok = ok and is_some_of(E, path, fin(path, D(Cc) + ('next',)), inner(ofc)) and \
                    fin(path, D(inner(ofc)) + ('prev',)) == some(Cc)
            elif v != 'None':
                ok = False
            report('C20.R2', fn, path, ok, 'add_child pushes the child in front of the parent\'s child list')
        fn = one('PairingHeap::<T>::insert')
        for path in E.run(fn['path']):
            R.add_paths(fn['path'], 1)
            if path.exit != 'return':
                continue
            r0 = I(SELF + ('root',))
            v = var(E, path, r0)
            if v == 'None':
                ok = fin(path, SELF + ('root',)) == some(('ref', NODE))
            else:
                ml = [e for e in path.events if e['k'] == 'call' and e['name'] == 'meld']
                ok = v == 'Some' and len(ml) == 1 and ml[0]['args'] == (inner(r0), ('ref', NODE)) and \
                    fin(path, SELF + ('root',)) == some(ml[0]['ret'])
            # the same through the (schema-checked) helper: root := Some(maybe_meld(root, node))
            mm = [e for e in path.events if e['k'] == 'call' and e['name'] == 'maybe_meld']
            if not ok and len(mm) == 1 and mm[0]['args'] == (r0, ('ref', NODE)) and \
                    fin(path, SELF + ('root',)) == some(mm[0]['ret']):
                ok = True
            report('C20.R3', fn, path, ok, 'insert: root := node if empty, else meld(root, node)')
        fn = one('PairingHeap::<T>::peek_min')
        for path in E.run(fn['path']):
            report('C20.R3', fn, path, path.exit == 'return' and path.ret == I(SELF + ('root',)) and not writes(path),
                   'peek_min returns the root')
        fn = one('PairingHeap::<T>::remove')
        nr = 0
        for path in E.run(fn['path']):
            R.add_paths(fn['path'], 1)
            if path.exit != 'return':
                continue
            nr += 1
            cleared = all(var(E, path, fin(path, NODE + (f,))) == 'None' for f in ('parent', 'prev', 'next', 'first_child'))
            report('C20.R1', fn, path, cleared, 'the removed heap node has parent/prev/next/first_child == None')
            par, pv, nx, fc = (I(NODE + (f,)) for f in ('parent', 'prev', 'next', 'first_child'))
            vp, vv, vn, vf = (var(E, path, x) for x in (par, pv, nx, fc))
            mc = [e for e in path.events if e['k'] == 'call' and e['name'] == 'merge_children']
            ac = [e for e in path.events if e['k'] == 'call' and e['name'] == 'add_child']
            ok = True
            if vp == 'Some':
                if vv == 'Some':
                    ok = ok and fin(path, D(inner(pv)) + ('next',)) == nx
                elif vv == 'None':
                    ok = ok and fin(path, D(inner(par)) + ('first_child',)) == nx
                else:
                    ok = False
                if vn == 'Some':
                    ok = ok and fin(path, D(inner(nx)) + ('prev',)) == pv
                elif vn != 'None':
                    ok = False
            elif vp == 'None':
                pass
            else:
                ok = False
            if vf == 'Some':
                ok = ok and len(mc) == 1 and mc[0]['args'] == (inner(fc),)
                if vp == 'Some':
                    ok = ok and len(ac) == 1 and ac[0]['args'] == (inner(par), mc[0]['ret'])
                else:
                    ok = ok and not ac and fin(path, SELF + ('root',)) == some(mc[0]['ret'])
            elif vf == 'None':
                ok = ok and not mc and not ac
                if vp == 'None':
                    ok = ok and fin(path, SELF + ('root',)) == NONE
            else:
                ok = False
            report('C20.R2', fn, path, ok, 'heap remove splices siblings / parent.first_child / root and re-attaches '
                   'merge_children(first_child) to the parent or the root')
        R.floor('C20.R1 heap-remove-paths[%s]' % cfg, nr, 6)
        fn = one('intrusive_pairing_heap::unlink_prev')
        for path in E.run(fn['path']):
            if path.exit != 'return':
                continue
            N = D(('param', 'node'))
            p0 = I(N + ('prev',))
            v = var(E, path, p0)
            ok = fin(path, N + ('prev',)) == NONE
            if v == 'Some':
                ok = ok and fin(path, D(inner(p0)) + ('next',)) == NONE and path.ret == some(inner(p0))
            else:
                ok = ok and v == 'None' and path.ret == NONE
            report('C20.R2', fn, path, ok, 'unlink_prev detaches node.prev <-> node and returns the previous sibling')
        fn = one('intrusive_pairing_heap::merge_children')
        nmc = 0
        for path in E.run(fn['path']):
            R.add_paths(fn['path'], 1)
            if path.exit != 'return':
                continue
            nmc += 1
            calls = [e for e in path.events if e['k'] == 'call' and e.get('mode') == 'opaque'
                     and e['callee'].startswith('intrusive_pairing_heap::')]
            if calls and calls[0]['name'] == 'last_child':
                ok = calls[0]['args'] == (('param', 'first_child'),)
            else:
                # last_child inlined: the first node that is processed must be reached from first_child by following
                # `next` until it is None
                firstp = [c for c in calls if c['name'] in ('unlink_prev', 'meld', 'maybe_meld')]
                start = None
                if firstp:
                    a = firstp[0]['args']
                    start = a[0] if firstp[0]['name'] == 'unlink_prev' else a[-1]
                cur = ('param', 'first_child')
                ok = start is not None
                for _i in range(8):
                    nxt = I(D(cur) + ('next',))
                    v = var(E, path, nxt)
                    if v == 'Some':
                        cur = inner(nxt)
                        continue
                    ok = ok and v == 'None' and cur == start
                    break
                else:
                    ok = False
            melds = [e for e in calls if e['name'] in ('meld', 'maybe_meld')]
            ok = ok and melds and path.ret == melds[-1]['ret']
            # every node handed to meld had its parent link cleared first
            for e in [c for c in calls if c['name'] == 'meld']:
                for a in e['args']:
                    ok = ok and any(w['k'] == 'write' and w['loc'] == D(a) + ('parent',) and w['val'] == NONE
                                    for w in path.events)
            # pairs are (prev, node): the first argument of each meld is the result of unlink_prev on the second
            ul = [c for c in calls if c['name'] == 'unlink_prev']
            for e in [c for c in calls if c['name'] == 'meld']:
                src = [u for u in ul if u['args'] == (e['args'][1],)]
                ok = ok and src and e['args'][0] == E.project(src[0]['ret'], (('dc', 'Some'), '0'))
            # the accumulator is threaded through: every maybe_meld(current, x) receives the result of the previous
            # round (None in the first), x is this round's meld(prev, node) (or the lone last node), and the
            # function returns the last accumulation - no merged subtree is dropped on the way
            acc = NONE
            last_meld = None
            for e in calls:
                if e['name'] == 'meld':
                    last_meld = e
                elif e['name'] == 'maybe_meld':
                    a0, a1 = e['args']
                    ok = ok and a0 == acc
                    if last_meld is not None:
                        ok = ok and a1 == last_meld['ret']
                    last_meld = None
                    acc = some(e['ret'])
            mm = [e for e in calls if e['name'] == 'maybe_meld']
            ok = ok and bool(mm) and path.ret == mm[-1]['ret']
            report('C20.R2', fn, path, ok, 'merge_children: right-to-left pairing from last_child, parents cleared, '
                   'accumulator threaded through every round, result is the last accumulation')
        R.floor('C20.R2 merge-children-paths[%s]' % cfg, nmc, 3)
        R.floor('C20 list-returning-paths[%s]' % cfg, nret, 15)
        assertion_rule(R, E, F, one, cfg)
        extra_schemas(R, E, F, one, report, fin, cfg)


# ---------------------------------------------------------------------------------------------------------------
# R5: an internal assertion of the containers may fail only on an INCONSISTENT structure (or a broken
# precondition).  Every panic path must carry a witness of inconsistency among its facts; a panic path whose facts
# describe a consistent list / heap is an assertion that fires on legal input.
def _isv(E, facts, v, want):
    if v[0] == 'agg':
        return v[2] == want
    k = E.variant_known(facts, v)
    return bool(k and k[0] == 'eq' and k[1] == want)


def _eq(E, facts, a, b):
    """truth of a == b under the facts: 1 / 0 / None"""
    for key, neg in ((('bin', 'Eq', a, b), 0), (('bin', 'Eq', b, a), 0), (('bin', 'Ne', a, b), 1), (('bin', 'Ne', b, a), 1)):
        c = const_of(E, facts, key)
        if c is not None:
            return c ^ neg
    for x, y in ((a, b), (b, a)):
        if x == NONE:
            if _isv(E, facts, y, 'None'):
                return 1
            if _isv(E, facts, y, 'Some'):
                return 0
    return None


def _ptrs(loc):
    """the pointer values that designate the node stored at loc (the raw pointer and its re-borrow)"""
    if len(loc) == 1 and loc[0][0] == 'D':
        return (loc[0][1], ('ref', loc))
    return (('ref', loc),)


def _eq_ptr(E, facts, opt, loc):
    """truth of `opt == Some(pointer to loc)`"""
    for p in _ptrs(loc):
        r = _eq(E, facts, opt, some(p))
        if r is not None:
            return r
    return None


def _node_locs(facts):
    """locations of nodes mentioned in the facts: every prefix of an init-location that ends before a link field"""
    out = set()

    def walk(v):
        if not isinstance(v, tuple):
            return
        if v and v[0] == 'init' and isinstance(v[1], tuple):
            loc = v[1]
            for i, e in enumerate(loc):
                if e in ('prev', 'next', 'parent', 'first_child', 'head', 'tail', 'root') and i > 0:
                    out.add((loc[:i], e))
            for e in loc:
                if isinstance(e, tuple):
                    walk(e)
        for x in v:
            if isinstance(x, tuple):
                walk(x)
    for k in facts:
        walk(k)
    return out


def inconsistency_witness(E, path, fn_name):
    """a reason why the path's entry state is not a consistent list / heap (or breaks the function's documented
    precondition), or None"""
    f = path.facts
    nodes = sorted(set(l for l, _ in _node_locs(f)), key=repr)
    for X in nodes:
        if X == SELF:
            continue
        par, pv, nx, fc = (I(X + (n,)) for n in ('parent', 'prev', 'next', 'first_child'))
        # doubly linked: my neighbour points back at me
        if _isv(E, f, pv, 'Some') and _eq_ptr(E, f, I(D(inner(pv)) + ('next',)), X) == 0:
            return 'prev.next != node'
        if _isv(E, f, nx, 'Some') and _eq_ptr(E, f, I(D(inner(nx)) + ('prev',)), X) == 0:
            return 'next.prev != node'
        # heap: a node without parent has no siblings
        if _isv(E, f, par, 'None') and (_isv(E, f, pv, 'Some') or _isv(E, f, nx, 'Some')) and \
                any(l == X and n == 'parent' for l, n in _node_locs(f)):
            return 'a root with siblings'
        # heap: the first child has no previous sibling
        if _isv(E, f, fc, 'Some') and _isv(E, f, I(D(inner(fc)) + ('prev',)), 'Some'):
            return 'first child has a previous sibling'
    h, t, root = I(SELF + ('head',)), I(SELF + ('tail',)), I(SELF + ('root',))
    if (_isv(E, f, h, 'None') and _isv(E, f, t, 'Some')) or (_isv(E, f, h, 'Some') and _isv(E, f, t, 'None')):
        return 'head None xor tail None'
    if _isv(E, f, h, 'Some'):
        H = D(inner(h))
        if _isv(E, f, I(H + ('next',)), 'None') and _eq_ptr(E, f, t, H) == 0:
            return 'single element but tail != head'
    if _isv(E, f, t, 'Some'):
        T = D(inner(t))
        if _isv(E, f, I(T + ('prev',)), 'None') and _eq_ptr(E, f, h, T) == 0:
            return 'single element but head != tail'
    me = some(('ref', NODE))
    if fn_name == 'LinkedList::remove':
        pv, nx = I(NODE + ('prev',)), I(NODE + ('next',))
        member = _isv(E, f, pv, 'Some') or _eq(E, f, h, me) == 1
        if _isv(E, f, pv, 'None') and _eq(E, f, h, me) == 0 and _isv(E, f, nx, 'Some'):
            return 'a node that is in no list has a next link'
        if member and _isv(E, f, nx, 'None') and _eq(E, f, t, me) == 0:
            return 'last member but tail != node'
    if fn_name == 'PairingHeap::remove':
        if _isv(E, f, I(NODE + ('parent',)), 'None') and _eq(E, f, root, me) == 0:
            return 'a parentless node that is not the root (precondition: member of this heap)'
    if fn_name == 'PairingHeap::insert':
        if any(_isv(E, f, I(NODE + (n,)), 'Some') for n in ('parent', 'first_child')):
            return 'precondition: the inserted node is in no heap'
    if fn_name == 'meld':
        for p in ('left', 'right'):
            if _isv(E, f, I(D(('param', p)) + ('parent',)), 'Some'):
                return 'precondition: meld takes two roots'
    if fn_name == 'unlink_prev':
        if _isv(E, f, I(D(('param', 'node')) + ('next',)), 'Some'):
            return 'precondition: unlink_prev takes the last sibling'
    if fn_name == 'add_child':
        for e in path.events:
            if e['k'] == 'call' and e.get('name') == 'safe_lesser' and const_of(E, f, e['ret']) == 1 and \
                    e['args'] == (('ref', D(('param', 'child')) + ('data',)), ('ref', D(('param', 'parent')) + ('data',))):
                return 'precondition: parent <= child'
    if fn_name == 'merge_children':
        cp = I(D(('param', 'first_child')) + ('parent',))
        if _isv(E, f, cp, 'None'):
            return 'precondition: children have a parent'
        for k, v in f.items():
            if isinstance(k, tuple) and k[:2] == ('bin', 'Eq') and v == ('eq', 0) and cp in (k[2], k[3]):
                other = k[3] if k[2] == cp else k[2]
                if other[0] == 'init' and other[1][-1] == 'parent':
                    return 'siblings with different parents'
    return None


OPTIONAL_HELPERS = ('last_child', 'maybe_meld', 'unlink_prev')
ASSERTING = (('LinkedList::<T>::add_front', 'LinkedList::add_front'), ('LinkedList::<T>::remove_first', 'LinkedList::remove_first'),
             ('LinkedList::<T>::remove_last', 'LinkedList::remove_last'), ('LinkedList::<T>::is_empty', 'LinkedList::is_empty'),
             ('LinkedList::<T>::remove', 'LinkedList::remove'), ('PairingHeap::<T>::insert', 'PairingHeap::insert'),
             ('PairingHeap::<T>::remove', 'PairingHeap::remove'), ('intrusive_pairing_heap::meld', 'meld'),
             ('intrusive_pairing_heap::add_child', 'add_child'), ('intrusive_pairing_heap::unlink_prev', 'unlink_prev'),
             ('intrusive_pairing_heap::merge_children', 'merge_children'),
             ('intrusive_pairing_heap::last_child', 'last_child'), ('intrusive_pairing_heap::maybe_meld', 'maybe_meld'))


def assertion_rule(R, E, F, one, cfg):
    n = 0
    for suffix, short in ASSERTING:
        if short in OPTIONAL_HELPERS and not [1 for p in F.fns if p.endswith(suffix)]:
            continue   # a private helper that was inlined into its caller
        fn = one(suffix)
        paths = E.run(fn['path'])
        if not any(p.exit == 'return' for p in paths):
            R.fail('C20.R5', [fn['path'], 'no-returning-path'], '%s has no returning path' % fn['path'],
                   '%s:%s' % (fn['file'], fn['line']))
        for path in paths:
            if path.exit != 'panic':
                continue
            n += 1
            why = inconsistency_witness(E, path, short)
            if why:
                R.ok('C20.R5', '%s|assertion fails only because: %s|%s' % (fn['path'], why, path_cond(E, path)))
            else:
                pan = [e for e in path.events if e['k'] == 'panic']
                R.fail('C20.R5', [fn['path'], 'assertion-fires-on-consistent-structure', path_cond(E, path)],
                       '%s can panic on a path whose entry facts describe a consistent structure and a respected '
                       'precondition [%s]' % (fn['path'], path_cond(E, path)),
                       where(F, pan[-1]) if pan else '%s:%s' % (fn['file'], fn['line']),
                       {'trace': trace_summary(path)})
    R.floor('C20.R5 assertion-paths[%s]' % cfg, n, 30)


def extra_schemas(R, E, F, one, report, fin, cfg):
    """schemas of the small helpers the first version left to the induction"""
    # is_empty == head is None, no write
    fn = one('LinkedList::<T>::is_empty')
    for path in E.run(fn['path']):
        if path.exit != 'return':
            continue
        hv = var(E, path, I(SELF + ('head',)))
        ok = not writes(path) and ((hv == 'None' and const_of(E, path.facts, path.ret) == 1) or (hv == 'Some' and const_of(E, path.facts, path.ret) == 0)
                                   or path.ret == ('isv', I(SELF + ('head',)), 'None', OPTION))
        report('C20.R2', fn, path, ok, 'is_empty() == head.is_none(), no write')
    # is_root == parent is None
    fn = one('HeapNode::<T>::is_root')
    for path in E.run(fn['path']):
        if path.exit != 'return':
            continue
        pv = var(E, path, I(SELF + ('parent',)))
        ok = not writes(path) and ((pv == 'None' and const_of(E, path.facts, path.ret) == 1) or (pv == 'Some' and const_of(E, path.facts, path.ret) == 0))
        report('C20.R2', fn, path, ok, 'is_root() == parent.is_none(), no write')
    # safe_lesser defuses its bomb on the returning path
    fn = one('intrusive_pairing_heap::safe_lesser')
    for path in E.run(fn['path']):
        if path.exit != 'return':
            continue
        forgot = any(e['k'] == 'call' and e.get('name') == 'forget' for e in path.events)
        bombed = any(e['k'] == 'drop' and 'DropBomb' in str(e.get('ty')) for e in path.events)
        report('C20.R3', fn, path, forgot and not bombed, 'safe_lesser forgets its DropBomb before returning')
    # maybe_meld: None => right, Some(l) => meld(l, right)
    fn = one('intrusive_pairing_heap::maybe_meld')
    for path in E.run(fn['path']):
        if path.exit != 'return':
            continue
        L = ('param', 'left')
        lv = var(E, path, L)
        ml = [e for e in path.events if e['k'] == 'call' and e['name'] == 'meld']
        if lv == 'None':
            ok = not ml and path.ret == ('param', 'right')
        else:
            ok = lv == 'Some' and len(ml) == 1 and ml[0]['args'] == (inner(L), ('param', 'right')) and path.ret == ml[0]['ret']
        report('C20.R3', fn, path, ok, 'maybe_meld(None, r) == r; maybe_meld(Some(l), r) == meld(l, r)')
    # last_child walks the sibling list via next and returns the node whose next is None
    if not [1 for p in F.fns if p.endswith('intrusive_pairing_heap::last_child')]:
        R.observe('C20: last_child() does not exist as a function of its own (inlined into its caller)')
        return
    fn = one('intrusive_pairing_heap::last_child')
    seen_steps = set()
    for path in E.run(fn['path']):
        if path.exit != 'return':
            continue
        cur = ('param', 'first_child')
        ok = not writes(path)
        steps = 0
        while True:
            nxt = I(D(cur) + ('next',))
            v = var(E, path, nxt)
            if v == 'Some':
                cur = inner(nxt)
                steps += 1
                if steps > 8:
                    ok = False
                    break
                continue
            ok = ok and v == 'None' and path.ret == cur
            break
        seen_steps.add(min(steps, 1))
        report('C20.R2', fn, path, ok, 'last_child follows next until None and returns that node, no write')
    for k in (0, 1):
        if k in seen_steps:
            R.ok('C20.R2', '%s|returns after %s%d step(s)' % (fn['path'], '>= ' if k else '', k))
        else:
            R.fail('C20.R2', [fn['path'], 'walk-does-not-terminate', str(k)],
                   '%s has no returning path that makes %s%d step(s): the walk does not advance / end'
                   % (fn['path'], '>= ' if k else '', k), '%s:%s' % (fn['file'], fn['line']))
