"""C11 — close semantics and shared-handle lifecycle."""
from rl import (method_role, entry_methods, loc_endswith, path_cond, trace_summary, where, const_of, fmt_val, fmt_loc, fields_of)
from common import scan_field_writes, scan_calls, scan_aggregates, const_of_rvalue, contains, poll_variant, waker_escapes, entered_unqueued, effective
from engine import NONE
from lib import CheckerError

CHANNEL_STATES = {
    'channel::mpmc::ChannelState': 'is_closed',
    'channel::oneshot::ChannelState': 'is_fulfilled',
    'channel::oneshot_broadcast::ChannelState': 'is_fulfilled',
    'channel::state_broadcast::ChannelState': 'is_closed',
}
ARC = 'std::sync::Arc'


def flag_fact(E, path, flag):
    for k, v in path.facts.items():
        if isinstance(k, tuple) and k and k[0] == 'init' and loc_endswith(k[1], flag) and v[0] == 'eq':
            return v[1]
    return None


def _has_flag_twin(paths, path, flag):
    """is there another returning path with the same facts except the opposite value of the flag and the same
    returned value?  Then the outcome does not depend on the flag although the path has read it."""
    def split(p):
        rest, fv = {}, None
        for k, v in p.facts.items():
            if isinstance(k, tuple) and k and k[0] == 'init' and loc_endswith(k[1], flag) and v[0] == 'eq':
                fv = v[1]
            else:
                rest[k] = v
        return rest, fv
    rest, fv = split(path)
    for q in paths:
        if q is path or q.exit != 'return':
            continue
        r2, f2 = split(q)
        if f2 is not None and f2 != fv and r2 == rest and q.ret == path.ret:
            return True
    return False


def is_param_value(v):
    """does the value originate from the function's own parameter or own node (a NEW value)?"""
    def walk(x, d=0):
        if not isinstance(x, tuple) or d > 8:
            return False
        if x and x[0] == 'param':
            return True
        if x and x[0] == 'init' and x[1][0][0] == 'P' and x[1][0][1] != 'self':
            return True
        return any(isinstance(s, tuple) and walk(s, d + 1) for s in x)
    return walk(v)


def from_token(v):
    def walk(x, d=0):
        if not isinstance(x, tuple) or d > 8:
            return False
        if x and x[0] == 'init' and x[1][0][0] == 'tok':
            return True
        return any(isinstance(s, tuple) and walk(s, d + 1) for s in x)
    return walk(v)


def _direct_closers(F):
    """the functions whose own code sets a state's `is_closed` flag - the close transition under whatever name
    (`shutdown(discard)`); a call of one of them on a path is a close on that path (it either closes or finds the
    channel closed already)"""
    got = getattr(F, '_c11_closers', None)
    if got is None:
        got = set()
        for fn in F.raw['fns']:
            for b in fn['blocks']:
                for st in b['stmts']:
                    if st['k'] == 'assign' and any(isinstance(x, dict) and x.get('f') == 'is_closed' for x in st['place']['p']):
                        got.add(fn['path'])
        F._c11_closers = got
    return got


def run(C, R):
    R.explanation = ('R1 the closed/fulfilled flag is only ever written `true` (monotone); R2 close(): the already-'
                     'closed path has no effect and returns AlreadyClosed, the newly-closed path sets the flag, '
                     'drains EVERY wait queue of that state with a closure that wakes the taken waker, and returns '
                     'NewlyClosed; R3 every acceptance of a new value (push / store / parking of the caller\'s own '
                     'value) and every state-id increment lies on a path with flag == false, and the closed path '
                     'hands the caller\'s own value back; R4 delivery paths of the receive functions do not depend '
                     'on the flag (values accepted before close survive) and the closed result is returned only '
                     'after an availability test; R5 handle lifecycle: a Clone handle closes only under '
                     '`fetch_sub(1) == 1` on the counter its Clone increments and its constructor sets to 1, '
                     'counters are not crossed, nobody else touches the counters; a non-Clone handle may close '
                     'unconditionally; R6 the last mpmc receiver clears the buffer after closing.  Reported D3 '
                     '(oneshot-broadcast receiver) on the pinned tree.')
    R.trusted += ['rustc nightly MIR + solver (Clone facts)', 'atomics do what fetch_add/fetch_sub say',
                  'queue-op summaries (C20)']
    cfgs = C.configs()
    for cfg in cfgs:
        F = C.facts(cfg)
        E = C.engine(cfg)
        CG = C.cg(cfg)
        roles = C.roles(cfg)
        R.configs.append(cfg)
        from common import constructor_state
        for _st, _flag in CHANNEL_STATES.items():
            constructor_state(R, C.engine(cfg), C.facts(cfg), _st, {_flag: ('const', 0)}, 'C11.R0',
                              also_valid=lambda d, _flag=_flag: 'starts closed (as after new() + close / send)'
                              if d.get(_flag) == ('const', 1) else None)
        from common import wrapper_discipline
        R.floor('C11.W wrapper-paths[%s]' % cfg, wrapper_discipline(C, R, cfg, list(CHANNEL_STATES), 'C11.W'), 2)
        # ---------------- R1 monotone
        from rl import state_layer as _sl11
        _layer11 = _sl11(F, CG, list(CHANNEL_STATES))
        nw = 0
        for st, flag in CHANNEL_STATES.items():
            F.adt(st)
            mod = st.rsplit('::', 1)[0]
            for fn, s in scan_field_writes(F, flag, mod + '::'):
                nw += 1
                rv = s['rv']
                val = const_of_rvalue(fn, rv)
                if val == 1 and (fn.get('impl_adt') == st or _layer11.get(fn['path']) == st):
                    # (the state struct's own method, or a private helper / newtype of the state layer)
                    R.ok('C11.R1', '%s|%s:=true' % (fn['path'], flag))
                else:
                    R.fail('C11.R1', [fn['path'], flag, 'non-monotone-write'],
                           '%s writes %s with something other than `true` (or outside the state struct)' % (
                               fn['path'], flag), F.loc(fn, s['ln']))
        # ... and every store the transitions make into the flag by other means (`mem::replace(&mut flag, true)`, a
        # store through a `&mut bool` handed to a helper), seen as write events on their paths
        states_with_writes = set()
        for st, flag in CHANNEL_STATES.items():
            mod = st.rsplit('::', 1)[0]
            if any(True for _fn, _s in scan_field_writes(F, flag, mod + '::')):
                states_with_writes.add(st)
            for m in entry_methods(F, CG, st):
                for path in E.run(m['path']):
                    for e in path.events:
                        if e['k'] in ('write', 'replace') and e.get('loc') and e['loc'][:1] == (('P', 'self'),) \
                                and fields_of(e['loc'])[-1:] == (flag,):
                            states_with_writes.add(st)
                            v_ = e.get('val')
                            if v_ == ('const', 1) or const_of(E, path.facts, v_) == 1:
                                R.ok('C11.R1', '%s|%s:=true (event)' % (m['path'], flag))
                            else:
                                R.fail('C11.R1', [m['path'], flag, 'non-monotone-write'],
                                       '%s stores %s into %s: the closed flag only ever becomes true' % (
                                           m['path'], fmt_val(v_), flag), where(F, e), {'trace': trace_summary(path)})
        R.floor('C11.R1 states-with-a-flag-write[%s]' % cfg, len(states_with_writes), len(CHANNEL_STATES))
        # ---------------- R2..R4 per state struct
        for st, flag in CHANNEL_STATES.items():
            queues = roles.state_structs[st]['queues']
            close = F.one_fn(impl_adt=st, name='close')
            paths = E.run(close['path'])
            R.add_paths(close['path'], len(paths))
            for path in paths:
                if path.exit != 'return':
                    R.fail('C11.R2', [close['path'], 'close-panics'], 'close() can panic', None)
                    continue
                ff = flag_fact(E, path, flag)
                ws = [e for e in path.events if e['k'] == 'write' and not (e['loc'][0][0] == 'tok')
                      and effective(E, path, e)]
                qops = [e for e in path.events if e['k'] == 'qop']
                rv = path.ret[2] if path.ret[0] == 'agg' else None
                if ff == 1:
                    if ws or qops or rv != 'AlreadyClosed':
                        R.fail('C11.R2', [close['path'], 'already-closed-path-has-effects'],
                               'close() on a closed channel writes state, touches a queue or does not return '
                               'AlreadyClosed', '%s:%s' % (close['file'], close['line']),
                               {'trace': trace_summary(path)})
                    else:
                        R.ok('C11.R2', '%s|already-closed' % close['path'])
                elif ff == 0:
                    setf = [e for e in ws if loc_endswith(e['loc'], flag) and e['val'] == ('const', 1)]
                    drained = set()
                    waking = True
                    for e in qops:
                        if e['op'] in ('reverse_drain', 'drain'):
                            q = fields_of(e['queue'])[-1]
                            drained.add(q)
                            tok = e['node']
                            takes = [t for t in path.events if t['k'] == 'take' and t['loc'] == tok + ('data', 'task')]
                            if not takes:
                                waking = False
                                continue
                            x = takes[0]['old']
                            inner = E.project(x, (('dc', 'Some'), '0'))
                            k = E.variant_known(path.facts, x)
                            if not (any(w['k'] == 'wake' and w['waker'] in (x, inner) for w in path.events)
                                    or (k and k == ('eq', 'None'))):
                                esc = waker_escapes(path, (x, inner))
                                if esc is not None:
                                    raise CheckerError(
                                        'cannot judge %s: the wakers of the drained %s are handed to caller-visible '
                                        'storage (%s) instead of being woken in the drain closure; this rule does '
                                        'not follow a collection of wakers to the place where it is woken'
                                        % (close['path'], q, where(F, esc)))
                                waking = False
                    missing = [q for q in queues if q not in drained]
                    if not setf or missing or not waking or rv != 'NewlyClosed':
                        R.fail('C11.R2', [close['path'], 'newly-closed-path',
                                          'flag' if not setf else ('queues:' + ','.join(missing) if missing else
                                                                   ('no-wake' if not waking else 'status'))],
                               'close() on an open channel must set the flag, drain every wait queue (%s) with a '
                               'waking closure and return NewlyClosed; missing: flag_set=%s undrained=%s waking=%s '
                               'status=%s' % (','.join(queues), bool(setf), missing, waking, rv),
                               '%s:%s' % (close['file'], close['line']), {'trace': trace_summary(path)})
                    else:
                        R.ok('C11.R2', '%s|newly-closed|%s' % (close['path'], path_cond(E, path)),
                             {'function': close['path'], 'drained': sorted(drained), 'returns': rv})
                else:
                    R.fail('C11.R2', [close['path'], 'flag-not-tested'], 'close() does not test the flag', None)
            # R3 / R4 on the other entry methods
            naccept = 0
            for m in entry_methods(F, CG, st):
                role = method_role(F, m)[0]
                if m['path'] == close['path'] or role == 'other':
                    continue
                paths = E.run(m['path'])
                R.add_paths(m['path'], len(paths))
                is_send = role == 'send'
                for path in paths:
                    if path.exit != 'return':
                        continue
                    ff = flag_fact(E, path, flag)
                    accepts = []
                    for e in path.events:
                        if e['k'] == 'call' and e['name'] == 'push' and 'RingBuf' in e['callee']:
                            v = e['args'][1]
                            if not from_token(v):
                                accepts.append((e, 'push'))
                        elif e['k'] == 'write' and loc_endswith(e['loc'], 'value') and e['loc'][0] == ('P', 'self') \
                                and e['val'][0] == 'agg' and e['val'][2] == 'Some':
                            accepts.append((e, 'store'))
                        elif e['k'] == 'qop' and e['op'] == 'add_front' and loc_endswith(e['queue'], 'send_waiters') \
                                and (e['node'][0][0] != 'P' or entered_unqueued(path, e['node'][:1], 'Unregistered')):
                            # (re-inserting an already parked sender accepts nothing new: C09.R7 judges that)
                            accepts.append((e, 'park'))
                        elif e['k'] == 'write' and loc_endswith(e['loc'], 'state_id', '0') and e['loc'][0] == ('P', 'self'):
                            accepts.append((e, 'state_id'))
                    for e, kind in accepts:
                        naccept += 1
                        if ff == 0:
                            R.ok('C11.R3', '%s|%s|%s' % (m['path'], kind, path_cond(E, path)),
                                 {'function': m['path'], 'acceptance': kind, 'guard': '%s == false' % flag})
                        else:
                            R.fail('C11.R3', [m['path'], kind, 'accept-without-open-test'],
                                   '%s accepts a new value (%s) on a path that has not observed %s == false [%s]' % (
                                       m['path'], kind, flag, path_cond(E, path)), where(F, e),
                                   {'trace': trace_summary(path)})
                    if is_send and ff == 1:
                        # closed path: the caller's own value goes back
                        if is_param_value(path.ret) and not accepts:
                            R.ok('C11.R3', '%s|closed-returns-value' % m['path'])
                        else:
                            R.fail('C11.R3', [m['path'], 'closed-path-does-not-return-value'],
                                   '%s on a closed channel does not hand the caller\'s own value back (returns %s)'
                                   % (m['path'], fmt_val(path.ret)), '%s:%s' % (m['file'], m['line']),
                                   {'trace': trace_summary(path)})
                    if role == 'receive':
                        slot0 = ('init', (('P', 'self'), 'value'))
                        delivers = from_token(path.ret) or (contains(path.ret, slot0) and
                                                            E.variant_known(path.facts, slot0) != ('eq', 'None')) \
                            or any(e['k'] == 'call' and e['name'] in ('pop', 'clone') and contains(path.ret, e['ret'])
                                   for e in path.events if e.get('ret'))
                        if delivers and ff is not None and _has_flag_twin(paths, path, flag):
                            # the flag was looked at (eagerly), but the same delivery happens for either value
                            R.ok('C11.R4', '%s|delivery for either flag value|%s' % (m['path'], path_cond(E, path)))
                        elif delivers and ff == 1 and flag == 'is_fulfilled':
                            # oneshot: the flag means "decided" (a value was sent OR the channel was closed); a value is
                            # only ever stored together with it (C12.R1 / R6), so delivering under it loses nothing
                            R.ok('C11.R4', '%s|delivery under the decided flag|%s' % (m['path'], path_cond(E, path)))
                        elif delivers and ff is not None:
                            R.fail('C11.R4', [m['path'], 'delivery-depends-on-flag'],
                                   '%s delivers a value only after looking at %s: values accepted before close() '
                                   'must still be received [%s]' % (m['path'], flag, path_cond(E, path)),
                                   '%s:%s' % (m['file'], m['line']), {'trace': trace_summary(path)})
                        elif delivers:
                            R.ok('C11.R4', '%s|delivery|%s' % (m['path'], path_cond(E, path)))
                        elif ff == 1:
                            # closed result: an availability test must have come first
                            idx_flag = next((i for i, e in enumerate(path.events)
                                             if e['k'] == 'assume' and e['expr'][0] == 'init'
                                             and loc_endswith(e['expr'][1], flag)), len(path.events))
                            avail = [i for i, e in enumerate(path.events) if i < idx_flag and (
                                (e['k'] == 'call' and e['name'] in ('is_empty', 'len') and 'RingBuf' in e['callee'])
                                or (e['k'] == 'take' and loc_endswith(e['loc'], 'value'))
                                or (e['k'] == 'assume' and 'value' in fmt_val(e['expr']))
                                or e['k'] == 'cmp')]
                            if not avail:
                                # the availability test may be a match on the slot (a variant fact), not an event
                                for slot in ('value',):
                                    if E.variant_known(path.facts, ('init', (('P', 'self'), slot))) is not None:
                                        avail = [0]
                            if avail:
                                R.ok('C11.R4', '%s|closed-after-availability-test' % m['path'])
                            else:
                                R.fail('C11.R4', [m['path'], 'closed-before-availability-test'],
                                       '%s reports closed/None without first testing for an available value' %
                                       m['path'], '%s:%s' % (m['file'], m['line']), {'trace': trace_summary(path)})
            R.floor('C11.R3 acceptances[%s] %s' % (cfg, st), naccept, 1)
        if cfg == 'none':
            continue
        # ---------------- R5 handle lifecycle
        handles = []
        for a in F.raw['adts']:
            if '::shared::' not in a['path'] or a['kind'] != 'struct':
                continue
            for f in a['variants'][0]['fields']:
                t = f['ty']
                if t.get('k') == 'adt' and t['path'] == ARC and t['args'] and t['args'][0].get('k') == 'adt' \
                        and t['args'][0].get('local'):
                    drops = [fn for fn in F.raw['fns'] if fn.get('impl_adt') == a['path']
                             and (fn.get('impl_trait') or '').endswith('ops::Drop')]
                    if drops:
                        handles.append((a, f, t['args'][0]['path'], drops[0]))
        R.floor('C11.R5 shared-handles[%s]' % cfg, len(handles), 8)
        counter_users = set()
        for a, f, shared, dropfn in handles:
            hname = a['path'].split('::')[-1]
            is_clone = bool(F.impls_of(trait_suffix='clone::Clone', self_adt=a['path'])) or a['self_auto']['Clone']
            side = 'receivers' if 'Receiver' in hname else 'senders'
            paths = E.run(dropfn['path'])
            R.add_paths(dropfn['path'], len(paths))
            nclose = 0
            for path in paths:
                if path.exit != 'return':
                    continue
                own_frame = path.events[0]['frame'] if path.events else None
                # a close called by the destructor itself: the public wrapper or, under its own lock, the state's
                closes = [e for e in path.events if e['k'] == 'call' and e['mode'] == 'inline'
                          and (e['name'] == 'close' or e['callee'] in _direct_closers(F))][:1]
                subs = [e for e in path.events if e['k'] == 'call' and e['name'] == 'fetch_sub']
                for e in subs:
                    counter_users.add(dropfn['path'])
                if not closes:
                    continue
                nclose += 1
                if not is_clone:
                    R.ok('C11.R5', '%s|not Clone: unconditional close' % hname)
                    continue
                good = False
                why = 'no fetch_sub on a handle counter'
                for e in subs:
                    cf = fields_of(e['args'][0][1]) if e['args'][0][0] == 'ref' else ()
                    if e['args'][1] != ('const', 1):
                        why = 'fetch_sub amount is not 1'
                        continue
                    if const_of(E, path.facts, e['ret']) != 1:
                        why = 'close is not conditional on fetch_sub(1) == 1'
                        continue
                    if not cf or cf[-1] != side:
                        why = 'the %s handle decrements the `%s` counter' % (side[:-1], cf[-1] if cf else '?')
                        continue
                    good = True
                if good:
                    R.ok('C11.R5', '%s|close under fetch_sub(1)==1 on %s' % (hname, side),
                         {'handle': a['path'], 'counter': side, 'path_condition': path_cond(E, path)})
                else:
                    R.fail('C11.R5', [hname, 'uncounted-close'],
                           '%s is Clone but its Drop closes the channel although %s: dropping one clone closes the '
                           'channel for all' % (hname, why), '%s:%s' % (dropfn['file'], dropfn['line']),
                           {'trace': trace_summary(path)})
            no_counter = is_clone and not any(
                e['k'] == 'call' and e['name'] == 'fetch_sub' for p2 in paths for e in p2.events)
            if no_counter:
                continue  # one defect, one key: the uncounted close above
            if nclose == 0:
                R.fail('C11.R5', [hname, 'drop-never-closes'],
                       'dropping the last %s never closes the channel' % hname,
                       '%s:%s' % (dropfn['file'], dropfn['line']))
            if is_clone:
                cl = [fn for fn in F.raw['fns'] if fn.get('impl_adt') == a['path']
                      and (fn.get('impl_trait') or '').endswith('clone::Clone') and fn.get('name') == 'clone']
                for fn in cl:
                    adds = [t for t in (b['term'] for b in fn['blocks'] if not b['cleanup'])
                            if t['k'] == 'call' and 'fn' in t['func'] and t['func']['fn']['name'] == 'fetch_add']
                    cpaths = E.run(fn['path'])
                    R.add_paths(fn['path'], len(cpaths))
                    ok = True
                    for path in cpaths:
                        if path.exit != 'return':
                            continue
                        ev = [e for e in path.events if e['k'] == 'call' and e['name'] == 'fetch_add']
                        if len(ev) != 1 or ev[0]['args'][1] != ('const', 1) or \
                                fields_of(ev[0]['args'][0][1])[-1] != side:
                            ok = False
                        else:
                            counter_users.add(fn['path'])
                    # the overflow guard (as in Arc) may only fire for an astronomically large count; clone returns
                    # on every other path
                    from common import cmp_fact
                    for path in cpaths:
                        if path.exit != 'panic':
                            continue
                        ev = [e for e in path.events if e['k'] == 'call' and e['name'] == 'fetch_add']
                        big = False
                        for k in path.facts:
                            if isinstance(k, tuple) and k and k[0] == 'bin' and k[1] in ('Gt', 'Ge', 'Lt', 'Le'):
                                for c in (k[2], k[3]):
                                    if c[0] == 'const' and isinstance(c[1], int) and c[1] >= 2 ** 31 - 1 and ev and \
                                            (cmp_fact(E, path.facts, 'Gt', ev[0]['ret'], c) == 1 or
                                             cmp_fact(E, path.facts, 'Ge', ev[0]['ret'], c) == 1):
                                        big = True
                        if big:
                            R.ok('C11.R5', '%s|clone panics only beyond the refcount limit' % hname)
                        else:
                            R.fail('C11.R5', [hname, 'clone-panics-below-limit'],
                                   '%s::clone can panic on a path that has not established that the handle count '
                                   'exceeds the overflow limit [%s]' % (hname, path_cond(E, path)),
                                   '%s:%s' % (fn['file'], fn['line']), {'trace': trace_summary(path)})
                    if not any(p2.exit == 'return' for p2 in cpaths):
                        R.fail('C11.R5', [hname, 'clone-never-returns'], '%s::clone has no returning path' % hname,
                               '%s:%s' % (fn['file'], fn['line']))
                    if ok and (adds or any(p2.exit == 'return' for p2 in cpaths)):
                        R.ok('C11.R5', '%s|clone increments %s' % (hname, side))
                    else:
                        R.fail('C11.R5', [hname, 'clone-does-not-count'],
                               '%s::clone does not increment the `%s` counter exactly once' % (hname, side),
                               '%s:%s' % (fn['file'], fn['line']))
                # constructor initialises the counter to 1
                inits = 0
                seen_init = 0
                for fn, s, cl2 in scan_aggregates(F, shared):
                    rv = s['rv']
                    if side in rv['fields']:
                        ps = E.run(fn['path'])
                        for path in ps:
                            for e in path.events:
                                if e['k'] == 'call' and e['name'] == 'new' and 'atomic' in e['callee'] and e['args']:
                                    seen_init += 1
                                    if e['args'][0] == ('const', 1):
                                        inits += 1
                        break
                if seen_init == 0:
                    raise CheckerError('cannot judge: the initial value of the `%s` counter of %s is not visible as an '
                                       'AtomicUsize::new(<constant>) call at its construction site' % (side, hname))
                if inits >= 1:
                    R.ok('C11.R5', '%s|constructor sets %s = 1' % (hname, side))
                else:
                    R.fail('C11.R5', [hname, 'counter-not-initialised-to-one'],
                           'the shared state of %s does not start with %s == 1' % (hname, side), None)
        # nobody else touches the counters
        for fn, t, cl in scan_calls(F, lambda ci: ci['name'] in ('fetch_add', 'fetch_sub', 'store', 'swap',
                                                                 'compare_exchange') and 'atomic' in ci['path']):
            if '::shared::' not in fn['path']:
                continue
            tr = fn.get('impl_trait') or ''
            # a private helper that only the handles' Clone / Drop impls call is part of them
            from rl import lift_private_callers as _lift
            callers = [F.fn(c) or {} for c in _lift(F, CG, fn['path'])]
            helper = bool(callers) and all((c.get('impl_trait') or '').endswith(('clone::Clone', 'ops::Drop'))
                                           and '::shared::' in c.get('path', '') for c in callers)
            if tr.endswith('clone::Clone') or tr.endswith('ops::Drop') or helper:
                R.ok('C11.R5', 'counter-user|%s' % fn['path'])
            else:
                R.fail('C11.R5', [fn['path'], 'foreign-counter-user'],
                       'a handle counter is modified in %s (only Clone/Drop of the handles may)' % fn['path'],
                       F.loc(fn, t['ln']))
        # ---------------- R6 last mpmc receiver clears
        rd = [h for h in handles if h[0]['path'].endswith('GenericReceiver')]
        if not rd:
            raise CheckerError('anchor=shared::GenericReceiver not found')
        for path in E.run(rd[0][3]['path']):
            if path.exit != 'return':
                continue
            closes = [i for i, e in enumerate(path.events) if e['k'] == 'call' and e['name'] == 'close'
                      and 'GenericChannel' in e['callee']]
            # the discard: a call of ChannelState::clear, or - when that was folded into the destructor - its drain loop
            # (the emptiness test of the buffer / a pop whose value is not delivered), after the close
            # (whatever form it takes - clear(), the drain loop, or swapping the whole buffer out - it is the buffer
            # access that follows the close)
            close_end = 0
            if closes:
                eid0 = path.events[closes[0]].get('eid')
                close_end = next((i for i, e in enumerate(path.events) if e['k'] == 'ret' and e.get('eid') == eid0),
                                 closes[0])
            clears = [i for i, e in enumerate(path.events) if i > close_end and (
                (e['k'] == 'call' and (e['name'] == 'clear' or (e['name'] in ('is_empty', 'pop', 'len')
                                                                 and 'RingBuf' in e.get('callee', ''))))
                or (e['k'] in ('replace', 'write') and e.get('loc') and fields_of(e['loc'])[-1:] == ('buffer',)))]
            if not closes:
                clears = [i for i, e in enumerate(path.events) if e['k'] == 'call' and (
                    e['name'] == 'clear' or (e['name'] in ('is_empty', 'pop') and 'RingBuf' in e.get('callee', '')))]
            subs = [e for e in path.events if e['k'] == 'call' and e['name'] == 'fetch_sub']
            last = any(const_of(E, path.facts, e['ret']) == 1 for e in subs)
            if last and not clears:
                R.fail('C11.R6', ['GenericReceiver', 'last-receiver-does-not-clear'],
                       'a path on which the last mpmc receiver is dropped (fetch_sub(1) == 1) returns without '
                       'discarding the buffered values [%s]' % path_cond(E, path),
                       '%s:%s' % (rd[0][3]['file'], rd[0][3]['line']), {'trace': trace_summary(path)})
            elif closes and not (clears and clears[0] > closes[0]):
                R.fail('C11.R6', ['GenericReceiver', 'clear-before-close'],
                       'the last mpmc receiver discards buffered values before closing: a concurrent send could '
                       'still be accepted afterwards', '%s:%s' % (rd[0][3]['file'], rd[0][3]['line']))
            elif last:
                R.ok('C11.R6', 'GenericReceiver|last receiver: clear after close|%s' % path_cond(E, path))
            elif clears:
                R.fail('C11.R6', ['GenericReceiver', 'clear-without-last'],
                       'buffered values are discarded while other receivers are alive',
                       '%s:%s' % (rd[0][3]['file'], rd[0][3]['line']))
        # R5b: the converse of the counted close - the LAST handle of a side does close, unless the path
        # has observed that the OTHER side is already gone - and that other side's last handle closes without such an
        # excuse (if both sides may skip, two concurrent last drops each see the other's counter at zero and the
        # channel stays open with no handle left)
        excuses = {}    # (shared state, own side) -> set of counters whose load == 0 excused a missing close
        sides = {}
        for a, f, shared, dropfn in handles:
            hname = a['path'].split('::')[-1]
            side = 'receivers' if 'Receiver' in hname else 'senders'
            sides.setdefault((shared, side), []).append(hname)
            for path in E.run(dropfn['path']):
                if path.exit != 'return':
                    continue
                subs = [e for e in path.events if e['k'] == 'call' and e['name'] == 'fetch_sub']
                if not subs:
                    continue   # uncounted (non-Clone) handles close unconditionally: checked by R5
                last = any(const_of(E, path.facts, e['ret']) == 1 for e in subs)
                if not last:
                    continue
                closes = [e for e in path.events if e['k'] == 'call' and e.get('mode') == 'inline'
                          and (e['name'] == 'close' or e['callee'] in _direct_closers(F))]
                gone = set()
                for e in path.events:
                    if e['k'] == 'call' and e['name'] == 'load' and const_of(E, path.facts, e['ret']) == 0 \
                            and e['args'] and e['args'][0][0] == 'ref':
                        cf = fields_of(e['args'][0][1])
                        if cf and cf[-1] != side:
                            gone.add(cf[-1])
                if closes:
                    R.ok('C11.R5', '%s|last handle closes|%s' % (hname, path_cond(E, path)))
                elif gone:
                    excuses.setdefault((shared, side), set()).update(gone)
                    R.ok('C11.R5', '%s|last handle leaves the close to the other side, seen gone|%s' % (hname, path_cond(E, path)))
                else:
                    R.fail('C11.R5', [hname, 'last-handle-does-not-close'],
                           'a path on which the last %s is dropped (fetch_sub(1) == 1) does not close the channel' %
                           hname, '%s:%s' % (dropfn['file'], dropfn['line']), {'trace': trace_summary(path)})
        for (shared, side), gone in sorted(excuses.items()):
            for other in sorted(gone):
                if (shared, other) not in sides:
                    R.fail('C11.R5', [sides[(shared, side)][0], 'close-skipped-on-foreign-counter', other],
                           'the last %s handle skips the close when `%s` is zero, which is not the handle counter of '
                           'the other side of %s' % (side[:-1], other, shared), None)
                elif (shared, other) in excuses:
                    if side < other:    # one key per pair
                        R.fail('C11.R5', [shared.split('::')[-1], 'last-handle-close-skipped-on-both-sides'],
                               'the last %s and the last %s of %s each skip the close when they see the other side\'s '
                               'counter at zero: dropped concurrently, both decrement first, both see zero, and the '
                               'channel is never closed although no handle is left (pending futures are never woken)'
                               % (side[:-1], other[:-1], shared), None)
                else:
                    R.ok('C11.R5', '%s|%s may leave the close to %s, which always closes' % (shared, side, other))
        # R5c: every counted handle is counted when it is made
        from common import counted_handle_sites
        R.floor('C11.R5 counted-handle construction paths[%s]' % cfg, counted_handle_sites(R, E, F, CG, 'C11.R5'), 8)
        # R7: the variant predicates of the status / error enums say what the variant is
        n7 = 0
        for enum, preds in (('channel::channel_future::CloseStatus',
                             (('is_newly_closed', 'NewlyClosed'), ('is_already_closed', 'AlreadyClosed'))),
                            ('channel::error::TryReceiveError', (('is_empty', 'Empty'), ('is_closed', 'Closed'))),
                            ('channel::error::TrySendError', (('is_full', 'Full'), ('is_closed', 'Closed')))):
            if enum not in F.adts:
                raise CheckerError('anchor=%s missing' % enum)
            for pname, variant in preds:
                fn = F.one_fn(impl_adt=enum, name=pname)
                seen = set()
                for path in E.run(fn['path']):
                    k = None
                    for subj in (('param', 'self'), ('init', (('P', 'self'),))):
                        k = k or E.variant_known(path.facts, subj)
                    v = k[1] if k and k[0] == 'eq' else None
                    n7 += 1
                    # `self == Enum::Variant` (derived PartialEq on a field-less enum): the answer IS the variant test
                    r = path.ret
                    if v is None and path.exit == 'return' and isinstance(r, tuple) and len(r) == 4 and r[0] == 'bin' \
                            and r[1] in ('Eq', 'Ne'):
                        lit = [x for x in r[2:4] if x[0] == 'agg' and x[1] == enum and not x[3]]
                        subj2 = [x for x in r[2:4] if x in (('param', 'self'), ('init', (('P', 'self'),)))]
                        if lit and subj2 and not F.adt(enum)['variants'][0]['fields']:
                            if (lit[0][2] == variant) == (r[1] == 'Eq'):
                                R.ok('C11.R7', '%s::%s() == (self == %s)' % (enum.split('::')[-1], pname, variant))
                            else:
                                R.fail('C11.R7', [fn['path'], lit[0][2], 'wrong-answer'],
                                       '%s::%s() compares with %s' % (enum.split('::')[-1], pname, lit[0][2]),
                                       '%s:%s' % (fn['file'], fn['line']))
                            seen.update(E.variants_of(enum))
                            continue
                    if v is None or path.exit != 'return':
                        R.fail('C11.R7', [fn['path'], 'shape'], '%s::%s() has a path that does not decide on the '
                               'variant or panics' % (enum, pname), '%s:%s' % (fn['file'], fn['line']))
                        continue
                    seen.add(v)
                    want = 1 if v == variant else 0
                    if const_of(E, path.facts, path.ret) == want:
                        R.ok('C11.R7', '%s::%s(%s) == %s' % (enum.split('::')[-1], pname, v, bool(want)))
                    else:
                        R.fail('C11.R7', [fn['path'], v, 'wrong-answer'],
                               '%s::%s() returns %s for %s' % (enum.split('::')[-1], pname, fmt_val(path.ret), v),
                               '%s:%s' % (fn['file'], fn['line']))
                if seen != set(E.variants_of(enum)):
                    R.fail('C11.R7', [fn['path'], 'variants-not-covered'], '%s::%s() does not cover %s' % (
                        enum, pname, sorted(set(E.variants_of(enum)) - seen)), '%s:%s' % (fn['file'], fn['line']))
        R.floor('C11.R7 predicate-cases[%s]' % cfg, n7, 6)   # six predicates, >= one path each
        # the error types hand the rejected value back: into_inner returns the payload of either variant
        fn = F.one_fn(impl_adt='channel::error::TrySendError', name='into_inner')
        for path in E.run(fn['path']):
            k = E.variant_known(path.facts, ('param', 'self'))
            v = k[1] if k and k[0] == 'eq' else None
            want = E.project(('param', 'self'), (('dc', v), '0')) if v else None
            if path.exit == 'return' and v and path.ret == want:
                R.ok('C11.R7', 'TrySendError::into_inner(%s) returns its payload' % v)
            else:
                R.fail('C11.R7', [fn['path'], str(v), 'payload-not-returned'],
                       'TrySendError::into_inner() returns %s for %s' % (fmt_val(path.ret), v),
                       '%s:%s' % (fn['file'], fn['line']))
        # R8: the error variant tells the truth about the flag: Closed only on a path that saw is_closed == true,
        # Full / Empty only on a path that saw it false
        n8 = 0
        st = 'channel::mpmc::ChannelState'
        for m in entry_methods(F, CG, st):
            for path in E.run(m['path']):
                if path.exit != 'return':
                    continue
                errs = []
                _find_err(path.ret, errs)
                for v in errs:
                    n8 += 1
                    ff = flag_fact(E, path, 'is_closed')
                    want = 1 if v[2] == 'Closed' else 0
                    if ff == want:
                        R.ok('C11.R8', '%s|%s::%s under is_closed == %s' % (m['path'], v[1].split('::')[-1], v[2], bool(want)))
                    else:
                        R.fail('C11.R8', [m['path'], v[1].split('::')[-1], v[2], 'error-variant-contradicts-flag'],
                               '%s returns %s::%s on a path with is_closed %s' % (
                                   m['path'], v[1].split('::')[-1], v[2],
                                   'unknown' if ff is None else ('true' if ff else 'false')),
                               '%s:%s' % (m['file'], m['line']), {'trace': trace_summary(path)})
        R.floor('C11.R8 error-returns[%s]' % cfg, n8, 4)


def _find_err(v, out, depth=0):
    if not isinstance(v, tuple) or depth > 8:
        return
    if v and v[0] == 'agg' and v[1] in ('channel::error::TrySendError', 'channel::error::TryReceiveError'):
        out.append(v)
        return
    for x in v:
        if isinstance(x, tuple):
            _find_err(x, out, depth + 1)
