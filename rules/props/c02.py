"""C02 — async mutex: at most one guard.  Inductive invariant `is_locked <=> one guard exists`."""
from rl import (entry_methods, fields_of, loc_endswith, path_cond, trace_summary, where, const_of, fmt_val)
from common import contains, scan_field_writes, scan_calls, scan_aggregates, const_of_rvalue, rpath, poll_variant
from lib import CheckerError

STATE = 'sync::mutex::MutexState'
GUARD = 'sync::mutex::GenericMutexGuard'
MUTEX = 'sync::mutex::GenericMutex'
FUT = 'sync::mutex::GenericMutexLockFuture'


def has_agg(v, adt, depth=0):
    if not isinstance(v, tuple) or depth > 8:
        return False
    if v and v[0] == 'agg' and v[1] == adt:
        return True
    return any(isinstance(s, tuple) and has_agg(s, adt, depth + 1) for s in v)


def lock_writes(path):
    return [e for e in path.events if e['k'] == 'write' and loc_endswith(e['loc'], 'is_locked')]


def run(C, R):
    R.explanation = ('Inductive argument for "is_locked <=> exactly one guard alive": R1 every guard construction '
                     'site lies on a path that set is_locked from proven-false to true (and vice versa: a path that '
                     'sets the bit hands out a guard); R2 in the state functions the bit is set at most once per '
                     'path and only when its current value is known false; R3 it is cleared only by unlock, which '
                     'is called only from the guard destructor; R4 the guard is neither Clone nor Copy, its field '
                     'is private and the protected UnsafeCell is dereferenced only by the guard; R5 is_locked() '
                     'returns the bit.  Evaluated on every control-flow path of the MIR of the listed functions.')
    R.trusted += ['rustc nightly MIR + trait solver', 'lock_api::Mutex serialises the state functions',
                  'engine summaries for Option/Pin/Deref']
    R.assumptions += ['a leaked guard (mem::forget) counts as alive forever',
                      'the internal lock serialises all state functions (each is one atomic transition)']
    for cfg in C.configs():
        F = C.facts(cfg)
        E = C.engine(cfg)
        CG = C.cg(cfg)
        R.configs.append(cfg)
        from common import constructor_state
        constructor_state(R, C.engine(cfg), C.facts(cfg), STATE, {'is_locked': ('const', 0), 'is_fair': ('param', 'is_fair'), 'waiters': 'empty-queue'}, 'C02.R0')
        from common import wrapper_discipline
        R.floor('C02.W wrapper-paths[%s]' % cfg, wrapper_discipline(C, R, cfg, ['sync::mutex::MutexState'], 'C02.W'), 2)
        F.adt(STATE)
        # ---- R1: guard construction sites
        sites = [(fn, s) for fn, s, cl in scan_aggregates(F, GUARD) if not cl]
        # (a guard built inside a closure - `acquired.then(|| guard)` - is judged on the paths of the enclosing function)
        site_fns = set(CG.root_fn(fn['path']) for fn, _ in sites)
        # a private constructor (`GenericMutexGuard::new(mutex)`) only wraps its argument: whether the guard is
        # entitled is decided by whoever calls it - judged there, with the constructor inlined
        for _i in range(3):
            for fp in sorted(site_fns):
                f_ = F.fn(fp) or {}
                cs_ = [c for c, _ in CG.callers_of(fp) if c != fp]
                if cs_ and not f_.get('reachable') and not f_.get('impl_trait') and not any(
                        e_ for e_ in [1] if any(b['term']['k'] == 'call' and 'fn' in b['term']['func'] and
                                                b['term']['func']['fn']['name'] == 'lock' for b in f_.get('blocks', []))):
                    site_fns.discard(fp)
                    site_fns.update(cs_)
        site_fns = sorted(site_fns)
        R.floor('C02.R1 guard-construction-sites[%s]' % cfg, len(site_fns), 2)
        for fp in site_fns:
            fn = F.fn(fp)
            paths = E.run(fp)
            R.add_paths(fp, len(paths))
            for path in paths:
                if path.exit != 'return':
                    continue
                gives = has_agg(path.ret, GUARD)
                sets = [w for w in lock_writes(path) if w['val'] == ('const', 1)]
                proven = [w for w in sets if const_of(E, path.facts, w['old']) == 0]
                if gives and not (len(sets) == 1 and len(proven) == 1):
                    R.fail('C02.R1', [fp, 'guard-without-grant', path_cond(E, path)],
                           '%s hands out a guard on a path that did not take the lock from a proven-free state '
                           '[%s]' % (fp, path_cond(E, path)), '%s:%s' % (fn['file'], fn['line']),
                           {'trace': trace_summary(path)})
                elif (not gives) and sets:
                    R.fail('C02.R1', [fp, 'grant-without-guard', path_cond(E, path)],
                           '%s sets is_locked but returns no guard [%s]' % (fp, path_cond(E, path)),
                           where(F, sets[0]), {'trace': trace_summary(path)})
                else:
                    R.ok('C02.R1', '%s|%s' % (fp, path_cond(E, path)),
                         {'function': fp, 'returns_guard': gives, 'path_condition': path_cond(E, path)})
        # ---- R2: state functions
        nset = 0
        for m in entry_methods(F, CG, STATE):
            paths = E.run(m['path'])
            R.add_paths(m['path'], len(paths))
            for path in paths:
                if path.exit != 'return':
                    continue
                ws = lock_writes(path)
                sets = [w for w in ws if w['val'] == ('const', 1)]
                clears = [w for w in ws if w['val'] == ('const', 0)]
                other = [w for w in ws if w not in sets and w not in clears]
                for w in other:
                    R.fail('C02.R2', [m['path'], 'non-constant-write'],
                           'is_locked written with a non-constant value %s' % fmt_val(w['val']), where(F, w))
                rv = path.ret
                # (a returned bool may be a variable whose value the path knows: `let can_lock = ..; ..; can_lock`)
                grant = (rv == ('const', 1)) or const_of(E, path.facts, rv) == 1 or poll_variant(E, path) == 'Ready'
                if len(sets) > 1:
                    R.fail('C02.R2', [m['path'], 'double-set', path_cond(E, path)],
                           'is_locked set twice on one path', where(F, sets[1]))
                for w in sets:
                    nset += 1
                    if const_of(E, path.facts, w['old']) == 0:
                        R.ok('C02.R2', '%s|set|%s' % (m['path'], path_cond(E, path)),
                             {'function': m['path'], 'write': 'is_locked := true', 'old_value_proven': 'false',
                              'path_condition': path_cond(E, path)})
                    else:
                        R.fail('C02.R2', [m['path'], 'set-without-free-test', path_cond(E, path)],
                               '%s sets is_locked = true while its current value is not known to be false [%s]'
                               % (m['path'], path_cond(E, path)), where(F, w), {'trace': trace_summary(path)})
                if sets and not grant:
                    R.fail('C02.R2', [m['path'], 'set-on-non-grant-path', path_cond(E, path)],
                           '%s sets is_locked on a path that does not report success' % m['path'],
                           where(F, sets[0]))
                if grant and not sets:
                    R.fail('C02.R2', [m['path'], 'grant-without-set', path_cond(E, path)],
                           '%s reports success without setting is_locked [%s]' % (m['path'], path_cond(E, path)),
                           '%s:%s' % (m['file'], m['line']), {'trace': trace_summary(path)})
                elif grant:
                    R.ok('C02.R2', '%s|grant|%s' % (m['path'], path_cond(E, path)))
        R.floor('C02.R2 set-sites[%s]' % cfg, nset, 3)
        # ---- R3: who may write / clear: the bit is cleared only in code reachable solely from the guard's Drop
        writes = scan_field_writes(F, 'is_locked', 'sync::mutex')
        clear_fns = set()
        for fn, s in writes:
            rv = s['rv']
            val = const_of_rvalue(fn, rv)
            if fn.get('impl_adt') != STATE:
                R.fail('C02.R3', [fn['path'], 'foreign-writer'],
                       'is_locked written outside MutexState: %s' % fn['path'], F.loc(fn, s['ln']))
                continue
            if val == 0:
                clear_fns.add(fn['path'])
            elif val == 1:
                R.ok('C02.R3', '%s|set' % fn['path'])
            else:
                R.fail('C02.R3', [fn['path'], 'non-constant-write'], 'is_locked written with a non-constant',
                       F.loc(fn, s['ln']))
        # ... and stores made through a call (`mem::take(&mut self.is_locked)`, `mem::replace(.., false)`): from the events
        for m in F.methods_of(STATE):
            if m.get('name') == 'new':
                continue
            for path in E.run(m['path']):
                for w in lock_writes(path):
                    if const_of(E, path.facts, w['val']) == 0 and w['fn'] not in clear_fns and \
                            (const_of(E, path.facts, w['old']) != 0):
                        if (F.fn(w['fn']) or {}).get('impl_adt') == STATE:
                            clear_fns.add(w['fn'])
                        elif w['fn'].startswith('std::') or w['fn'].startswith('core::'):
                            clear_fns.add(m['path'])
        R.floor('C02.R3 clear-sites[%s]' % cfg, len(clear_fns), 1)
        for cf in sorted(clear_fns):
            seen, work, roots = set(), [cf], set()
            while work:
                p = work.pop()
                if p in seen:
                    continue
                seen.add(p)
                callers = [c for c, _ in CG.callers_of(p)]
                if not callers:
                    roots.add(p)
                work += callers
            for r in sorted(roots):
                rf = F.fn(r)
                if rf and rf.get('impl_adt') == GUARD and (rf.get('impl_trait') or '').endswith('ops::Drop'):
                    R.ok('C02.R3', '%s|cleared only via the guard destructor' % cf,
                         {'clearing_function': cf, 'only_api_root': r})
                else:
                    R.fail('C02.R3', [cf, 'clear-reachable-from', r],
                           'is_locked is cleared in %s, which is reachable from %s and not only from the guard '
                           'destructor' % (cf, r), '%s:%s' % (rf['file'], rf['line']) if rf else None)
        # ---- R6: the converse of R3 - dropping the guard does release the mutex on every path
        gd = [fn for fn in F.raw['fns'] if fn.get('impl_adt') == GUARD and (fn.get('impl_trait') or '').endswith('ops::Drop')]
        if len(gd) != 1:
            raise CheckerError('anchor=Drop impl of the mutex guard')
        paths = E.run(gd[0]['path'])
        R.add_paths(gd[0]['path'], len(paths))
        for path in paths:
            if path.exit != 'return':
                R.fail('C02.R6', [gd[0]['path'], 'guard-drop-panics'], 'dropping the guard can panic', None)
                continue
            ws = lock_writes(path)
            locked0 = None
            for k, v in path.facts.items():
                if isinstance(k, tuple) and k[0] == 'init' and loc_endswith(k[1], 'is_locked') and v[0] == 'eq':
                    locked0 = v[1]
            if locked0 == 0 and not ws:
                R.skip_infeasible()     # a guard exists => the bit is set (the invariant this property proves)
                continue
            if ws and ws[-1]['val'] == ('const', 0):
                R.ok('C02.R6', '%s|releases|%s' % (gd[0]['path'], path_cond(E, path)))
            else:
                R.fail('C02.R6', [gd[0]['path'], 'guard-drop-keeps-lock'],
                       'a path of the guard destructor returns without clearing is_locked: the mutex stays locked '
                       'with no guard alive [%s]' % path_cond(E, path), '%s:%s' % (gd[0]['file'], gd[0]['line']),
                       {'trace': trace_summary(path)})
        # ---- R4: guard uniqueness & cell access
        g = F.adt(GUARD)
        if g['self_auto']['Clone'] or g['self_auto']['Copy'] or F.impls_of(trait_suffix='clone::Clone', self_adt=GUARD) \
                or F.impls_of(trait_suffix='marker::Copy', self_adt=GUARD):
            R.fail('C02.R4', [GUARD, 'clone'], 'the mutex guard is Clone/Copy', '%s:%s' % (g['file'], g['line']))
        else:
            R.ok('C02.R4', 'guard-not-clone')
        for f in g['variants'][0]['fields']:
            if f['vis'] != 'private':
                R.fail('C02.R4', [GUARD, 'field-visible', f['name']], 'guard field %s is %s' % (f['name'], f['vis']),
                       '%s:%s' % (g['file'], g['line']))
            else:
                R.ok('C02.R4', 'guard-field-private|%s' % f['name'])
        mx = F.adt(MUTEX)
        for f in mx['variants'][0]['fields']:
            if f['vis'] != 'private':
                R.fail('C02.R4', [MUTEX, 'field-visible', f['name']], 'mutex field %s is %s' % (f['name'], f['vis']),
                       '%s:%s' % (mx['file'], mx['line']))
            else:
                R.ok('C02.R4', 'mutex-field-private|%s' % f['name'])
        cells = scan_calls(F, lambda ci: ci['path'].startswith('std::cell::UnsafeCell') and ci['name'] in (
            'get', 'get_mut', 'raw_get', 'into_inner', 'as_ptr'))
        ncell = 0
        for fn, t, cl in cells:
            if not fn['path'].lstrip('<').startswith('sync::mutex'):
                continue
            ncell += 1
            tr = fn.get('impl_trait') or ''
            if fn.get('impl_adt') == GUARD and (tr.endswith('ops::Deref') or tr.endswith('ops::DerefMut')):
                R.ok('C02.R4', 'cell-access|%s' % fn['path'])
            else:
                R.fail('C02.R4', [fn['path'], 'cell-access'],
                       'the protected value is reached through UnsafeCell::%s in %s, outside the guard\'s '
                       'Deref/DerefMut' % (t['func']['fn']['name'], fn['path']), F.loc(fn, t['ln']))
        R.floor('C02.R4 cell-access-sites[%s]' % cfg, ncell, 2)
        # any other use of the `value` field of the mutex (e.g. a raw projection) must be the constructor
        for fn in F.raw['fns']:
            if not fn['path'].lstrip('<').startswith('sync::mutex'):
                continue
            for b in fn['blocks']:
                for s in b['stmts']:
                    rv = s.get('rv') or {}
                    for key in ('ref', 'rawptr'):
                        pl = rv.get(key)
                        if pl and pl['p'] and isinstance(pl['p'][-1], dict) and pl['p'][-1].get('f') == 'value':
                            tr = fn.get('impl_trait') or ''
                            if not (fn.get('impl_adt') == GUARD and (tr.endswith('Deref') or tr.endswith('DerefMut'))):
                                R.fail('C02.R4', [fn['path'], 'value-borrow'],
                                       'the protected cell is borrowed in %s' % fn['path'], F.loc(fn, s['ln']))
        # ---- R5: is_locked() returns the bit
        isls = [f for f in F.methods_of(STATE) if f.get('name') == 'is_locked']
        if not isls:
            R.observe('C02.R5: MutexState has no is_locked() getter of its own (inlined into the public method, which '
                      'is judged below)')
        isl = isls[0] if isls else None
        paths = E.run(isl['path']) if isl else []
        if isl:
            R.add_paths(isl['path'], len(paths))
        for path in paths:
            if path.ret[0] == 'init' and loc_endswith(path.ret[1], 'is_locked') and not lock_writes(path):
                R.ok('C02.R5', isl['path'])
            else:
                R.fail('C02.R5', [isl['path'], 'not-the-bit'], 'is_locked() does not return the is_locked bit',
                       '%s:%s' % (isl['file'], isl['line']))
        pub = F.one_fn(impl_adt=MUTEX, name='is_locked')
        paths = E.run(pub['path'])
        R.add_paths(pub['path'], len(paths))
        for path in paths:
            if path.ret[0] == 'init' and loc_endswith(path.ret[1], 'is_locked') and \
                    any(e['k'] == 'lock' for e in path.events):
                R.ok('C02.R5', pub['path'])
            else:
                R.fail('C02.R5', [pub['path'], 'not-the-bit'],
                       'GenericMutex::is_locked() does not return the bit read under the lock',
                       '%s:%s' % (pub['file'], pub['line']))
