"""C14 — ManualResetEvent: a wait completes iff the event was set while it waited."""
from rl import (entry_methods, loc_endswith, path_cond, trace_summary, where, const_of, fmt_val, fmt_loc, fields_of)
from common import (w4_pending_stores_waker, w4_helper, poll_variant, own_node_roots)
from lib import CheckerError

STATE = 'sync::manual_reset_event::EventState'
EVENT = 'sync::manual_reset_event::GenericManualResetEvent'
IS_SET = ('init', (('P', 'self'), 'is_set'))


def run(C, R):
    R.explanation = ('R1 set(): on the not-yet-set MIR path writes is_set = true and drains the wait queue with a '
                     'closure that wakes the taken waker and marks the waiter Done (the per-waiter latch; C01.I1 '
                     'gives unlinked); on the already-set path nothing happens; R2 effect rule: reset() writes '
                     'is_set = false and does nothing else — no call, no other write, no queue op — so it neither '
                     'wakes nor completes anyone; R3 latch: a New waiter completes iff is_set is true at that poll, '
                     'a Done waiter completes on a path that does not read is_set (set happened while it waited, '
                     'even if reset since), a Waiting waiter stays Pending with the latest waker stored; '
                     'R4 is_set() returns the flag read under the lock.')
    R.trusted += ['rustc nightly MIR', 'queue-op summaries (C20)', 'lock_api::Mutex']
    R.assumptions += ['schedules are covered by the atomicity of the state functions under the internal lock']
    for cfg in C.configs():
        F = C.facts(cfg)
        E = C.engine(cfg)
        R.configs.append(cfg)
        from common import futures_start_initial as _fsi
        R.floor('C14.R0f future-construction-paths[%s]' % cfg, _fsi(C, R, cfg, ['sync::manual_reset_event::EventState'], 'C14.R0f'), 1)
        from common import constructor_state
        constructor_state(R, C.engine(cfg), C.facts(cfg), STATE, {'is_set': ('param', 'is_set'), 'waiters': 'empty-queue'}, 'C14.R0')
        from common import wrapper_discipline
        R.floor('C14.W wrapper-paths[%s]' % cfg, wrapper_discipline(C, R, cfg, ['sync::manual_reset_event::EventState'], 'C14.W'), 2)
        F.adt(STATE)
        # R1
        from rl import transitions_named, unknown_transitions
        CG = C.cg(cfg)
        unk = unknown_transitions(F, CG, STATE, ('set', 'reset', 'try_wait', 'remove_waiter', 'poll', 'drop', 'is_set'))
        if unk:
            raise CheckerError('cannot judge: %s act(s) as a transition of EventState (mutates it directly / composes '
                               'state calls) and C14 has no rule for an operation of that name' % ', '.join(unk))
        sets = transitions_named(F, CG, STATE, 'set')
        if not sets:
            raise CheckerError('anchor=EventState::set (no transition of that name)')
        nnew = 0
        for setf, path in [(f_, p_) for f_ in sets for p_ in E.run(f_['path'])]:
            if path.exit != 'return':
                R.fail('C14.R1', [setf['path'], 'panics'], 'set() can panic', None)
                continue
            was = None
            for k, v in path.facts.items():
                if k == IS_SET and v[0] == 'eq':
                    was = v[1]
                if isinstance(k, tuple) and k[0] == 'bin' and k[1] in ('Ne', 'Eq') and k[2] == IS_SET:
                    pass
            from common import effective as _eff
            # (a store of the value the flag is known to hold - `mem::replace(&mut is_set, true)` on the set path - is
            # not an effect)
            ws = [e for e in path.events if e['k'] in ('write', 'replace') and e.get('loc') and e['loc'][0] == ('P', 'self')
                  and _eff(E, path, e)]
            drains = [e for e in path.events if e['k'] == 'qop' and e['op'] in ('reverse_drain', 'drain')]
            if was == 1:
                if ws or drains:
                    R.fail('C14.R1', [setf['path'], 'already-set-path-has-effects'],
                           'set() on a set event changes state', '%s:%s' % (setf['file'], setf['line']))
                else:
                    R.ok('C14.R1', '%s|already set' % setf['path'])
                continue
            nnew += 1
            flagw = [e for e in ws if loc_endswith(e['loc'], 'is_set')]
            wrote = bool(flagw) and flagw[-1]['val'] == ('const', 1)     # the LAST word on the flag is `true`
            good = wrote and len(drains) == 1
            if good:
                tok = drains[0]['node']
                done = any(e['k'] == 'write' and e['loc'] == tok + ('data', 'state') and e['val'][0] == 'agg'
                           and e['val'][2] == 'Done' for e in path.events)
                tk = [t for t in path.events if t['k'] == 'take' and t['loc'] == tok + ('data', 'task')]
                woke = False
                if tk:
                    x = tk[0]['old']
                    inner = E.project(x, (('dc', 'Some'), '0'))
                    kk = E.variant_known(path.facts, x)
                    woke = any(w['k'] == 'wake' and w['waker'] in (x, inner) for w in path.events) or kk == ('eq', 'None')
                good = done and woke
            if good:
                R.ok('C14.R1', '%s|newly set|%s' % (setf['path'], path_cond(E, path)),
                     {'function': setf['path'], 'writes': 'is_set = true', 'drain': 'wake + Done for every waiter'})
            else:
                R.fail('C14.R1', [setf['path'], 'newly-set-path'],
                       'set() must set the flag and drain the queue waking every waiter and marking it Done',
                       '%s:%s' % (setf['file'], setf['line']), {'trace': trace_summary(path)})
        R.floor('C14.R1 newly-set-paths[%s]' % cfg, nnew, 1)
        # R2
        reset = F.one_fn(impl_adt=STATE, name='reset')
        paths = E.run(reset['path'])
        R.add_paths(reset['path'], len(paths))
        for path in paths:
            effects = [e for e in path.events if e['k'] in ('write', 'qop', 'call', 'wake', 'take', 'update_waker',
                                                            'drop', 'lock')]
            if reset['path'] in F.alias_fns:
                # the public method is the transition itself: taking / releasing the lock is its frame, not an effect -
                # nor is the plumbing that gets it there (a private `with_state(closure)` helper, the closure call)
                effects = [e for e in effects if not (
                    e['k'] == 'lock' or (e['k'] == 'drop' and ('MutexGuard' in str(e.get('ty')) or 'closure' in str(e.get('ty'))))
                    or (e['k'] == 'call' and (e.get('name') in ('deref', 'deref_mut', 'lock') or
                                              'MutexGuard' in str(e.get('callee')) or
                                              (e.get('mode') == 'inline' and not (F.fn(e['callee']) or {}).get('reachable')
                                               and F.fn(e['callee']) is not None and e['callee'] not in
                                               [m_['path'] for m_ in F.methods_of(STATE)]))))]
            good = (len(effects) == 1 and effects[0]['k'] == 'write' and loc_endswith(effects[0]['loc'], 'is_set')
                    and effects[0]['val'] == ('const', 0) and path.exit == 'return')
            if good:
                R.ok('C14.R2', reset['path'], {'function': reset['path'], 'only_effect': 'is_set = false'})
            else:
                R.fail('C14.R2', [reset['path'], 'reset-has-other-effects'],
                       'reset() must only clear the flag; effects on the path: %s' % [
                           (e['k'], e.get('callee') or e.get('op') or fmt_loc(e['loc']) if e.get('loc') else '')
                           for e in effects][:6], '%s:%s' % (reset['file'], reset['line']),
                       {'trace': trace_summary(path)})
        # R3
        tw = F.one_fn(impl_adt=STATE, name='try_wait')
        from common import own_node_roots as _onr
        _own = _onr(F, tw)
        root = (list(_own) or [(('P', 'wait_node'),)])[0]
        _nd = C.roles(cfg).node_data.get(_own.get(root) or '', {})
        # judged per entry state of the own node, whatever way the code tells the states apart (a `match` with one arm
        # per state, or early returns that treat two states alike): the entry state is assumed, one state at a time
        paths = []
        if _nd.get('state_enum') and _nd.get('state_field'):
            if getattr(F, 'entry_ctx', None) is None:
                F.entry_ctx = {}
            saved_ctx = F.entry_ctx.get(tw['path'])
            try:
                for v_ in E.variants_of(_nd['state_enum']):
                    F.entry_ctx[tw['path']] = {root[0][1]: (_nd['state_field'], _nd['state_enum'], frozenset([v_]))}
                    paths += E.run(tw['path'])
            finally:
                if saved_ctx is None:
                    F.entry_ctx.pop(tw['path'], None)
                else:
                    F.entry_ctx[tw['path']] = saved_ctx
        else:
            paths = E.run(tw['path'])
        R.add_paths(tw['path'], len(paths))
        seen = set()
        for path in paths:
            if path.exit != 'return':
                continue
            k0 = path.facts.get(('discr', ('init', root + ('data', 'state'))))
            s0 = k0[1] if k0 and k0[0] == 'eq' else None
            pv = poll_variant(E, path)
            isset = const_of(E, path.facts, IS_SET)
            seen.add(s0)
            if s0 == 'New':
                if (pv == 'Ready') == (isset == 1) and isset is not None:
                    R.ok('C14.R3', '%s|New|is_set=%s -> %s' % (tw['path'], isset, pv))
                else:
                    R.fail('C14.R3', [tw['path'], 'new-arm', 'is_set=%s' % isset, str(pv)],
                           'a first poll must complete iff the event is set (is_set=%s, returns %s)' % (isset, pv),
                           '%s:%s' % (tw['file'], tw['line']), {'trace': trace_summary(path)})
            elif s0 == 'Done':
                if pv == 'Ready' and isset is None:
                    R.ok('C14.R3', '%s|Done|latched' % tw['path'])
                else:
                    R.fail('C14.R3', [tw['path'], 'done-arm', 'is_set=%s' % isset, str(pv)],
                           'a waiter that was set() while waiting must complete regardless of a later reset() '
                           '(reads is_set: %s, returns %s)' % (isset is not None, pv),
                           '%s:%s' % (tw['file'], tw['line']), {'trace': trace_summary(path)})
            elif s0 == 'Waiting':
                if pv == 'Pending':
                    R.ok('C14.R3', '%s|Waiting|Pending' % tw['path'])
                else:
                    R.fail('C14.R3', [tw['path'], 'waiting-arm', str(pv)],
                           'a queued waiter completes without having been set() (its state would be Done)',
                           '%s:%s' % (tw['file'], tw['line']), {'trace': trace_summary(path)})
        for need in ('New', 'Waiting', 'Done'):
            if need not in seen:
                raise CheckerError('anchor=try_wait arm for state %s not found' % need)
        w4_pending_stores_waker(R, E, F, tw, paths, 'C14.R3w')
        w4_helper(R, E, F, 'C14.R3h')
        # R4
        isfs = [f for f in F.methods_of(STATE) if f.get('name') == 'is_set']
        if not isfs:
            R.observe('C14.R4: EventState has no is_set() getter of its own (folded into the public method, judged below)')
        isf = isfs[0] if isfs else None
        for path in (E.run(isf['path']) if isf else []):
            if path.ret == IS_SET and not [e for e in path.events if e['k'] == 'write']:
                R.ok('C14.R4', isf['path'])
            else:
                R.fail('C14.R4', [isf['path'], 'not-the-flag'], 'is_set() does not return the flag', None)
        pub = F.one_fn(impl_adt=EVENT, name='is_set')
        for path in E.run(pub['path']):
            if path.ret[0] == 'init' and loc_endswith(path.ret[1], 'is_set') and any(e['k'] == 'lock' for e in path.events):
                R.ok('C14.R4', pub['path'])
            else:
                R.fail('C14.R4', [pub['path'], 'not-the-flag'], 'is_set() does not return the flag read under the lock', None)
        # the public set/reset forward to the state functions
        for nm in ('set', 'reset'):
            pubf = F.one_fn(impl_adt=EVENT, name=nm)
            if pubf['path'] in F.alias_fns:
                # the state function was folded into the public one, which was judged above as the transition itself
                R.ok('C14.R4', '%s is the transition itself' % pubf['path'])
                continue
            ps = E.run(pubf['path'])
            R.add_paths(pubf['path'], len(ps))
            hit = any(any(e['k'] == 'call' and e['callee'].endswith('EventState::' + nm) for e in p.events) for p in ps)
            def _nothing_to_do(p, nm=nm):
                # the path looked at the flag under the lock and saw the value this operation would establish:
                # the state's own set()/reset() is a no-op then (R1 / R2)
                want = 1 if nm == 'set' else 0
                for k_, v_ in p.facts.items():
                    if isinstance(k_, tuple) and k_[0] == 'init' and isinstance(k_[1], tuple) and '<locked>' in k_[1] \
                            and loc_endswith(k_[1], 'is_set') and v_ == ('eq', want):
                        return any(e['k'] == 'lock' for e in p.events)
                return False
            allp = all(any(e['k'] == 'call' and e['callee'].endswith('EventState::' + nm) for e in p.events)
                       or _nothing_to_do(p) for p in ps if p.exit == 'return')
            if hit and allp:
                R.ok('C14.R4', '%s forwards' % pubf['path'])
            else:
                R.fail('C14.R4', [pubf['path'], 'does-not-forward'], '%s does not reach EventState::%s on every path'
                       % (pubf['path'], nm), '%s:%s' % (pubf['file'], pubf['line']))
