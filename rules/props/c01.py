"""C01 — no dangling waiter: inductive typestate invariant + drop / pin / lock / panic-site rules."""
from rl import (entry_methods, loc_endswith, path_cond, trace_summary, where, const_of, fmt_val, fmt_loc, fields_of,
                NODE_ADTS)
from common import (scan_calls, scan_aggregates, poll_variant, own_node_roots, contains, mutex_fair_J)
from specs import STATE_STRUCT_FLOOR, QUEUE_FLOOR, FUTURE_FLOOR, TYPESTATE, LOCK_BYPASS
from typestate import check_typestate
from engine import NONE, OPTION
from facts import ty_adt_paths
from lib import CheckerError

LOCAL_ACCESS_TRAITS = ('channel::channel_future::ChannelSendAccess', 'channel::channel_future::ChannelReceiveAccess',
                       'channel::state_broadcast::ChannelReceiveAccess', 'timer::timer::TimerAccess')
PANICS = ('begin_panic', 'panic', 'panic_fmt', 'assert_failed', 'unreachable_display', 'panic_display',
          'expect_failed', 'unwrap_failed', 'panic_nounwind', 'panic_explicit')


class SV:
    def __init__(self, store):
        self.store = store


def variant_of(E, path, v):
    if v[0] == 'agg':
        return v[2]
    k = E.variant_known(path.facts, v)
    return k[1] if k and k[0] == 'eq' else None


def run(C, R):
    R.explanation = ('Inductive invariant Inv: a node is in queue Q <=> its poll state is a linked state of Q; at most '
                     'one queue, at most once; only nodes of pinned, live futures are linked.  I1 typestate: for every '
                     'MIR path of every lock-protected state function (helpers inlined, queue ops summarised) and '
                     'every node it touches, linked(final state) == membership after the path\'s queue operations, '
                     'assuming the same at entry; a panic on a failed unlink must be infeasible; I2 every future '
                     'type that embeds a node has a Drop whose every path with a live handle takes the lock and '
                     'calls the state\'s remove function on its own node (dyn calls fanned out to every '
                     'implementor); I3 a Ready return leaves the own node unlinked; I4 add_front / insert are '
                     'reached from the public API only through Future::poll / Stream::poll_next (Pin<&mut Self>), '
                     'and the streams poll their inner future in place; I5 the internal lock is never bypassed '
                     '(zero-count scan with positive control; every state method receiver comes out of a lock '
                     'guard); I6 a node-bearing value is moved only before its first poll or after completion; '
                     'I7 shared futures restore their handle on Pending; P every explicit panic site of the crate '
                     'falls in a classified category (documented contract, or discharged by a named rule); a new '
                     'unclassified site is reported.')
    R.trusted += ['rustc nightly MIR', 'queue-op summaries (C20 checks their schema)', 'lock_api::Mutex',
                  'rules/specs.py TYPESTATE table']
    R.assumptions += ['panics raised by user code inside the lock (Waker::clone, T::clone, Ord) are outside the '
                      'documented contract', 'list / heap link surgery enters through summaries (C20)']
    for cfg in C.configs():
        F = C.facts(cfg)
        E = C.engine(cfg)
        EF = C.engine(cfg, fanout_traits=LOCAL_ACCESS_TRAITS)
        roles = C.roles(cfg)
        CG = C.cg(cfg)
        R.configs.append(cfg)
        R.floor('state-structs[%s]' % cfg, len(roles.state_structs), STATE_STRUCT_FLOOR)
        R.floor('queues[%s]' % cfg, sum(len(s['queues']) for s in roles.state_structs.values()), QUEUE_FLOOR)
        nfut = len(roles.futures)
        R.floor('node-bearing-futures[%s]' % cfg, nfut, 6 if cfg == 'none' else FUTURE_FLOOR)
        state_paths = {}
        # ---------------- I0: a freshly constructed wait node is in the initial (unlinked, never polled) state
        from common import constructor_state
        n0 = 0
        for sp in sorted(roles.state_structs):
            for q, (_k, data) in sorted(roles.state_structs[sp]['queues'].items()):
                nd = roles.node_data[data]
                tab = TYPESTATE[sp][q]
                initial = list(tab)[0]
                if tab[initial] is not False:
                    raise CheckerError('anchor=typestate-table: initial state %s of %s.%s is a linked state'
                                       % (initial, sp, q))
                exp = {nd['state_field']: ('variant-in', tuple(v for v, linked in tab.items() if linked is False))}
                constructor_state(R, E, F, data, exp, 'C01.I0')
                n0 += 1
        R.floor('C01.I0 node-constructors[%s]' % cfg, n0, QUEUE_FLOOR)
        from common import futures_start_initial
        R.floor('C01.I0 future-construction-paths[%s]' % cfg,
                futures_start_initial(C, R, cfg, sorted(roles.state_structs), 'C01.I0', any_unlinked=True),
                6 if cfg == 'none' else 11)
        # ---------------- I1 + I3
        for sp in sorted(roles.state_structs):
            for m in entry_methods(F, CG, sp):
                # loop-bound states included: the typestate invariant is also a loop invariant (evaluated at the
                # loop head after two full iterations), so a loop that never terminates cannot hide a mismatch
                paths = E.run(m['path'], include_loopbound=True)
                state_paths[m['path']] = paths
                R.add_paths(m['path'], len(paths))
                check_typestate(R, E, F, roles, sp, m, paths, 'C01.I1')
                owns = own_node_roots(F, m)
                if not owns:
                    continue
                for path in paths:
                    if path.exit != 'return' or poll_variant(E, path) != 'Ready':
                        continue
                    for root, data in owns.items():
                        qs = [q for q, (_k, d) in roles.state_structs[sp]['queues'].items() if d == data]
                        if not qs:
                            continue
                        tab = TYPESTATE[sp][qs[0]]
                        sf = roles.node_data[data]['state_field']
                        sloc = root + ('data', sf)
                        v = E.read(SV(path.store), sloc)
                        s1 = variant_of(E, path, v) if v[0] != 'init' else None
                        if v[0] == 'init':
                            k0 = path.facts.get(('discr', v))
                            s1 = k0[1] if k0 and k0[0] == 'eq' else None
                        fair = const_of(E, path.facts, ('init', (('P', 'self'), 'is_fair')))
                        linked = tab.get(s1)
                        if linked == 'fair':
                            linked = bool(fair) if fair is not None else True
                        if s1 is not None and linked is False:
                            R.ok('C01.I3', '%s|Ready => %s (unlinked)|%s' % (m['path'], s1, path_cond(E, path)))
                        else:
                            R.fail('C01.I3', [m['path'], 'ready-with-linked-node', str(s1)],
                                   '%s returns Ready while its own node is left in state %s (a linked state): the '
                                   'future terminates and its Drop will not unlink it' % (m['path'], s1),
                                   '%s:%s' % (m['file'], m['line']), {'trace': trace_summary(path)})
        # ---------------- I2 drop reaches unlink
        state_adts = set(roles.state_structs)
        for fut, info in sorted(roles.futures.items()):
            drops = [fn for fn in F.raw['fns'] if fn.get('impl_adt') == fut and (fn.get('impl_trait') or '').endswith('ops::Drop')]
            if not drops:
                a = F.adt(fut)
                R.fail('C01.I2', [fut, 'no-drop-impl'],
                       '%s embeds a wait node but has no Drop impl: a pending future would stay linked after it is '
                       'freed' % fut, '%s:%s' % (a['file'], a['line']))
                continue
            d = drops[0]
            hloc = (('P', 'self'), info['handle_field'])
            nloc = (('P', 'self'), info['node_field'])
            paths = EF.run(d['path'])
            R.add_paths(d['path'], len(paths))
            live = 0
            for path in paths:
                if path.exit != 'return':
                    continue
                h = E.variant_known(path.facts, ('init', hloc))
                if h != ('eq', 'Some'):
                    continue
                live += 1
                locks = [i for i, e in enumerate(path.events) if e['k'] == 'lock']
                unl = [i for i, e in enumerate(path.events)
                       if e['k'] == 'call' and e.get('mode') in ('inline', 'fanout')
                       and (F.fn(e['callee']) or {}).get('impl_adt') in state_adts
                       and any(a == ('ref', nloc) for a in e['args'])]
                if locks and unl and locks[0] < unl[0]:
                    R.ok('C01.I2', '%s|%s' % (d['path'], path_cond(E, path)),
                         {'drop': d['path'], 'unlink': path.events[unl[0]]['callee'], 'under_lock': True})
                else:
                    R.fail('C01.I2', [d['path'], 'drop-does-not-unlink'],
                           '%s: a path with a live handle does not reach the state\'s remove function on its own '
                           'node under the lock' % d['path'], '%s:%s' % (d['file'], d['line']),
                           {'trace': trace_summary(path)})
            if live == 0:
                R.fail('C01.I2', [d['path'], 'no-live-handle-path'], '%s never looks at a live handle' % d['path'],
                       '%s:%s' % (d['file'], d['line']))
        # ---------------- I4 link only when pinned
        linkers = set()
        for fn, t, cl in scan_calls(F, lambda ci: ci.get('impl_adt') in ('intrusive_double_linked_list::LinkedList',
                                                                          'intrusive_pairing_heap::PairingHeap')
                                    and ci['name'] in ('add_front', 'insert')):
            if fn['path'].startswith('intrusive_'):
                continue
            linkers.add(CG.root_fn(fn['path']))
        R.floor('C01.I4 linking-functions[%s]' % cfg, len(linkers), 8)
        trait_decl = {}
        for fn in F.raw['fns']:
            tr = fn.get('impl_trait')
            if tr and tr in F.traits:
                trait_decl[fn['path']] = '%s::%s' % (tr, fn['name'])
        for lk in sorted(linkers):
            # upward closure to API roots
            seen, work, roots = set(), [lk], set()
            while work:
                p = work.pop()
                if p in seen:
                    continue
                seen.add(p)
                callers = [c for c, _ in CG.callers_of(p)]
                if p in trait_decl:
                    callers += [c for c, _ in CG.callers_of(trait_decl[p])]
                if not callers:
                    roots.add(p)
                work += callers
            for r in roots:
                fn = F.fn(r)
                tr = (fn.get('impl_trait') or '') if fn else ''
                # the root receives its future pinned (poll / poll_next, or any other method taking `Pin<&mut Self>`)
                pinned = fn and fn['arg_count'] >= 1 and fn['locals'][1]['ty'].get('path') == 'std::pin::Pin'
                if pinned:
                    R.ok('C01.I4', '%s reached only via %s' % (lk, r))
                else:
                    R.fail('C01.I4', [lk, 'linked-from-unpinned-root', r],
                           '%s links a node and is reachable from %s, which does not take Pin<&mut Self>' % (lk, r),
                           '%s:%s' % (fn['file'], fn['line']) if fn else None)
        for fn in F.raw['fns']:
            if fn.get('name') != 'poll_next':
                continue
            for path in E.run(fn['path']):
                for e in path.events:
                    if e['k'] == 'call' and e['name'] == 'poll' and e.get('mode') == 'inline' and e['fn'] == fn['path'] \
                            or (e['k'] == 'call' and e['name'] == 'poll' and e.get('mode') == 'inline'
                                and (F.fn(e['fn']) or {}).get('kind') == 'closure'):
                        a0 = e['args'][0]
                        inplace = a0[0] == 'pin' and a0[1][0] == 'ref' and a0[1][1][0] == ('P', 'self')
                        if inplace:
                            R.ok('C01.I4', '%s polls its inner future in place' % fn['path'])
                        else:
                            R.fail('C01.I4', [fn['path'], 'inner-future-not-in-place'],
                                   '%s pins something that is not a field of the pinned stream: %s' % (
                                       fn['path'], fmt_val(a0)), where(F, e))
        # ---------------- I5 no lock bypass
        nb = 0
        for fn, t, cl in scan_calls(F, lambda ci: ci['path'].startswith('lock_api::') and ci['name'] in LOCK_BYPASS):
            nb += 1
            R.fail('C01.I5', [fn['path'], t['func']['fn']['path']],
                   '%s bypasses the internal lock with %s' % (fn['path'], t['func']['fn']['path']), F.loc(fn, t['ln']))
        for fn, t, cl in scan_calls(F, lambda ci: ci['path'] in ('std::mem::forget',) or ci['name'] == 'leak'):
            if any('MutexGuard' in a for a in t['argtys']):
                nb += 1
                R.fail('C01.I5', [fn['path'], 'guard-leaked'], '%s leaks a lock guard' % fn['path'], F.loc(fn, t['ln']))
        if nb == 0:
            R.ok('C01.I5', 'no lock bypass (zero-count)')
        nlock = len(scan_calls(F, lambda ci: ci['path'].startswith('lock_api::') and ci['name'] == 'lock'))
        R.floor('C01.I5 control(lock_api lock calls)[%s]' % cfg, nlock, 30)
        nrecv = 0
        from rl import state_layer as _state_layer
        _layer = _state_layer(F, CG, sorted(roles.state_structs))
        for sp in sorted(roles.state_structs):
            # the state's methods and the private helpers only they call (which receive the state as a parameter)
            own = set(m['path'] for m in F.methods_of(sp)) | set(p_ for p_, s_ in _layer.items() if s_ == sp)
            for m in F.methods_of(sp):
                if m.get('name') == 'new':
                    continue
                # an associated function without a state receiver (another constructor) touches no shared state
                t1 = m['locals'][1]['ty'] if m['arg_count'] >= 1 else {}
                if not (t1.get('k') == 'ref' and t1.get('ty', {}).get('path') == sp):
                    continue
                from rl import lift_private_callers as _lift
                cands_ = set()
                for c, _ln in CG.callers_of(m['path']):
                    cf_ = F.fn(c) or {}
                    if cf_.get('in_trait') and not cf_.get('reachable'):
                        # a provided method of a private trait (generic over Self): judged in the callers of the impls
                        cands_.update(_lift(F, CG, c))
                    else:
                        cands_.add(c)
                for c in sorted(cands_):
                    if c in own:
                        continue
                    for path in E.run(c):
                        for e in path.events:
                            if e['k'] == 'call' and e['callee'] == m['path'] and e.get('fn') not in own:
                                nrecv += 1
                                a0 = e['args'][0]
                                # (in a function judged as a transition the locked state is addressed as `self`)
                                if a0[0] == 'ref' and ('<locked>' in a0[1] or (
                                        c in F.alias_fns and a0[1][:1] == (('P', 'self'),)
                                        and any(x['k'] == 'lock' for x in path.events))):
                                    R.ok('C01.I5', '%s -> %s under the lock' % (c, m['path']))
                                else:
                                    R.fail('C01.I5', [c, m['path'], 'receiver-not-from-guard'],
                                           '%s calls %s on a receiver that does not come out of a lock guard' % (
                                               c, m['path']), where(F, e))
        R.floor('C01.I5 state-method-call-sites[%s]' % cfg, nrecv, 40)
        # ---------------- I8 layering: the lock-protected state is touched only by its own methods
        allowed_direct = {('timer::timer::TimerState', 'clock'): 'immutable after construction: `&\'static dyn Clock` read'}
        state_fns = {}
        for sp in roles.state_structs:
            for m in F.methods_of(sp, inherent_only=False):
                state_fns[m['path']] = sp
        # free helpers that are only ever called from state methods count as part of the state layer
        changed = True
        while changed:
            changed = False
            for fn in F.raw['fns']:
                if fn['path'] in state_fns or fn['kind'] == 'closure':
                    continue
                callers = [c for c, _ in CG.callers_of(fn['path'])]
                if callers and all(c in state_fns for c in callers):
                    state_fns[fn['path']] = state_fns[callers[0]]
                    changed = True
        n8 = 0
        from rl import breach_wrappers
        for sp8, fmap in sorted(breach_wrappers(F, CG).items()):
            for p8, flds in sorted(fmap.items()):
                n8 += 1
                # a transition outside the state layer: I1 / I3 above ran on it like on a state method (entry_methods
                # includes it; the engine addresses the locked state as `self` while it runs)
                R.ok('C01.I8', '%s|%s|judged as a transition of its own' % (p8, '/'.join(sorted(flds))))
                R.observe('C01.I8: %s mutates %s of the lock-protected %s directly; it is judged as a transition like '
                          'the state methods' % (p8, '/'.join(sorted(flds)), sp8.split('::')[-1]))
        if n8 == 0:
            R.ok('C01.I8', 'no function outside the state layer mutates lock-protected state (zero-count; control: I5 receiver sites)')
        # ---------------- I6 address stability: by-value temporaries of node-bearing types
        bearing = set(roles.futures) | set(NODE_ADTS)
        wrappers = set()
        for a in F.raw['adts']:
            for v in a['variants']:
                for f in v['fields']:
                    if f['ty'].get('k') == 'adt' and f['ty']['path'] in roles.futures:
                        wrappers.add(a['path'])
        bearing |= wrappers
        for fn in F.raw['fns']:
            if fn['path'].startswith('intrusive_') or (fn.get('impl_trait') or '').endswith('fmt::Debug'):
                continue
            recv = fn['locals'][1]['ty'] if fn['arg_count'] >= 1 else None
            by_ref_self = recv is not None and (recv.get('k') == 'ref' or recv.get('path') == 'std::pin::Pin')
            if not by_ref_self:
                continue   # constructors / consuming functions run before the first poll
            for li, l in enumerate(fn['locals']):
                if li <= fn['arg_count']:
                    continue
                t = l['ty']
                if t.get('k') in ('ref', 'ptr'):
                    continue
                hit = [p for p in ty_adt_paths(t) if p in bearing]
                if not hit or t.get('k') == 'adt' and t['path'] in ('std::pin::Pin',):
                    continue
                if t.get('k') == 'adt' and t['path'] == 'std::option::Option' and t['args'] and \
                        t['args'][0].get('k') in ('ref',):
                    continue
                if _contains_only_behind_pointer(t, bearing):
                    continue
                # a by-value temporary of a node-bearing type in a &self / Pin<&mut Self> function
                ok, why = _moved_only_fresh_or_terminated(E, F, fn, li)
                if ok:
                    R.ok('C01.I6', '%s|_%d: %s|%s' % (fn['path'], li, t['str'], why))
                else:
                    R.fail('C01.I6', [fn['path'], 'node-bearing-value-moved', t['str']],
                           '%s holds a by-value temporary of type %s: a future that may be linked is moved (%s)' % (
                               fn['path'], t['str'], why), '%s:%s' % (fn['file'], fn['line']))
        # mem::replace / mem::take hand the old value back in a by-value temporary, which the rule above judges
        # exactly like Option::take (the same operation); mem::swap has no such temporary and is scanned here
        def _by_value_bearing(a):
            a2 = a[1:].replace('mut ', '', 1).strip() if a.startswith('&') else a
            return any(b.split('::')[-1] in a2 for b in bearing) and not any(
                x in a2 for x in ('NonNull<', '*const ', '*mut ', '&'))
        for fn, t, cl in scan_calls(F, lambda ci: ci['path'] in ('std::mem::swap',)):
            if any(_by_value_bearing(a) for a in t['argtys']):
                R.fail('C01.I6', [fn['path'], t['func']['fn']['path']],
                       '%s uses %s on a node-bearing value' % (fn['path'], t['func']['fn']['path']), F.loc(fn, t['ln']))
        # ---------------- I7 shared futures restore the handle on Pending
        for fut, info in sorted(roles.futures.items()):
            ht = info.get('handle_ty') or {}
            if 'Arc' not in ht.get('str', '') and 'Shared' not in ht.get('str', ''):
                continue
            polls = [fn for fn in F.raw['fns'] if fn.get('impl_adt') == fut and fn.get('name') == 'poll']
            for fn in polls:
                for path in E.run(fn['path']):
                    if path.exit != 'return':
                        continue
                    top = variant_of(E, path, path.ret)
                    if top != 'Pending':
                        continue
                    v = E.read(SV(path.store), (('P', 'self'), info['handle_field']))
                    if variant_of(E, path, v) == 'Some':
                        R.ok('C01.I7', '%s|Pending => handle restored' % fn['path'])
                    else:
                        R.fail('C01.I7', [fn['path'], 'handle-not-restored'],
                               '%s returns Pending with its handle taken: Drop would skip the unlink' % fn['path'],
                               '%s:%s' % (fn['file'], fn['line']), {'trace': trace_summary(path)})
        # ---------------- P panic sites
        panic_sites(C, R, F, E, roles, cfg)
        mutex_fair_invariant(R, F, E, CG, state_paths, cfg)


def _contains_only_behind_pointer(t, bearing, depth=0):
    """True if every occurrence of a node-bearing ADT in t is behind a reference / pointer / Pin / Arc"""
    k = t.get('k')
    if depth > 8:
        return True
    if k in ('ref', 'ptr', 'dyn'):
        return True
    if k == 'adt':
        if t['path'] in bearing:
            return False
        if t['path'] in ('std::pin::Pin', 'std::sync::Arc', 'std::ptr::NonNull'):
            return True
        return all(_contains_only_behind_pointer(x, bearing, depth + 1) for x in t.get('args', []))
    if k == 'tuple':
        return all(_contains_only_behind_pointer(x, bearing, depth + 1) for x in t['tys'])
    return True


def _moved_only_fresh_or_terminated(E, F, fn, li):
    """the temporary `_li` of a node-bearing type is either freshly constructed in this function (value
    of a constructor call, stored before any poll) or taken out of a slot on a path where the inner
    future has just completed (Ready) or was never stored"""
    reasons = set()
    for path in E.run(fn['path']):
        for i, e in enumerate(path.events):
            if e['k'] in ('take', 'replace') and e['fn'] == fn['path']:
                old = e['old']
                if e['k'] == 'replace':
                    # replace(Some(new future)): the old slot must be empty
                    k = E.variant_known(path.facts, old)
                    if old == NONE or k == ('eq', 'None'):
                        reasons.add('stored into an empty slot')
                        continue
                    return False, 'a stored future is overwritten while it may be pending'
                k = E.variant_known(path.facts, old)
                if old == NONE or k == ('eq', 'None'):
                    reasons.add('empty slot')
                    continue
                if not loc_endswith(e['loc'], 'future'):
                    continue
                # taking a stored inner future: only after its poll returned Ready on this path
                ready = any(a['k'] == 'assume' and a['expr'][0] == 'isv' and a['expr'][2] == 'Ready' and a['desc'] == ('eq', 1)
                            for a in path.events[:i]) or any(
                    kk[0] == 'discr' and vv == ('eq', 'Ready') for kk, vv in path.facts.items() if isinstance(kk, tuple))
                if ready:
                    reasons.add('taken after completion (Ready)')
                else:
                    return False, 'a stored inner future is moved out while it may still be linked'
    return True, ', '.join(sorted(reasons)) or 'constructor value'


MUTEX_STATE = 'sync::mutex::MutexState'


def mutex_fair_invariant(R, F, E, CG, state_paths, cfg):
    """P.fair - the fair-mutex assertion `a notified waiter of a fair mutex finds it unlocked` is classified as
    unreachable; that rests on J: fair & some node Notified => !is_locked.  If a panic path relies on J (own node
    entered Notified, fair, mutex locked), J must be inductive: (a) a waiter is marked Notified in fair mode only on a
    path that ends with the mutex known unlocked - is_locked written false, or untouched while the own node entered as
    the notified one (J at entry); (b) is_locked is set in fair mode only by the notified head or with an empty queue
    (that half is C04.R1, re-evaluated here)."""
    if F.adt(MUTEX_STATE) is None:
        raise CheckerError('anchor=%s missing' % MUTEX_STATE)
    fair_v = ('init', (('P', 'self'), 'is_fair'))
    locked_v = ('init', (('P', 'self'), 'is_locked'))
    rely = []
    for m in entry_methods(F, CG, MUTEX_STATE):
        owns = own_node_roots(F, m)
        for path in state_paths.get(m['path'], []):
            if path.exit != 'panic':
                continue
            own_notified = any(path.facts.get(('discr', ('init', r + ('data', 'state')))) == ('eq', 'Notified')
                               for r in owns)
            if own_notified and const_of(E, path.facts, fair_v) == 1 and const_of(E, path.facts, locked_v) == 1 \
                    and not any(e['k'] == 'qop' and e['op'] == 'remove' for e in path.events):
                rely.append((m, path))
    R.extra.setdefault('mutex_fair_invariant_relied_on_by', {})[cfg] = sorted(set(m['path'] for m, _ in rely))
    if not rely:
        R.observe('C01.P.fair: no panic path of MutexState relies on "fair & notified => unlocked" [%s]' % cfg)
        return
    n, good, bad = mutex_fair_J(E, F, entry_methods(F, CG, MUTEX_STATE), lambda p: state_paths.get(p, []))
    for m, path, mark, why in good:
        R.ok('C01.P.fair', '%s|%s|%s' % (m['path'], why, path_cond(E, path)))
    for m, path, mark, why in bad:
        R.fail('C01.P.fair', [m['path'], 'notifies-while-possibly-locked', path_cond(E, path)],
               '%s marks a waiter Notified on a path that can be a fair mutex that is still locked; the '
               'notified waiter\'s next poll then reaches the assertion in %s (panic on a '
               'contract-respecting history) [%s]' % (m['path'], rely[0][0]['path'], path_cond(E, path)),
               where(F, mark), {'trace': trace_summary(path)})
    R.floor('C01.P.fair notify-paths[%s]' % cfg, n, 2)


def _exposing_roots(C, F, cfg, fn):
    """the functions through which `fn` is reached from outside: itself when it is public API / a trait method /
    uncalled, else its callers, transitively"""
    CG = C.cg(cfg)
    seen, work, roots = set(), [fn['path'] if fn['kind'] != 'closure' else CG.root_fn(fn['path'])], set()
    while work:
        q = work.pop()
        if q in seen:
            continue
        seen.add(q)
        cs = [c for c, _ in CG.callers_of(q) if c != q]
        fq = F.fn(q) or {}
        if not cs or fq.get('reachable') or fq.get('impl_trait'):
            roots.add(q)
        work.extend(cs)
    return roots


def _excluded_by_refill(C, F, E, cfg, fn, t):
    """the state the mpmc refill invariant excludes (C09.R2 keeps it: with capacity > 0 no sender stays parked while
    the buffer is empty): true when every path - of every function that exposes the site - that reaches the panic has
    established buffer.is_empty() & a parked sender (queue seen non-empty, or a sender taken off it) & capacity() != 0"""
    from common import eq_fact
    hit = 0
    for r in sorted(_exposing_roots(C, F, cfg, fn)):
        saved = set(F.alias_fns)
        F.alias_fns.discard(r)
        try:
            paths = E.run(r)
        finally:
            F.alias_fns.update(saved)
        for path in paths:
            idx = [i for i, e in enumerate(path.events)
                   if e['k'] == 'panic' and e.get('fn') == fn['path'] and e.get('ln') == t['ln']]
            if not idx:
                continue
            hit += 1
            before = path.events[:idx[0]]
            empty = any(e['k'] == 'call' and e['name'] == 'is_empty' and 'RingBuf' in e['callee'] and
                        const_of(E, path.facts, e['ret']) == 1 for e in before)
            refilled = any(e['k'] == 'call' and e['name'] in ('push', 'pop') and 'RingBuf' in e['callee'] for e in before)
            parked = any(e['k'] == 'qop' and loc_endswith(e['queue'], 'send_waiters') and (
                (e.get('op') == 'is_empty' and const_of(E, path.facts, e['ret']) == 0) or
                (e.get('op') in ('remove_last', 'peek_last', 'peek_last_mut') and e.get('node') is not None))
                for e in before)
            cap = any(e['k'] == 'call' and e['name'] == 'capacity' and 'RingBuf' in e['callee'] and
                      eq_fact(E, path.facts, e['ret'], ('const', 0)) == 0 for e in before)
            if not (empty and not refilled and parked and cap):
                return False
    return hit > 0


def _infeasible_everywhere(C, F, E, cfg, fn, t):
    """an explicit panic site nobody classified: is it unreachable on every path of every function that exposes it
    (the function itself when it is public API / a trait method / uncalled, else its callers, transitively)?"""
    CG = C.cg(cfg)
    seen, work, roots = set(), [fn['path'] if fn['kind'] != 'closure' else CG.root_fn(fn['path'])], set()
    while work:
        q = work.pop()
        if q in seen:
            continue
        seen.add(q)
        cs = [c for c, _ in CG.callers_of(q) if c != q]
        fq = F.fn(q) or {}
        if not cs or fq.get('reachable') or fq.get('impl_trait'):
            roots.add(q)
        work.extend(cs)
    entered = False
    for r in sorted(roots):
        saved = set(F.alias_fns)
        F.alias_fns.discard(r)
        try:
            paths = E.run(r)
        finally:
            F.alias_fns.update(saved)
        for path in paths:
            for e in path.events:
                if e['k'] == 'enter' and e['fn'] == fn['path']:
                    entered = True
                if e['k'] == 'panic' and e.get('fn') == fn['path'] and e.get('ln') == t['ln']:
                    return False
    return entered


def panic_sites(C, R, F, E, roles, cfg):
    """every explicit panic site is classified; unclassified => violation"""
    n = 0
    cats = {}
    for fn in F.raw['fns']:
        for b in fn['blocks']:
            if b['cleanup']:
                continue
            t = b['term']
            if t['k'] != 'call' or 'fn' not in t['func']:
                continue
            ci = t['func']['fn']
            name = ci['name']
            if not ((name in PANICS and t['diverges']) or (name in ('expect', 'unwrap') and
                                                           ci['path'].startswith(('std::option', 'std::result')))):
                continue
            n += 1
            msg = ''
            for a in t['args']:
                if 'const' in a and isinstance(a['const'], str) and a['const'].startswith('"'):
                    msg = a['const']
            p = fn['path']
            tr = fn.get('impl_trait') or ''
            cat = None
            if p.startswith(('intrusive_double_linked_list::', 'intrusive_pairing_heap::', '<intrusive_')) or \
                    (p.startswith('<') and (' as intrusive_double_linked_list::' in p or ' as intrusive_pairing_heap::' in p)):
                cat = 'container-internal consistency assert (C20 checks the schema; preconditions are the unsafe contract)'
            elif p.lstrip('<').startswith('buffer::'):
                cat = 'RingBuf contract ("Panics if ..."): push guarded by C09.R1, pop by the emptiness test (below)'
            elif name == 'expect' and fn.get('name') == 'poll' and tr.endswith('::Future'):
                cat = 'documented: poll after completion (shape checked by C17.R3)'
            elif 'after completion' in (msg or _expect_msg(fn, b, F)):
                cat = 'documented: use after completion'
            elif name == 'expect' and (fn.get('impl_adt') in roles.futures or
                                       (fn.get('impl_adt') or '').endswith('TimerFuture')) and _on_handle(F, roles, fn, t):
                cat = 'documented: a method of a future used after its completion (handle None)'
            elif 'could not be removed from wait queue' in msg:
                cat = 'unreachable by Inv: C01.I1 proves the failed-unlink panic infeasible on every path'
            elif 'Reached maximum refcount' in msg:
                cat = 'documented overflow guard of the handle counter (as Arc)'
            elif p.endswith('MockClock::set_time'):
                cat = 'documented limit of MockClock'
            elif 'not supported for unbuffered' in msg:
                cat = 'documented: try_send panics on unbuffered channels'
            elif name == 'expect' and ('contain value' in _expect_msg(fn, b, F) or 'must be available' in _expect_msg(fn, b, F)):
                cat = 'unreachable by the value invariant V (checked below): a live Registered/Unregistered sender holds its value'
            elif name == 'unreachable_display' and 'channel::oneshot' in p:
                cat = 'unreachable: RecvPollState::Notified is never produced in the oneshot modules (C12.R5)'
            elif 'is_fair' in msg or 'Fair semaphores' in msg:
                cat = 'unreachable by the fair hand-over invariant (C04.R1+R2 / C07.R1+R4): nobody but the notified head can take the resource'
            elif name == 'unwrap' and fn.get('name') in ('poll_next',) or (fn['kind'] == 'closure' and 'poll_next' in p):
                cat = 'unreachable: the slot was filled on the line before (no feasible None path, checked below)'
            elif name == 'assert_failed' and fn.get('impl_adt') == 'channel::mpmc::ChannelState':
                cat = 'unreachable by the refill invariant (C09.R2): with capacity > 0 no sender stays parked while the buffer is empty'
            elif p.endswith('DropBomb as std::ops::Drop>::drop'):
                cat = 'by design: a panicking comparison aborts'
            elif fn.get('impl_adt') == 'channel::mpmc::ChannelState' and _excluded_by_refill(C, F, E, cfg, fn, t):
                cat = ('unreachable by the refill invariant (C09.R2): every path to it has seen the buffer empty, a sender '
                       'parked and capacity != 0 (any spelling of the assertion)')
            if cat is None and _infeasible_everywhere(C, F, E, cfg, fn, t):
                cat = 'unreachable: no path from any function that exposes it reaches this panic (checked on every calling context)'
            if cat is None:
                R.fail('C01.P', [p, name, msg[:40]],
                       'unclassified explicit panic site in %s (%s %s): a call through the safe API may panic on a '
                       'contract-respecting history' % (p, name, msg), F.loc(fn, t['ln']))
            else:
                cats[cat] = cats.get(cat, 0) + 1
                R.ok('C01.P', '%s|%s|%s' % (p, name, msg[:30]), {'site': p, 'callee': name, 'category': cat})
    R.floor('C01.P panic-sites[%s]' % cfg, n, 40 if cfg == 'none' else 60)
    R.extra.setdefault('panic_site_categories', {})[cfg] = cats
    # value invariant V: a sender's value leaves its node only together with SendComplete (token) or on a
    # terminating path of its own future (Ready / cancel)
    st = 'channel::mpmc::ChannelState'
    CG = C.cg(cfg)
    for m in entry_methods(F, CG, st):
        for path in E.run(m['path']):
            if path.exit != 'return':
                continue
            for e in path.events:
                if e['k'] != 'take' or not loc_endswith(e['loc'], 'value'):
                    continue
                node = e['loc'][:1]
                if node[0][0] == 'tok':
                    ok = any(w['k'] == 'write' and w['loc'] == node + ('data', 'state') and w['val'][0] == 'agg'
                             and w['val'][2] == 'SendComplete' for w in path.events)
                    what = 'token value taken => SendComplete'
                else:
                    ok = poll_variant(E, path) == 'Ready'
                    what = 'own value taken => Ready (terminating)'
                if ok:
                    R.ok('C01.P.V', '%s|%s|%s' % (m['path'], what, path_cond(E, path)))
                else:
                    R.fail('C01.P.V', [m['path'], 'value-taken-from-live-sender'],
                           '%s takes the value out of a sender that stays alive in a state that expects a value' %
                           m['path'], where(F, e), {'trace': trace_summary(path)})
            # pop only behind the emptiness test
            for i, e in enumerate(path.events):
                if e['k'] == 'call' and e['name'] == 'pop' and 'RingBuf' in e['callee']:
                    tested = any(c['k'] == 'call' and c['name'] == 'is_empty' and const_of(E, path.facts, c['ret']) == 0
                                 for c in path.events[:i])
                    if tested:
                        R.ok('C01.P.pop', '%s|pop after !is_empty' % m['path'])
                    else:
                        R.fail('C01.P.pop', [m['path'], 'pop-without-emptiness-test'],
                               '%s pops the buffer without a preceding !is_empty() on the path (RingBuf::pop panics '
                               'when empty)' % m['path'], where(F, e))
    # the documented try_send panic fires only for capacity 0
    from common import cmp_fact, eq_fact
    st = 'channel::mpmc::ChannelState'
    for m in entry_methods(F, CG, st):
        for path in E.run(m['path']):
            if path.exit != 'panic':
                continue
            msgs = [a for e in path.events if e['k'] == 'call' and e.get('diverges') for a in e['args']
                    if a[0] == 'const' and isinstance(a[1], str)]
            if not any('not supported for unbuffered' in x[1] for x in msgs) and not any(
                    e['k'] == 'call' and e.get('diverges') and 'not supported for unbuffered' in repr(e.get('args'))
                    for e in path.events):
                continue
            caps = [e['ret'] for e in path.events if e['k'] == 'call' and e.get('name') == 'capacity']
            zero = any(eq_fact(E, path.facts, c, ('const', 0)) == 1 or
                       cmp_fact(E, path.facts, 'Gt', c, ('const', 0)) == 0 for c in caps)
            if zero:
                R.ok('C01.P', '%s|the unbuffered-channel panic fires only for capacity() == 0' % m['path'])
            else:
                R.fail('C01.P', [m['path'], 'unbuffered-panic-on-buffered-channel'],
                       '%s: the "not supported for unbuffered channels" assertion can fire on a path that has not '
                       'established capacity() == 0' % m['path'], '%s:%s' % (m['file'], m['line']))
    # stream unwrap: no feasible None path in the stream's own frame
    for fn in F.raw['fns']:
        if fn.get('name') != 'poll_next':
            continue
        bad = False
        for path in E.run(fn['path']):
            for e in path.events:
                if e['k'] == 'panic' and e.get('what') == 'unwrap(None)' and e.get('name') == 'unwrap' and \
                        (e['fn'] == fn['path'] or (F.fn(e['fn']) or {}).get('parent') == fn['path']):
                    bad = True
        if bad:
            R.fail('C01.P', [fn['path'], 'stream-unwrap-feasible'], '%s can unwrap an empty inner-future slot' % fn['path'],
                   '%s:%s' % (fn['file'], fn['line']))
        else:
            R.ok('C01.P', '%s|inner-future unwrap has no feasible None path' % fn['path'])


def _const_str_of_local(fn, l, depth=0):
    if depth > 4:
        return ''
    for bb in fn['blocks']:
        for s in bb['stmts']:
            if s['k'] == 'assign' and s['place']['l'] == l and not s['place']['p']:
                rv = s['rv']
                c = (rv.get('use') or {}).get('const')
                if isinstance(c, str) and c.startswith('"'):
                    return c
                src = rv.get('ref') or (rv.get('use') or {}).get('copy') or (rv.get('use') or {}).get('move')
                if src:
                    r = _const_str_of_local(fn, src['l'], depth + 1)
                    if r:
                        return r
    return ''


def _on_handle(F, roles, fn, t):
    """is the receiver of this expect() the future's handle field (Option<&Primitive>), read from self?"""
    info = roles.futures.get(fn.get('impl_adt')) or {}
    hf = info.get('handle_field') or 'timer'
    a = (t['args'] or [{}])[0]
    pl = a.get('move') or a.get('copy')
    if not pl:
        return False
    # the operand is a local copied from (*self).<handle field>: look for that assignment in the body
    for b2 in fn['blocks']:
        for s_ in b2['stmts']:
            if s_['k'] == 'assign' and s_['place']['l'] == pl['l'] and not s_['place']['p']:
                src = s_['rv'].get('use') or {}
                sp = src.get('copy') or src.get('move')
                if sp and any(isinstance(e, dict) and e.get('f') == hf or e == hf or (isinstance(e, dict) and e.get('name') == hf)
                              for e in sp['p']):
                    return True
    return False


def _const_item_str(F, a):
    """the string literal a `const MSG: &str = ".."` item stands for, from the MIR of its initialiser"""
    if F is None or not a.get('const_item'):
        return None
    for c in F.raw.get('consts') or []:
        if c['path'] == a['const_item']:
            for b in c.get('blocks') or []:
                for s_ in b['stmts']:
                    u = (s_.get('rv') or {}).get('use') or {}
                    if isinstance(u.get('const'), str) and u['const'].startswith('"'):
                        return u['const']
    return None


def _resolve_str(F, fn, op, depth=0):
    """what string a `&str` operand is: a literal, a `const` item, or - through copies and reborrows - a parameter of
    the function (returned as ('param', index)); None if unknown"""
    if depth > 6 or not isinstance(op, dict):
        return None
    if 'const' in op:
        if isinstance(op['const'], str) and op['const'].startswith('"'):
            return op['const']
        return _const_item_str(F, op)
    pl = op.get('move') or op.get('copy')
    if not pl:
        return None
    if pl['p'] not in ([], ['*']):
        return None
    l = pl['l']
    if 1 <= l <= fn['arg_count']:
        return ('param', l)
    r = _const_str_of_local(fn, l)
    if r:
        return r
    for b3 in fn['blocks']:
        for s3 in b3['stmts']:
            if s3['k'] == 'assign' and s3['place']['l'] == l and not s3['place']['p']:
                rv = s3['rv']
                if 'use' in rv:
                    return _resolve_str(F, fn, rv['use'], depth + 1)
                if isinstance(rv.get('ref'), dict) and rv['ref'].get('p') in ([], ['*']):
                    return _resolve_str(F, fn, {'copy': {'l': rv['ref']['l'], 'p': []}}, depth + 1)
    return None


def _param_msgs(F, fn, idx, depth):
    if depth > 3:
        return ['?']
    names = [fn['path']]
    if fn.get('impl_trait') and fn.get('name'):
        names.append('%s::%s' % (fn['impl_trait'], fn['name']))      # called through the trait's declaration
    msgs = []
    for g in F.raw['fns']:
        for b2 in g['blocks']:
            t2 = b2['term']
            if t2['k'] == 'call' and 'fn' in t2['func'] and len(t2['args']) >= idx:
                ci2 = t2['func']['fn']
                rp = (ci2.get('resolved') or {}).get('path') or ci2['path']
                if any(rp == n_ or rp.startswith(n_ + '::<') for n_ in names) or ci2['path'] in names:
                    r2 = _resolve_str(F, g, t2['args'][idx - 1])
                    if isinstance(r2, str):
                        msgs.append(r2)
                    elif isinstance(r2, tuple):
                        msgs.extend(_param_msgs(F, g, r2[1], depth + 1))
                    else:
                        msgs.append('?')
    return msgs


def _expect_msg(fn, b, F=None):
    t = b['term']
    for a in t['args']:
        r = _resolve_str(F, fn, a)
        if isinstance(r, str):
            return r
        if isinstance(r, tuple) and F is not None and 'str' in (fn['locals'][r[1]]['ty'].get('str') or ''):
            # the message is a parameter of a private helper: the messages its callers pass (followed upwards through
            # helpers that pass their own parameter on, and through a trait method's declaration to its callers)
            msgs = _param_msgs(F, fn, r[1], 0)
            if msgs and all(m_ != '?' for m_ in msgs):
                return ' | '.join(sorted(set(msgs)))
    return ''
