"""C01 — no dangling waiter: inductive typestate invariant + drop/pin/lock rules."""
from rl import entry_methods
from specs import STATE_STRUCT_FLOOR, QUEUE_FLOOR, FUTURE_FLOOR, TYPESTATE
from typestate import check_typestate


def run(C, R):
    for cfg in C.configs():
        F = C.facts(cfg)
        E = C.engine(cfg)
        roles = C.roles(cfg)
        CG = C.cg(cfg)
        R.configs.append(cfg)
        R.floor('state-structs[%s]' % cfg, len(roles.state_structs), STATE_STRUCT_FLOOR)
        R.floor('queues[%s]' % cfg, sum(len(s['queues']) for s in roles.state_structs.values()), QUEUE_FLOOR)
        for sp in sorted(roles.state_structs):
            for m in entry_methods(F, CG, sp):
                paths = E.run(m['path'])
                R.add_paths(m['path'], len(paths))
                check_typestate(R, E, F, roles, sp, m, paths, 'C01.I1')
    R.explanation = 'typestate'
