"""C16 — type-level contract: !Unpin, Send/Sync only when sound.
L2: for-all-types adequacy of every `unsafe impl Send/Sync` (node-erased derivation + trait solver);
L2e: type-erased futures against every implementor a constructor can put behind the `dyn`;
L3: pinning / NoopLock markers;  L1: rustc accept/reject probe matrix (probes.py)."""
import os
from autotrait import Deriver, SEND, SYNC, SHORT, subst, INTRUSIVE
from common import scan_aggregates
from rl import NODE_ADTS
from lib import CheckerError

RAWMUTEX = 'lock_api::RawMutex'
GUARD = 'sync::mutex::GenericMutexGuard'


def lock_params(F, im):
    """type params of an impl that play the lock role: bounded by RawMutex, or occurring only inside
    PhantomData in the self type's fields (the MutexType marker of the type-erased futures)"""
    out = set()
    for pr in im['preds']:
        if pr['kind'] == 'trait' and pr['trait'] == RAWMUTEX and pr['self'].get('k') == 'param':
            out.add(pr['self']['name'])
    a = F.adts.get(im['self_adt'])
    if a:
        for p in a['params']:
            only_marker = True
            seen = False
            for v in a['variants']:
                for f in v['fields']:
                    for occ, in_marker in _occurrences(f['ty'], p):
                        seen = True
                        if not in_marker:
                            only_marker = False
            if seen and only_marker:
                out.add(p)
    return out


def lock_leaf_required(adt, impl_trait, leaf_trait):
    """the crate's documented convention for the lock parameter: `M: Sync` is required wherever it
    is derived (futures, handles, Sync of primitives); `M: Send` is required only for `Send` of a
    primitive that owns the raw lock by value.  A derived `M: Send` elsewhere is observation O2."""
    if leaf_trait == SYNC:
        return True
    if impl_trait != SEND:
        return False
    for v in adt['variants']:
        for f in v['fields']:
            t = f['ty']
            if t.get('k') == 'adt' and t['path'] == 'lock_api::Mutex':
                return True
    return False


def _occurrences(t, name, in_marker=False):
    k = t.get('k')
    if k == 'param' and t['name'] == name:
        yield (t, in_marker)
    im = in_marker or (k == 'adt' and t['path'] == 'std::marker::PhantomData')
    for key in ('args', 'tys'):
        for x in t.get(key, []):
            yield from _occurrences(x, name, im)
    if isinstance(t.get('ty'), dict):
        yield from _occurrences(t['ty'], name, im)


def impl_env(im):
    return im['param_facts']


def run(C, R):
    R.explanation = ('L2: for each `unsafe impl Send/Sync` the node-erased obligations of every field (intrusive '
                     'containers stand for their data type; Mutex<R,S> => R: Trait, S: Send; Arc<X> => X: Send+Sync; '
                     '&X => X: Sync; the mutex-guarded UnsafeCell<X> => X: Send; manual impls contribute their own '
                     'bounds; PhantomData is a marker) are derived and every leaf on a payload or buffer parameter '
                     'must be entailed by the impl\'s own where-clauses — a for-all-types query answered by rustc\'s '
                     'trait solver in the driver.  L2e: for type-erased futures the same is done for every crate '
                     'type that a constructor unsizes into the `dyn` field.  L3: node types carry PhantomPinned, no '
                     'local Unpin impl, NoopLock is !Send + !Sync.  L1: a generated matrix of must-compile / '
                     'must-not-compile probe crates decided by rustc, each rejection with a compiling twin.')
    R.trusted += ['rustc trait solver (type_implements_trait under the impl\'s ParamEnv)',
                  'the erasure table in rules/autotrait.py (one line of reason per entry)',
                  'rustc as oracle for the probe matrix']
    R.assumptions += ['leaves on the lock parameter are judged by the crate\'s documented convention '
                      '(primitive Send => M: Send; Sync / shared handle / future Send => M: Sync); stricter '
                      'derivations are reported as observation O2, not as violations']
    cfgs = C.configs()
    for cfg in cfgs:
        F = C.facts(cfg)
        R.configs.append(cfg)
        D = Deriver(F)
        impls = [im for im in F.impls if im['trait'] in (SEND, SYNC) and not im['negative']]
        floor = {'std': 30, 'alloc': 30, 'none': 20}[cfg]
        R.floor('C16.L2 unsafe-auto-trait-impls[%s]' % cfg, len(impls), floor)
        dyn_impls = []
        for im in impls:
            tr = im['trait']
            adt = im['self_adt']
            a = F.adts.get(adt)
            name = adt.split('::')[-1] if adt else im['self_ty']['str']
            if a is None:
                R.fail('C16.L2', [im['id'], 'non-adt-self'], 'auto trait impl for a non-ADT type', None)
                continue
            if not im['unsafe']:
                continue
            env = impl_env(im)
            lockp = lock_params(F, im)
            where = '%s:%s' % (im['file'], im['line'])
            ia = im['self_ty'].get('args', [])
            amap = dict(zip(a['params'], ia))
            # ---- frozen exception, by reading: through &Guard only Deref (-> &T) is reachable
            if adt == GUARD and tr == SYNC:
                ok = env.get('T', {}).get('Sync')
                methods = [f for f in F.raw['fns'] if f.get('impl_adt') == GUARD and f['kind'] != 'closure']
                shared_api = []
                for f in methods:
                    t0 = f['locals'][1]['ty'] if f['arg_count'] >= 1 else None
                    # (methods that take `&self` - a reference to the guard itself, not to something else)
                    if t0 and t0.get('k') == 'ref' and not t0['mut'] and (t0.get('ty') or {}).get('path') == GUARD:
                        shared_api.append(f)
                extra = [f['path'] for f in shared_api
                         if not (f.get('impl_trait') or '').endswith(('ops::Deref', 'fmt::Debug'))]
                if ok and not extra:
                    R.ok('C16.L2', '%s|Sync|exception: only Deref reachable through &Guard, T: Sync bound present' % name)
                else:
                    R.fail('C16.L2', [name, 'Sync', 'guard-exception'],
                           'GenericMutexGuard: Sync must be bounded by T: Sync and expose only Deref through &self '
                           '(T: Sync entailed: %s, extra &self API: %s)' % (ok, extra), where)
                continue
            for v in a['variants']:
                for f in v['fields']:
                    fty = subst(f['ty'], amap)
                    leaves = D.obl(fty, tr, (name + '.' + f['name'],))
                    if not leaves:
                        R.ok('C16.L2', '%s|%s|%s|no obligations' % (name, SHORT[tr], f['name']))
                    for kind, what, ltr, via in leaves:
                        subj = '%s|%s|%s|%s: %s' % (name, SHORT[tr], f['name'], what, SHORT.get(ltr, ltr))
                        if kind == 'param':
                            ent = env.get(what, {}).get(SHORT[ltr])
                            if ent:
                                R.ok('C16.L2', subj, {'impl': im['id'], 'field': f['name'],
                                                      'leaf': '%s: %s' % (what, SHORT[ltr]), 'via': list(via),
                                                      'entailed_by_where_clauses': True})
                            elif what in lockp and not lock_leaf_required(a, tr, ltr):
                                R.observe('O2 %s: impl %s derives %s: %s for the lock parameter (via %s), bounds '
                                          'give less; lock-type convention, not a payload obligation' % (
                                              name, SHORT[tr], what, SHORT[ltr], ' > '.join(via)))
                                R.ok('C16.L2', subj + '|lock-convention')
                            else:
                                R.fail('C16.L2', [name, SHORT[tr], f['name'], '%s: %s' % (what, SHORT[ltr])],
                                       'unsafe impl %s for %s: field `%s` needs %s: %s (via %s) but the impl\'s '
                                       'where-clauses do not entail it' % (SHORT[tr], name, f['name'], what,
                                                                           SHORT[ltr], ' > '.join(via)), where,
                                       {'impl': im['id'], 'via': list(via)})
                        elif kind == 'dyn' and not _erased_in_crate(F, what):
                            # no function of the crate ever puts a type behind this `dyn`: the pointer comes from the
                            # user, the trait does not demand the auto trait, so the impl vouches for code it cannot know
                            R.fail('C16.L2', [name, SHORT[tr], f['name'], 'user-supplied-dyn', '%s: %s' % (what, SHORT[ltr])],
                                   'unsafe impl %s for %s: field `%s` holds a user-supplied `dyn %s` (via %s); that trait '
                                   'does not require %s, so the impl promises thread-safety of arbitrary user code' % (
                                       SHORT[tr], name, f['name'], what, ' > '.join(via), SHORT[ltr]), where,
                                   {'impl': im['id'], 'via': list(via)})
                        elif kind == 'dyn':
                            # handled by L2e below
                            if im not in dyn_impls:
                                dyn_impls.append(im)
                            R.ok('C16.L2', subj + '|type-erased: see L2e')
                        elif kind == 'unsat':
                            R.fail('C16.L2', [name, SHORT[tr], f['name'], 'unsat', str(what)],
                                   'unsafe impl %s for %s: field `%s` contains %s which is never %s and is not '
                                   'covered by the erasure table' % (SHORT[tr], name, f['name'], what, SHORT[ltr]),
                                   where)
                        else:
                            raise CheckerError('anchor=autotrait derivation: unknown type shape %s in %s.%s' % (
                                what, name, f['name']))
        # ---- L2e: type-erased futures
        l2e(C, R, F, D, cfg, dyn_impls)
        # ---- L3
        for n in NODE_ADTS:
            a = F.adt(n)
            pinned = any(not f['auto']['Unpin'] and 'PhantomPinned' in f['ty']['str']
                         for f in a['variants'][0]['fields'])
            if pinned and not a['self_auto']['Unpin']:
                R.ok('C16.L3', '%s carries PhantomPinned' % n)
            else:
                R.fail('C16.L3', [n, 'not-pinned'], '%s is Unpin (no PhantomPinned marker)' % n,
                       '%s:%s' % (a['file'], a['line']))
        for im in F.impls:
            if im['trait'] and im['trait'].endswith('marker::Unpin') and not im['negative']:
                R.fail('C16.L3', [im['id'], 'unpin-impl'], 'a local `impl Unpin` exists: %s' % im['id'],
                       '%s:%s' % (im['file'], im['line']))
        roles = C.roles(cfg)
        R.floor('C16.L3 node-bearing-futures[%s]' % cfg, len(roles.futures), 6 if cfg == 'none' else 11)
        for fut in sorted(roles.futures):
            a = F.adt(fut)
            if a['self_auto']['Unpin']:
                R.fail('C16.L3', [fut, 'future-unpin'], '%s embeds a wait node but is Unpin' % fut,
                       '%s:%s' % (a['file'], a['line']))
            else:
                R.ok('C16.L3', '%s is !Unpin' % fut)
        nl = F.adt('noop_lock::NoopLock')
        if nl['self_auto']['Send'] or nl['self_auto']['Sync']:
            R.fail('C16.L3', ['noop_lock::NoopLock', 'thread-safe'],
                   'NoopLock is Send=%s Sync=%s; the local flavours rely on it being neither' % (
                       nl['self_auto']['Send'], nl['self_auto']['Sync']), '%s:%s' % (nl['file'], nl['line']))
        else:
            R.ok('C16.L3', 'NoopLock is !Send + !Sync (solver fact)')
    # ---- L1: probe matrix
    import probes
    probes.run(C, R)


def _subst(t, sub):
    """substitute type parameters of a serialized type tree"""
    if isinstance(t, list):
        return [_subst(x, sub) for x in t]
    if not isinstance(t, dict):
        return t
    if t.get('k') == 'param' and t.get('name') in sub:
        return sub[t['name']]
    out = {k: _subst(v, sub) if k in ('ty', 'args', 'tys') else v for k, v in t.items()}
    return out


def _field_adts(F, adt, seen=None):
    """ADT paths that occur in the (transitive) field types of a local ADT"""
    seen = seen if seen is not None else set()
    a = F.adts.get(adt)
    if a is None or adt in seen:
        return seen
    seen.add(adt)
    from facts import ty_adt_paths
    for v in a['variants']:
        for f in v['fields']:
            for p in ty_adt_paths(f['ty']):
                if p in F.adts:
                    _field_adts(F, p, seen)
    return seen


def _casts_of_callees(F, fn, ret_adts, casts, depth):
    """unsizing-to-dyn casts made in the local constructors `fn` forwards to, each with the substitution that
    expresses the callee's type parameters in the caller's terms.  -> [(cast rvalue, subst, callee path)]"""
    out = []
    if depth > 3:
        return out
    for b in fn['blocks']:
        t = b['term']
        if b['cleanup'] or t['k'] != 'call' or 'fn' not in t['func']:
            continue
        res = t['func']['fn'].get('resolved') or {}
        if not res.get('local'):
            continue
        callee = F.fn(res['path'])
        if callee is None:
            continue
        dt = callee['locals'][0]['ty']
        if dt.get('k') != 'adt' or dt['path'] not in ret_adts:
            continue
        names = callee.get('generics')
        if names is None or 'gargs' not in res or len(names) != len(res['gargs']):
            raise CheckerError('anchor=L2e: cannot map the type parameters of %s at its call in %s'
                               % (res['path'], fn['path']))
        sub = dict(zip(names, res['gargs']))
        own = [(rv, sub, callee['path']) for cfn, cs, rv in casts if cfn['path'] == callee['path']]
        if own:
            out += own
        else:
            for rv, sub2, cp in _casts_of_callees(F, callee, ret_adts, casts, depth + 1):
                # compose: callee-of-callee params -> callee terms -> caller terms
                sub3 = {k: _subst(v, sub) for k, v in (sub2 or {}).items()}
                out.append((rv, sub3, cp))
    return out


def _erased_in_crate(F, trait_path):
    """is there an unsizing cast into `dyn <trait>` anywhere in the crate (a crate type put behind the dyn)?"""
    cache = F.__dict__.setdefault('_unsize_targets', None)
    if cache is None:
        cache = []
        for fn in F.raw['fns']:
            for b in fn['blocks']:
                for s in b['stmts']:
                    rv = s.get('rv') or {}
                    if 'cast' in rv and 'Unsize' in rv.get('kind', '') and 'dyn ' in rv.get('to', ''):
                        src = rv.get('from_ty') or {}
                        inner = (src.get('args') or [None])[0] if src.get('k') == 'adt' else src.get('ty')
                        if inner is not None and inner.get('k') == 'dyn':
                            continue    # dyn -> dyn re-coercion (a shorter lifetime): puts no type behind the dyn
                        cache.append(rv['to'])
        F.__dict__['_unsize_targets'] = cache
    return any(('dyn ' + str(trait_path)) in t or str(trait_path) in t for t in cache)


def l2e(C, R, F, D, cfg, dyn_impls):
    """type-erased futures: for every unsizing cast into a `dyn <Access trait>` pointer made where
    such a future is constructed, the source type must be Sync (borrowed) / Send+Sync (Arc) under
    the future's own bounds mapped onto the source type's parameters, or under the where-clauses of
    the constructing item."""
    casts = []
    for fn in F.raw['fns']:
        for b in fn['blocks']:
            if b['cleanup']:
                continue
            for s in b['stmts']:
                rv = s.get('rv') or {}
                if 'cast' in rv and 'Unsize' in rv.get('kind', '') and 'dyn ' in rv.get('to', ''):
                    casts.append((fn, s, rv))
    n_sites = 0
    for im in dyn_impls:
        fut = im['self_adt']
        a = F.adt(fut)
        fname = fut.split('channel::')[-1] if 'channel::' in fut else fut.split('::')[-1]
        sites = [(fn, s) for fn, s, cl in scan_aggregates(F, fut) if not cl]
        env = im['param_facts']
        where = '%s:%s' % (im['file'], im['line'])
        fparams = a['params']
        # the impl must bound the marker by Sync and the payload by Send
        lp = [p for p in fparams if p in lock_params(F, im)]
        pp = [p for p in fparams if p not in lp]
        for p in lp:
            if env.get(p, {}).get('Sync'):
                R.ok('C16.L2e', '%s|marker %s: Sync' % (fname, p))
            else:
                R.fail('C16.L2e', [fname, 'marker', '%s: Sync' % p],
                       'unsafe impl Send for %s does not bound the lock marker %s by Sync' % (fname, p), where)
        for p in pp:
            if env.get(p, {}).get('Send'):
                R.ok('C16.L2e', '%s|payload %s: Send' % (fname, p))
            else:
                R.fail('C16.L2e', [fname, 'payload', '%s: Send' % p],
                       'unsafe impl Send for %s does not bound the payload %s by Send' % (fname, p), where)
        # every construction site: which type goes behind the dyn?
        for fn, s in sites:
            n_sites += 1
            srcs = [(rv, None, fn['path']) for cfn, cs, rv in casts if cfn['path'] == fn['path']]
            if not srcs:
                # the pointer is erased in a constructor this one forwards to: follow resolved local callees
                # that return one of the future's (transitive) field types
                srcs = _casts_of_callees(F, fn, _field_adts(F, fut), casts, 0)
            if not srcs:
                raise CheckerError('anchor=L2e: no unsizing cast found in constructor %s of %s (nor in the '
                                   'constructors it forwards to)' % (fn['path'], fname))
            agg = s['rv']
            g = agg.get('gargs', [])
            for rv, sub, cast_fn in srcs:
                src = rv['from_ty'] if sub is None else _subst(rv['from_ty'], sub)
                ptr_kind = 'Arc' if src.get('k') == 'adt' and src['path'] == 'std::sync::Arc' else '&'
                inner = src['args'][0] if ptr_kind == 'Arc' else src.get('ty')
                if inner is not None and inner.get('k') == 'dyn':
                    continue   # dyn -> dyn re-coercion of an already erased pointer: puts no new type behind the dyn
                if inner is None or inner.get('k') != 'adt':
                    raise CheckerError('anchor=L2e: unexpected unsizing source %s in %s' % (src.get('str'), fn['path']))
                iname = inner['path'].split('::')[-1]
                # map the future's own bounds onto the source type's parameters via the site's generic args
                site_env = {}
                for fp, ga in zip(fparams, g):
                    if ga.get('k') == 'param':
                        site_env.setdefault(ga['name'], {}).update(
                            {k: v for k, v in env.get(fp, {}).items() if v})
                    else:
                        R.fail('C16.L2e', [fname, 'site', fn['path'], 'untied-parameter', fp],
                               '%s is constructed in %s with %s = %s, not tied to the channel\'s own parameter' % (
                                   fname, fn['path'], fp, ga.get('str')), F.loc(fn, s['ln']))
                need = [SYNC] if ptr_kind == '&' else [SEND, SYNC]
                for tr in need:
                    for kind, what, ltr, via in D.obl(inner, tr, (iname,)):
                        if kind != 'param':
                            if kind == 'unsat':
                                R.fail('C16.L2e', [fname, iname, 'unsat', str(what)],
                                       '%s behind the dyn of %s contains %s' % (iname, fname, what), where)
                            continue
                        have = site_env.get(what, {}).get(SHORT[ltr])
                        # bounds of the enclosing item (constructor's own where-clauses) also count
                        have = have or fn.get('param_facts', {}).get(what, {}).get(SHORT[ltr])
                        subj = '%s|%s|%s: %s' % (fname, iname, what, SHORT[ltr])
                        is_lock = any(pr['kind'] == 'trait' and pr['trait'] == RAWMUTEX and pr['self'].get('name') == what
                                      for pr in (F.impl_by_id.get(fn.get('impl'), {}) or {}).get('preds', []))
                        if have:
                            R.ok('C16.L2e', subj, {'future': fname, 'behind_dyn': inner['str'],
                                                   'leaf': '%s: %s' % (what, SHORT[ltr]), 'via': list(via)})
                        elif is_lock and ltr != SYNC:
                            R.observe('O2 %s behind %s: derives %s: %s for the lock parameter' % (
                                iname, fname, what, SHORT[ltr]))
                            R.ok('C16.L2e', subj + '|lock-convention')
                        else:
                            R.fail('C16.L2e', [fname, iname, '%s: %s' % (what, SHORT[ltr])],
                                   '%s is Send under its own bounds, but the %s it points to (constructed in %s) is '
                                   'only thread-safe if %s: %s (via %s), which nothing entails: the future type '
                                   'cannot name that parameter' % (fname, iname, fn['path'], what, SHORT[ltr],
                                                                   ' > '.join(via)), F.loc(fn, s['ln']),
                                   {'via': list(via)})
    R.floor('C16.L2e future-construction-sites[%s]' % cfg, n_sites, {'std': 11, 'alloc': 11, 'none': 6}[cfg])
