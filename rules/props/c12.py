"""C12 — oneshot channels deliver a single value: to one receiver, or (broadcast) a clone to all."""
from rl import (method_role, entry_methods, loc_endswith, path_cond, trace_summary, where, const_of, fmt_val, fmt_loc, fields_of)
from common import (scan_field_writes, w4_pending_stores_waker, w4_helper, contains, poll_variant, effective)
from engine import NONE
from lib import CheckerError

STATES = {'channel::oneshot::ChannelState': 'take', 'channel::oneshot_broadcast::ChannelState': 'clone'}
FLAG = 'is_fulfilled'


def self_value_loc(loc):
    return loc[0] == ('P', 'self') and fields_of(loc) == ('value',)


def run(C, R):
    R.explanation = ('R1 the slot is assigned Some(..) only in send, on a MIR path with is_fulfilled == false that '
                     'also sets the flag, and the rejecting path returns the caller\'s own value; R2 the single-'
                     'consumer flavour hands the value out through Option::take of the slot (so at most one '
                     'receive ever yields it), the broadcast flavour through Clone::clone of the stored value and '
                     'never takes it; R3 None is delivered only with is_fulfilled == true and an empty slot; '
                     'R4 successful send and close drain the wait queue with a waking closure; R5 Pending stores the '
                     'current waker; Notified is never written in these modules (keeps unreachable!() unreachable). '
                     'Which receiver wins is not decided.')
    R.trusted += ['rustc nightly MIR', 'queue-op summaries (C20)', 'T::clone is opaque user code']
    for cfg in C.configs():
        F = C.facts(cfg)
        E = C.engine(cfg)
        CG = C.cg(cfg)
        R.configs.append(cfg)
        from rl import unknown_transitions as _unk
        for _st in list(STATES):
            _u = _unk(C.facts(cfg), C.cg(cfg), _st, ('send', 'close', 'try_receive', 'remove_waiter', 'receive', 'drop', 'poll', 'cancel'))
            if _u:
                raise CheckerError('cannot judge: %s act(s) as a transition of %s (mutates it directly / composes state '
                                   'calls) and this property has no rule for an operation of that name' % (', '.join(_u), _st))
        from common import futures_start_initial as _fsi
        R.floor('C12.R0f future-construction-paths[%s]' % cfg, _fsi(C, R, cfg, ['channel::oneshot::ChannelState', 'channel::oneshot_broadcast::ChannelState'], 'C12.R0f'), 2)
        from common import constructor_state
        for _st in STATES:
            def _decided(d):
                # the state after new() + send(v) (or + close()): decided, with or without a value, nobody waiting.
                # (a value in an UNdecided channel is not reachable: a later send would be accepted as a second value)
                q = d.get('waiters')
                if d.get('is_fulfilled') == ('const', 1) and q is not None and q[0] == 'agg' and q[2] == 'new':
                    return 'starts decided (as after new() + send / close)'
                return None
            constructor_state(R, C.engine(cfg), C.facts(cfg), _st, {'value': 'none', 'is_fulfilled': ('const', 0), 'waiters': 'empty-queue'}, 'C12.R0', also_valid=_decided)
        from common import wrapper_discipline
        R.floor('C12.W wrapper-paths[%s]' % cfg, wrapper_discipline(C, R, cfg, list(STATES), 'C12.W'), 2)
        from common import slot_discipline
        from rl import state_layer
        layer = state_layer(F, CG, list(STATES))
        for st, mode in STATES.items():
            F.adt(st)
            mod = st.rsplit('::', 1)[0] + '::'
            # R6: over every transition (state methods and functions that reach into the state): the slot is assigned
            # only by send and emptied only towards the caller (broadcast: never emptied)
            n6 = slot_discipline(R, E, F, CG, st, 'C12.R6', may_take=(mode == 'take'), empty_when=('is_fulfilled', 0))
            R.floor('C12.R6 slot-accesses[%s] %s' % (cfg, st), n6, 1)
            # R1 who may write the slot
            nw = 0
            for fn, s in scan_field_writes(F, 'value', mod):
                nw += 1
                if (fn.get('impl_adt') == st and method_role(F, fn)[0] == 'send') or layer.get(fn['path']) == st:
                    # (which TRANSITION may assign the slot is R6; a private helper of the state layer may hold the store)
                    R.ok('C12.R1', '%s|slot-write' % fn['path'])
                else:
                    R.fail('C12.R1', [fn['path'], 'slot-write-outside-send'],
                           'the value slot is assigned in %s' % fn['path'], F.loc(fn, s['ln']))
            # (a store through a `&mut Option<T>` handed to a closure or helper is not a field write in the source; R6
            # sees it as an event on the path)
            R.floor('C12.R1 slot-writes[%s] %s' % (cfg, st), nw + n6, 1)
            send = F.one_fn(impl_adt=st, name='send')
            paths = E.run(send['path'])
            R.add_paths(send['path'], len(paths))
            for path in paths:
                if path.exit != 'return':
                    continue
                ff = const_of(E, path.facts, ('init', (('P', 'self'), FLAG)))
                stores = [e for e in path.events if e['k'] == 'write' and self_value_loc(e['loc'])]
                setf = [e for e in path.events if e['k'] == 'write' and loc_endswith(e['loc'], FLAG)
                        and e['val'] == ('const', 1) and effective(E, path, e)]
                okret = path.ret[0] == 'agg' and path.ret[2] == 'Ok'
                if okret:
                    drained = [e for e in path.events if e['k'] == 'qop' and e['op'] in ('reverse_drain', 'drain')]
                    woke = True
                    for d in drained:
                        tok = d['node']
                        tk = [t for t in path.events if t['k'] == 'take' and t['loc'] == tok + ('data', 'task')]
                        if not tk:
                            woke = False
                            continue
                        x = tk[0]['old']
                        inner = E.project(x, (('dc', 'Some'), '0'))
                        k = E.variant_known(path.facts, x)
                        if not (any(w['k'] == 'wake' and w['waker'] in (x, inner) for w in path.events)
                                or k == ('eq', 'None')):
                            woke = False
                    from common import payload_param as _pp
                    good = (ff == 0 and len(stores) == 1 and stores[0]['val'] == ('agg', 'std::option::Option', 'Some',
                                                                                   (('0', _pp(send)),))
                            and setf and drained and woke)
                    if good:
                        R.ok('C12.R1', '%s|accept|%s' % (send['path'], path_cond(E, path)),
                             {'function': send['path'], 'guard': 'is_fulfilled == false', 'stores': 'Some(value)',
                              'sets_flag': True, 'drains_and_wakes': True})
                    else:
                        R.fail('C12.R1' if not (drained and woke) is False else 'C12.R1',
                               [send['path'], 'accept-path', 'flag=%s stores=%d set=%s drained=%s woke=%s' % (
                                   ff, len(stores), bool(setf), bool(drained), woke)],
                               'send() accepting path must observe is_fulfilled == false, store Some(value) once, '
                               'set the flag, and drain the waiters with a waking closure', where(F, stores[0]) if
                               stores else '%s:%s' % (send['file'], send['line']), {'trace': trace_summary(path)})
                else:
                    from common import payload_param as _pp
                    if stores or setf or not contains(path.ret, _pp(send)) or ff != 1:
                        R.fail('C12.R1', [send['path'], 'reject-path'],
                               'send() rejecting path must not touch the slot and must return the caller\'s value '
                               '(flag fact=%s)' % ff, '%s:%s' % (send['file'], send['line']),
                               {'trace': trace_summary(path)})
                    else:
                        R.ok('C12.R1', '%s|reject|%s' % (send['path'], path_cond(E, path)))
            # R2/R3 receive
            rec = F.one_fn(impl_adt=st, name='try_receive')
            paths = E.run(rec['path'])
            R.add_paths(rec['path'], len(paths))
            ndel = 0
            for path in paths:
                if path.exit != 'return':
                    continue
                pv = poll_variant(E, path)
                takes = [e for e in path.events if e['k'] == 'take' and self_value_loc(e['loc'])]
                clones = [e for e in path.events if e['k'] == 'call' and e['name'] == 'clone' and e['args']
                          and e['args'][0][0] == 'ref' and e['args'][0][1][0] == ('P', 'self')
                          and 'value' in fields_of(e['args'][0][1])]
                inner = path.ret[3][0][1] if pv == 'Ready' and path.ret[0] == 'agg' else None
                # the delivered Option: a literal Some(..), or a value the path knows to be Some (e.g. the result of
                # mem::replace(&mut slot, None) handed on as a whole)
                inner_some = inner is not None and ((inner[0] == 'agg' and inner[2] == 'Some') or
                                                    E.variant_known(path.facts, inner) == ('eq', 'Some'))
                if pv == 'Ready' and inner_some:
                    ndel += 1
                    payload = inner[3][0][1] if inner[0] == 'agg' else E.project(inner, (('dc', 'Some'), '0'))
                    if mode == 'take':
                        ok = takes and payload == E.project(takes[0]['old'], (('dc', 'Some'), '0')) and not clones
                        msg = 'the single-consumer oneshot must move the value out of the slot with take()'
                    else:
                        ok = clones and payload == clones[0]['ret'] and not takes
                        msg = 'the broadcast oneshot must deliver a clone and leave the value in the slot'
                    if ok:
                        R.ok('C12.R2', '%s|deliver(%s)|%s' % (rec['path'], mode, path_cond(E, path)),
                             {'function': rec['path'], 'delivery': mode})
                    else:
                        R.fail('C12.R2', [rec['path'], 'delivery-mode', mode], msg,
                               '%s:%s' % (rec['file'], rec['line']), {'trace': trace_summary(path)})
                elif pv == 'Ready':
                    ff = const_of(E, path.facts, ('init', (('P', 'self'), FLAG)))
                    kv = E.variant_known(path.facts, ('init', (('P', 'self'), 'value')))
                    inner_ret = E.project(path.ret, (('dc', 'Ready'), '0')) if path.ret[0] == 'agg' else None
                    if ff == 1 and kv == ('eq', 'None') and (mode == 'take' or not takes):
                        R.ok('C12.R3', '%s|none|%s' % (rec['path'], path_cond(E, path)))
                    elif ff == 1 and mode == 'take' and takes and inner_ret is not None and inner_ret == takes[0].get('old'):
                        # `Ready(self.value.take())` under is_fulfilled: whatever the slot holds is handed out - the
                        # value if it is still there, None otherwise
                        ndel += 1
                        R.ok('C12.R3', '%s|decided: hands out the slot as it is|%s' % (rec['path'], path_cond(E, path)))
                    elif ff == 1 and mode == 'clone' and not takes and inner_ret is not None and any(
                            c_['k'] == 'call' and c_.get('name') == 'clone' and c_.get('ret') == inner_ret and c_.get('args')
                            and c_['args'][0][0] == 'ref' and fields_of(c_['args'][0][1])[-1:] == ('value',)
                            for c_ in path.events):
                        # broadcast: `Ready(self.value.clone())` under is_fulfilled - a copy of whatever the slot holds
                        ndel += 1
                        R.ok('C12.R3', '%s|decided: hands out a clone of the slot as it is|%s' % (rec['path'], path_cond(E, path)))
                    else:
                        R.fail('C12.R3', [rec['path'], 'none-without-fulfilled'],
                               'None is delivered without is_fulfilled == true and an empty slot (flag=%s slot=%s)'
                               % (ff, kv), '%s:%s' % (rec['file'], rec['line']), {'trace': trace_summary(path)})
                elif takes and mode == 'clone':
                    R.fail('C12.R2', [rec['path'], 'broadcast-takes'], 'the broadcast flavour takes the value',
                           where(F, takes[0]))
            # a receiver parks only when there is no value and the channel is neither fulfilled nor closed
            for path in paths:
                if path.exit != 'return' or poll_variant(E, path) != 'Pending':
                    continue
                parks = [e for e in path.events if e['k'] == 'qop' and e['op'] == 'add_front']
                if not parks:
                    continue
                ff = const_of(E, path.facts, ('init', (('P', 'self'), FLAG)))
                kv = E.variant_known(path.facts, ('init', (('P', 'self'), 'value')))
                if ff == 0 and kv in (('eq', 'None'), None):
                    # (not fulfilled implies an empty slot: the slot is assigned only together with the flag - R1 / R6 -
                    # and the constructors start empty or decided - R0; so the flag alone justifies parking)
                    R.ok('C12.R3', '%s|parks: not fulfilled%s|%s' % (rec['path'], ', no value' if kv else '', path_cond(E, path)))
                else:
                    R.fail('C12.R3', [rec['path'], 'parks-although-decided'],
                           'a receiver is queued although the path has not established "no value and not fulfilled" '
                           '(flag=%s slot=%s): send/close already happened and nobody will wake it' % (ff, kv),
                           where(F, parks[0]), {'trace': trace_summary(path)})
            R.floor('C12.R2 delivery-paths[%s] %s' % (cfg, st), ndel, 1)
            w4_pending_stores_waker(R, E, F, rec, paths, 'C12.R5')
            # R4 close drains (same instance as C11.R2)
            # R5: Notified never written in the module
            bad = 0
            for fn in F.raw['fns']:
                if not fn['path'].lstrip('<').startswith(mod):
                    continue
                for b in fn['blocks']:
                    for s in b['stmts']:
                        rv = s.get('rv') or {}
                        if rv.get('agg') == 'adt' and rv.get('adt', '').endswith('RecvPollState') and rv.get('variant') == 'Notified':
                            bad += 1
                            R.fail('C12.R5', [fn['path'], 'notified-written'],
                                   'RecvPollState::Notified is produced in %s; the receive path treats it as '
                                   'unreachable' % fn['path'], F.loc(fn, s['ln']))
            if not bad:
                R.ok('C12.R5', '%s|Notified never written' % mod)
        w4_helper(R, E, F, 'C12.R5h')
