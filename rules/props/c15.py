"""C15 — timer: never early, due timers expire, next_expiration = heap minimum's deadline (structure)."""
from rl import (entry_methods, loc_endswith, path_cond, trace_summary, where, const_of, fmt_val, fmt_loc, fields_of)
from common import (w4_pending_stores_waker, w4_helper, poll_variant, contains)
from engine import some
from typestate import check_typestate
from lib import CheckerError

STATE = 'timer::timer::TimerState'
SERVICE = 'timer::timer::GenericTimerService'
ENTRY = 'timer::timer::TimerQueueEntry'


def now_calls(path):
    return [e for e in path.events if e['k'] == 'call' and e['name'] == 'now' and 'Clock' in e['callee']]


def due_fact(E, path, now, expiry):
    """ge(now, expiry) as a path fact: 1 / 0 / None (every equivalent spelling)"""
    from common import cmp_fact
    return cmp_fact(E, path.facts, 'Ge', now, expiry)


def key_stability(R, E, F, m, paths):
    """R7: the deadline is the key the heap is ordered by; it is written only while the entry is NOT in the heap (a
    key changed in place keeps its order against the parent at best, never against its children, and peek_min stops
    being the minimum).  Per path: membership of the node at the moment of the write = linked(entry state) adjusted
    by the heap operations on that node before the write.  returns #writes seen"""
    from specs import TYPESTATE
    tab = TYPESTATE[STATE]['waiters']
    n = 0
    for path in paths:
        for i, e in enumerate(path.events):
            if e['k'] not in ('write', 'replace') or not e.get('loc') or not loc_endswith(e['loc'], 'expiry'):
                continue
            root = e['loc'][:1]
            if root[0][0] not in ('P', 'tok') or root == (('P', 'self'),):
                continue
            n += 1
            if root[0][0] == 'tok':
                member = {1}     # a node obtained from the heap is in it
            else:
                k0 = path.facts.get(('discr', ('init', root + ('data', 'state'))))
                vs = list(tab)
                if k0 and k0[0] == 'eq':
                    vs = [k0[1]]
                elif k0:
                    vs = [v for v in vs if v not in k0[1]]
                member = set(1 if tab[v] else 0 for v in vs)
            for q in path.events[:i]:
                if q['k'] == 'qop' and q.get('node') is not None and q['node'][:1] == root:
                    if q['op'] in ('insert', 'add_front'):
                        member = {1}
                    elif q['op'] in ('remove', 'remove_first', 'remove_last'):
                        member = {0}
            if member == {0}:
                R.ok('C15.R7', '%s|deadline written while the entry is outside the heap|%s' % (m['path'], path_cond(E, path)))
            else:
                R.fail('C15.R7', [m['path'], 'deadline-written-while-queued'],
                       '%s changes the deadline of an entry that is (or may be) in the heap at that moment: heap order '
                       'is not re-established, so peek_min / check_expirations can miss due timers [%s]'
                       % (m['path'], path_cond(E, path)), where(F, e), {'trace': trace_summary(path)})
    return n


def run(C, R):
    R.explanation = ('R1 never early: Expired is written, and Ready returned for an unregistered future, only on MIR '
                     'paths carrying ge(now, expiry) == true where `now` is the result of Clock::now() on that path '
                     'and `expiry` the node\'s own deadline, in that orientation; R2 check_expirations: for the '
                     'heap minimum, due => mark Expired, wake the taken waker, remove that entry and look again; '
                     'not due => stop without touching anything; R3 next_expiration returns the deadline of '
                     'peek_min (None if empty); R4 Ord/PartialOrd/Eq of the queue entry compare self.expiry with '
                     'other.expiry in that order; R5 no non-saturating u64 addition in the timer module, '
                     'delay() = saturating_add(now, min(millis, u64::MAX)); R6 typestate of the heap (C01.I1). '
                     'That peek_min is the true minimum and wake order is non-decreasing is heap order (C20), '
                     'assumed.')
    R.trusted += ['rustc nightly MIR', 'heap-op summaries (C20)', 'Clock::now is opaque user code (monotone by contract)']
    R.assumptions += ['PairingHeap::peek_min returns a minimum (C20 checks the orientation clause only)']
    for cfg in C.configs():
        F = C.facts(cfg)
        E = C.engine(cfg)
        CG = C.cg(cfg)
        roles = C.roles(cfg)
        R.configs.append(cfg)
        from common import futures_start_initial as _fsi
        R.floor('C15.R0f future-construction-paths[%s]' % cfg, _fsi(C, R, cfg, ['timer::timer::TimerState'], 'C15.R0f'), 1)
        from common import constructor_state
        constructor_state(R, C.engine(cfg), C.facts(cfg), STATE, {'waiters': 'empty-queue', 'clock': ('ref', (('P', 'clock'),))}, 'C15.R0')
        from common import wrapper_discipline
        R.floor('C15.W wrapper-paths[%s]' % cfg, wrapper_discipline(C, R, cfg, ['timer::timer::TimerState'], 'C15.W'), 2)
        F.adt(STATE)
        nexp = 0
        nkey = 0
        # R1 + R2
        for m in entry_methods(F, CG, STATE):
            paths = E.run(m['path'])
            R.add_paths(m['path'], len(paths))
            check_typestate(R, E, F, roles, STATE, m, paths, 'C15.R6')
            nkey += key_stability(R, E, F, m, paths)
            for path in paths:
                if path.exit != 'return':
                    continue
                pc = path_cond(E, path)
                nows = now_calls(path)
                for e in path.events:
                    if e['k'] == 'write' and loc_endswith(e['loc'], 'state') and e['val'][0] == 'agg' \
                            and e['val'][2] == 'Expired':
                        nexp += 1
                        node = e['loc'][:1]
                        expiry = ('init', node + ('data', 'expiry'))
                        ok = any(due_fact(E, path, n['ret'], expiry) == 1 for n in nows)
                        if ok:
                            R.ok('C15.R1', '%s|Expired under ge(now, expiry)|%s' % (m['path'], pc),
                                 {'function': m['path'], 'guard': 'ge(clock.now(), node.expiry)'})
                        else:
                            R.fail('C15.R1', [m['path'], 'expired-without-due-test'],
                                   '%s marks a timer Expired on a path without ge(clock.now(), its own expiry) == '
                                   'true [%s]' % (m['path'], pc), where(F, e), {'trace': trace_summary(path)})
                if m.get('name') == 'try_wait':
                    from common import own_node_roots as _onr
                    _own = (list(_onr(F, m)) or [(('P', 'wait_node'),)])[0]
                    k0 = path.facts.get(('discr', ('init', _own + ('data', 'state'))))
                    s0 = k0[1] if k0 and k0[0] == 'eq' else None
                    pv = poll_variant(E, path)
                    if s0 == 'Unregistered':
                        expiry = ('init', _own + ('data', 'expiry'))
                        d = [due_fact(E, path, n['ret'], expiry) for n in nows]
                        d = d[0] if d else None
                        if d is None or (pv == 'Ready') != (d == 1):
                            R.fail('C15.R1', [m['path'], 'first-poll', 'due=%s' % d, str(pv)],
                                   'the first poll must complete iff ge(clock.now(), expiry) (due=%s, returns %s)'
                                   % (d, pv), '%s:%s' % (m['file'], m['line']), {'trace': trace_summary(path)})
                        else:
                            R.ok('C15.R1', '%s|first poll|due=%s -> %s' % (m['path'], d, pv))
                    elif s0 == 'Registered' and pv != 'Pending':
                        R.fail('C15.R1', [m['path'], 'registered-completes'],
                               'a registered timer completes without having been marked Expired',
                               '%s:%s' % (m['file'], m['line']))
                    elif s0 == 'Expired' and pv != 'Ready':
                        R.fail('C15.R1', [m['path'], 'expired-pending'], 'an expired timer stays pending',
                               '%s:%s' % (m['file'], m['line']))
                if m.get('name') == 'check_expirations':
                    peeks = [(i, e) for i, e in enumerate(path.events) if e['k'] == 'qop' and e['op'] == 'peek_min']
                    # the scan ends only on an empty heap or on a minimum that is not due: "all due timers"
                    if peeks:
                        li, le = peeks[-1]
                        if le['node'] is not None:
                            expiry = ('init', le['node'] + ('data', 'expiry'))
                            d = [due_fact(E, path, nw['ret'], expiry) for nw in nows]
                            if d and d[0] == 1:
                                R.fail('C15.R2', [m['path'], 'scan-stops-after-a-due-timer'],
                                       'check_expirations returns right after handling a due timer without looking '
                                       'at the new heap minimum: other due timers (e.g. with an equal deadline) are '
                                       'missed [%s]' % pc, where(F, le), {'trace': trace_summary(path)})
                            elif d and d[0] == 0:
                                R.ok('C15.R2', '%s|scan ends at a minimum that is not due|%s' % (m['path'], pc))
                        else:
                            R.ok('C15.R2', '%s|scan ends on an empty heap|%s' % (m['path'], pc))
                    else:
                        R.fail('C15.R2', [m['path'], 'no-scan'], 'check_expirations does not look at the heap minimum',
                               '%s:%s' % (m['file'], m['line']))
                    for n, (i, e) in enumerate(peeks):
                        if e['node'] is None:
                            continue
                        tok = e['node']
                        end = peeks[n + 1][0] if n + 1 < len(peeks) else len(path.events)
                        seg = path.events[i:end]
                        expiry = ('init', tok + ('data', 'expiry'))
                        d = [due_fact(E, path, nw['ret'], expiry) for nw in nows]
                        d = d[0] if d else None
                        marked = any(w['k'] == 'write' and w['loc'] == tok + ('data', 'state') and w['val'][0] == 'agg'
                                     and w['val'][2] == 'Expired' for w in seg)
                        removed = any(q['k'] == 'qop' and q['op'] == 'remove' and q['node'] == tok for q in seg)
                        tk = [t for t in seg if t['k'] == 'take' and t['loc'] == tok + ('data', 'task')]
                        woke = False
                        if tk:
                            x = tk[0]['old']
                            inner = E.project(x, (('dc', 'Some'), '0'))
                            kk = E.variant_known(path.facts, x)
                            woke = any(w['k'] == 'wake' and w['waker'] in (x, inner) for w in seg) or kk == ('eq', 'None')
                            # handing the waker on (to the caller, or to a collector that wakes after the
                            # lock is released) is as good as waking it here; C18 judges any allocation
                            escaped = contains(path.ret, x) or any(
                                c['k'] == 'call' and c['name'] not in ('take',) and
                                any(contains(a, x) or contains(a, inner) for a in c['args']) for c in seg)
                            woke = woke or escaped
                        if d == 1:
                            if marked and removed and woke:
                                R.ok('C15.R2', '%s|due: Expired+wake+remove|%s' % (m['path'], pc))
                            else:
                                R.fail('C15.R2', [m['path'], 'due-timer', 'marked=%s woke=%s removed=%s' % (
                                    marked, woke, removed)],
                                       'a due timer must be marked Expired, woken and removed', where(F, e),
                                       {'trace': trace_summary(path)})
                        elif d == 0:
                            touched = [x for x in seg[1:] if x['k'] in ('write', 'qop', 'take', 'wake')]
                            if touched or n + 1 < len(peeks):
                                R.fail('C15.R2', [m['path'], 'not-due-timer-touched'],
                                       'a timer that is not due is modified, or the scan continues past it',
                                       where(F, e), {'trace': trace_summary(path)})
                            else:
                                R.ok('C15.R2', '%s|not due: stop|%s' % (m['path'], pc))
                        else:
                            R.fail('C15.R2', [m['path'], 'no-due-test'],
                                   'check_expirations handles the heap minimum without comparing clock.now() with '
                                   'its expiry', where(F, e), {'trace': trace_summary(path)})
            if m.get('name') == 'try_wait':
                w4_pending_stores_waker(R, E, F, m, paths, 'C15.R1w')
        R.floor('C15.R1 Expired-writes[%s]' % cfg, nexp, 2)
        # ... and nobody outside the transitions writes it at all (a future that re-arms itself by storing a new
        # deadline into its own node, without the lock, changes the key of an entry that may be queued)
        from rl import state_layer
        layer = state_layer(F, CG, [STATE])
        trans = set(x['path'] for x in entry_methods(F, CG, STATE))
        for fn in F.raw['fns']:
            if fn['kind'] == 'closure' or fn['path'] in layer or fn['path'] in trans:
                continue
            if not fn['path'].lstrip('<').startswith('timer::timer'):
                continue
            for path in E.run(fn['path']):
                for e in path.events:
                    if e['k'] in ('write', 'replace') and e.get('loc') and loc_endswith(e['loc'], 'expiry') \
                            and e['loc'][0][0] == 'P' and e.get('fn') not in layer:
                        R.fail('C15.R7', [fn['path'], 'deadline-written-outside-the-transitions'],
                               '%s stores a deadline into a queue entry outside the timer\'s lock-protected '
                               'transitions' % fn['path'], where(F, e), {'trace': trace_summary(path)})
                        break
        R.observe('C15.R7: %d write(s) of a queue entry\'s deadline inside the transitions [%s] (today the deadline is '
                  'fixed at construction; the rule is exercised by the selftest mutant seed-timer-reset-in-place)' % (nkey, cfg))
        w4_helper(R, E, F, 'C15.R1h')
        # R3
        ne = F.one_fn(impl_adt=STATE, name='next_expiration')
        paths = E.run(ne['path'])
        R.add_paths(ne['path'], len(paths))
        for path in paths:
            peek = [e for e in path.events if e['k'] == 'qop']
            if len(peek) != 1 or peek[0]['op'] != 'peek_min':
                R.fail('C15.R3', [ne['path'], 'not-peek-min'], 'next_expiration does not consult peek_min exactly once',
                       '%s:%s' % (ne['file'], ne['line']))
                continue
            tok = peek[0]['node']
            if tok is None:
                ok = path.ret == ('agg', 'std::option::Option', 'None', ())
            else:
                ok = path.ret == ('agg', 'std::option::Option', 'Some', (('0', ('init', tok + ('data', 'expiry'))),))
            if ok:
                R.ok('C15.R3', '%s|%s' % (ne['path'], 'empty' if tok is None else 'min.expiry'))
            else:
                R.fail('C15.R3', [ne['path'], 'wrong-value'], 'next_expiration returns %s' % fmt_val(path.ret),
                       '%s:%s' % (ne['file'], ne['line']))
        # R4 orientation of the entry's comparison impls
        ncmp = 0
        for fn in F.raw['fns']:
            if fn.get('impl_adt') != ENTRY or fn.get('name') not in ('cmp', 'partial_cmp', 'eq'):
                continue
            ncmp += 1
            for path in E.run(fn['path']):
                a = ('init', (('P', 'self'), 'expiry'))
                b = ('init', (('P', 'other'), 'expiry'))
                good = False
                for e in path.events:
                    if e['k'] == 'call' and e['name'] in ('cmp', 'partial_cmp') and len(e['args']) == 2:
                        if e['args'][0] == ('ref', (('P', 'self'), 'expiry')) and e['args'][1] == ('ref', (('P', 'other'), 'expiry')) \
                                and path.ret == e['ret']:
                            good = True
                    if e['k'] == 'cmp' and e['a'] == a and e['b'] == b:
                        good = True
                # partial_cmp may delegate to the (checked) total order: Some(self.cmp(other))
                if fn.get('name') == 'partial_cmp':
                    for e in path.events:
                        if e['k'] == 'call' and e['name'] == 'cmp' and len(e['args']) == 2 and \
                                e['args'][0] in (('ref', (('P', 'self'),)), ('param', 'self')) and \
                                e['args'][1] in (('ref', (('P', 'other'),)), ('param', 'other')) and \
                                (path.ret == some(e['ret']) or (e.get('mode') == 'inline' and path.ret[0] == 'agg'
                                                                 and path.ret[2] == 'Some')):
                            good = True
                # eq: equality is symmetric; `!(a != b)` is the same predicate
                if fn.get('name') == 'eq' and path.ret in (('bin', 'Eq', a, b), ('bin', 'Eq', b, a),
                                                            ('un', 'Not', ('bin', 'Ne', a, b)),
                                                            ('un', 'Not', ('bin', 'Ne', b, a))):
                    good = True
                if good:
                    R.ok('C15.R4', fn['path'])
                else:
                    R.fail('C15.R4', [fn['path'], 'orientation'],
                           '%s does not compare self.expiry with other.expiry in that order' % fn['path'],
                           '%s:%s' % (fn['file'], fn['line']))
        R.floor('C15.R4 comparison-impls[%s]' % cfg, ncmp, 3)
        # R5 arithmetic
        nadd = 0
        for fn in F.raw['fns']:
            if not fn['path'].lstrip('<').startswith('timer::timer::'):
                continue
            for b in fn['blocks']:
                for s in b['stmts']:
                    rv = s.get('rv') or {}
                    if rv.get('binop', '').startswith('Add') or rv.get('binop', '').startswith('Mul'):
                        nadd += 1
                        R.fail('C15.R5', [fn['path'], 'plain-arithmetic', rv['binop']],
                               '%s uses non-saturating %s on a timestamp' % (fn['path'], rv['binop']),
                               F.loc(fn, s['ln']))
        if nadd == 0:
            R.ok('C15.R5', 'no plain Add/Mul in timer::timer (zero-count)')
        dfn = F.one_fn(impl_adt=SERVICE, name='deadline_from_now')
        for path in E.run(dfn['path']):
            sat = [e for e in path.events if e['k'] == 'call' and e['name'] == 'saturating_add']
            nows = now_calls(path)
            mins = [e for e in path.events if e['k'] == 'call' and e['name'] == 'min']
            good = len(sat) == 1 and path.ret == sat[0]['ret'] and nows and sat[0]['args'][0] == nows[0]['ret']
            if good:
                # the addend is the duration in ms clamped to u64: min(millis, MAX), or the same spelled as a branch
                x = sat[0]['args'][1]
                ms = [e for e in path.events if e['k'] == 'call' and e['name'] == 'as_millis']
                U64MAX = ('const', 2 ** 64 - 1)
                from common import cmp_fact
                if mins and contains(x, mins[0]['ret']):
                    pass
                elif ms and x == U64MAX and cmp_fact(E, path.facts, 'Gt', ms[0]['ret'], U64MAX) == 1:
                    pass
                elif ms and contains(x, ms[0]['ret']) and cmp_fact(E, path.facts, 'Gt', ms[0]['ret'], U64MAX) == 0:
                    pass
                else:
                    good = False
            if good:
                R.ok('C15.R5', '%s|saturating_add(now, min(..))' % dfn['path'])
            else:
                R.fail('C15.R5', [dfn['path'], 'not-saturating'],
                       'deadline_from_now must return now.saturating_add(min(duration millis, u64::MAX))',
                       '%s:%s' % (dfn['file'], dfn['line']))
        # delay() uses deadline_from_now and deadline(); both timer traits
        nd = 0
        for fn in F.raw['fns']:
            if fn.get('impl_adt') == SERVICE and fn.get('name') == 'delay':
                nd += 1
                for path in E.run(fn['path']):
                    calls = [e['name'] for e in path.events if e['k'] == 'call']
                    dfn_rets = [e['ret'] for e in path.events if e['k'] == 'ret' and e.get('name') == 'deadline_from_now']
                    dfn_rets += [e['ret'] for e in path.events if e['k'] == 'call' and e['name'] == 'deadline_from_now'
                                 and e.get('ret') is not None]
                    # delay(d) hands out a future whose expiry is deadline_from_now(d) - through deadline() or directly
                    used = any(contains(path.ret, r) for r in dfn_rets) or any(
                        e['k'] == 'call' and any(contains(a, r) for a in e.get('args', ()) for r in dfn_rets)
                        for e in path.events)
                    if 'deadline_from_now' in calls and ('deadline' in calls or used):
                        R.ok('C15.R5', '%s|delay = deadline(deadline_from_now(d))' % fn['path'])
                    else:
                        R.fail('C15.R5', [fn['path'], 'delay'], 'delay() does not go through deadline_from_now',
                               '%s:%s' % (fn['file'], fn['line']))
        R.floor('C15.R5 delay-impls[%s]' % cfg, nd, 2)
