"""C08 — mpmc: each value delivered exactly once or handed back: no in-library drop, duplication or
forgetting of a payload outside the listed sinks."""
from rl import (entry_methods, loc_endswith, path_cond, trace_summary, where, const_of, fmt_val, fmt_loc, fields_of)
from common import scan_calls, contains, poll_variant
from engine import NONE
from facts import ty_mentions_param
from lib import CheckerError

STATE = 'channel::mpmc::ChannelState'
BYVAL_TRANSPARENT = ('std::option::Option', 'std::result::Result', 'std::task::Poll', 'std::mem::MaybeUninit',
                     'std::mem::ManuallyDrop', 'std::collections::VecDeque', 'std::vec::Vec', 'std::boxed::Box')
NODES = ('intrusive_double_linked_list::ListNode', 'intrusive_pairing_heap::HeapNode')


def holds_payload_by_value(F, t, depth=0):
    """does a value of this type own a payload (type parameter) by value?"""
    if depth > 8:
        return False
    k = t.get('k')
    if k == 'param':
        return True
    if k == 'tuple':
        return any(holds_payload_by_value(F, x, depth + 1) for x in t['tys'])
    if k == 'array':
        return holds_payload_by_value(F, t['ty'], depth + 1)
    if k == 'adt':
        p = t['path']
        if p in BYVAL_TRANSPARENT or p in NODES:
            return any(holds_payload_by_value(F, x, depth + 1) for x in t['args'])
        a = F.adts.get(p)
        if a is not None:
            m = dict(zip(a['params'], t['args']))
            from autotrait import subst
            for v in a['variants']:
                for f in v['fields']:
                    if holds_payload_by_value(F, subst(f['ty'], m), depth + 1):
                        return True
        return False
    return False


def value_is_none(E, path, v):
    if v == NONE:
        return True
    k = E.variant_known(path.facts, v)
    return bool(k and k == ('eq', 'None'))


def all_none(E, path, v, depth=0):
    """every payload slot of a (possibly tupled) value is known to be empty / moved out"""
    if v is None or depth > 6:
        return False
    if value_is_none(E, path, v):
        return True
    # a symbolic Poll / Option known to be Pending / None carries nothing
    k = E.variant_known(path.facts, v) if v[0] in ('ret', 'init', 'field') else None
    if k and k[0] == 'eq' and k[1] in ('Pending', 'None'):
        return True
    # an Err(..) of the crate's payload-free error enums carries no payload (TryReceiveError::Empty / Closed)
    if v[0] == 'agg' and v[1] == 'std::result::Result' and v[2] == 'Err' and v[3] and \
            v[3][0][1][0] == 'agg' and v[3][0][1][1] == 'channel::error::TryReceiveError':
        return True
    if v[0] == 'tuple':
        return all(all_none(E, path, x, depth + 1) or not _may_hold(x) for x in v[1])
    if v[0] == 'agg' and v[1] == 'std::task::Poll':
        return all(not _may_hold(x) for _, x in v[3])
    # a struct built on this path whose every field is a constant, an empty slot or a freshly made (empty) queue:
    # e.g. the rest of `State { value: Some(v), ..State::new() }`
    if v[0] == 'agg' and v[1] not in ('std::option::Option', 'std::result::Result') and v[3]:
        return all((not _may_hold(x)) or all_none(E, path, x, depth + 1) or
                   (x[0] == 'agg' and x[2] == 'new' and not x[3]) for _, x in v[3])
    return False


def _may_hold(v):
    if v[0] in ('const',):
        return False
    if v[0] == 'tuple' and not v[1]:
        return False
    if v[0] == 'agg' and v[1] == 'std::task::Poll':
        return any(_may_hold(x) for _, x in v[3])
    return True


# payload drops that are part of the contract (role, reason)
# (state struct, role, reason): the drop may sit in any function of that state's layer (its methods and the private
# helpers only they call) - or, for the discard of buffered values, in the last receiver's destructor itself
ALLOWED_SINKS = [
    ('channel::mpmc::ChannelState', 'ret-of-pop',
     'the last receiver discards buffered values (documented; C11.R6 / C08.R2 restrict when)'),
    ('channel::state_broadcast::ChannelState', 'old-self-value',
     'state broadcast overwrites the superseded state by design'),
    ('channel::oneshot::ChannelState', 'old-self-value',
     'the slot is empty while is_fulfilled == false (C12.R1): dropping None'),
    ('channel::oneshot_broadcast::ChannelState', 'old-self-value',
     'the slot is empty while is_fulfilled == false (C12.R1): dropping None'),
]
ALLOWED_DROPS = [
    ('channel::mpmc::ChannelState::<T, A>::clear', 'ret-of-pop',
     'clear(): the last receiver discards buffered values (documented; C11.R6 restricts the caller)'),
    ('channel::state_broadcast::ChannelState::<T>::send', 'old-self-value',
     'state broadcast overwrites the superseded state by design'),
    ('channel::oneshot::ChannelState::<T>::send', 'old-self-value',
     'the slot is empty while is_fulfilled == false (C12.R1): dropping None'),
    ('channel::oneshot_broadcast::ChannelState::<T>::send', 'old-self-value',
     'the slot is empty while is_fulfilled == false (C12.R1): dropping None'),
]


def run(C, R):
    R.explanation = ('In safe Rust a value of a generic, non-Clone type can only be moved or dropped, so "exactly one '
                     'place" reduces to where the library drops, duplicates or forgets a payload.  R1: on every MIR '
                     'path of every function of the channel modules (dyn calls fanned out to all implementors), '
                     'every non-cleanup Drop of a type that owns a payload by value drops a provably empty slot '
                     '(None / moved out) or is one of four listed sinks; R1a: send_or_register never returns '
                     'Pending with a value in the hand-back slot; R2 clear() is reachable only from the last-'
                     'receiver path; R3 no ptr::read/write/copy, mem::forget/zeroed/transmute, ManuallyDrop or '
                     'assume_init on payloads outside the ring buffer; R4 every Option::take of a parked value '
                     'flows into buffer.push or the return value; R5 cancel(): unlink precedes value.take().')
    R.trusted += ['rustc nightly MIR after drop elaboration', 'engine summaries', 'lock_api::Mutex']
    R.assumptions += ['that a parked value is eventually received is C10; the ring buffer\'s own accounting is C19']
    for cfg in C.configs():
        F = C.facts(cfg)
        E = C.engine(cfg, fanout_traits=('channel_future::ChannelSendAccess', 'channel_future::ChannelReceiveAccess'))
        CG = C.cg(cfg)
        R.configs.append(cfg)
        F.adt(STATE)
        ndrop = 0
        seen = set()
        from rl import state_layer
        layer = state_layer(F, CG, sorted(C.roles(cfg).state_structs))
        fns = [fn for p, fn in F.fns.items() if p.lstrip('<').startswith('channel::')
               and not (fn.get('impl_trait') or '').endswith('fmt::Debug') and fn['kind'] != 'closure']
        fn_paths = set(f_['path'] for f_ in fns)
        for fn in fns:
            # a private helper (not part of the API, not a trait method) is judged where it is called: its callers are
            # roots too, inline it, and know what they hand to it (e.g. a classifier of send_or_register's result,
            # which never carries a value next to Pending - R1a)
            callers_ = [c for c, _ in CG.callers_of(fn['path']) if c != fn['path']]
            if (fn.get('impl_trait') or '').endswith(('convert::From', 'convert::Into')) and \
                    not (F.adts.get(fn.get('impl_adt') or '') or {'reachable': True}).get('reachable'):
                continue    # a conversion into a private type: judged where `.into()` / `from()` is used (inlined there)
            if callers_ and not fn.get('reachable') and not fn.get('impl_trait') and all(c in fn_paths for c in callers_) \
                    and (fn['path'] not in layer or all(c in layer for c in callers_)):
                continue    # (inside the state layer: a helper that only other state functions call)
            paths = E.run(fn['path'])
            R.add_paths(fn['path'], len(paths))
            for path in paths:
                for e in path.events:
                    if e['k'] != 'drop' or not holds_payload_by_value(F, e['ty']):
                        continue
                    ndrop += 1
                    v = e['val']
                    key = (e['fn'], e['ty']['str'], fmt_loc(e['loc']))
                    # a closure / fn item whose captures the path knows and which captures nothing by value
                    if v[0] == 'fn' or (v[0] == 'closure' and not any(_may_hold(c_) and c_[0] not in ('ref',)
                                                                      for c_ in (v[2] or ()))):
                        continue
                    if all_none(E, path, v):
                        if key not in seen:
                            seen.add(key)
                            R.ok('C08.R1', '%s|%s|empty' % (e['fn'], e['ty']['str']),
                                 {'function': e['fn'], 'dropped_type': e['ty']['str'], 'value': fmt_val(v)})
                        continue
                    role = None
                    # a copy made on this path (the result of Clone::clone / Option::cloned) is not the accepted value:
                    # dropping it loses nothing
                    if v[0] == 'ret' and any(c['k'] == 'call' and c.get('ret') == v and c.get('name') in ('clone', 'cloned')
                                             and 'Clone' in ((c.get('ci') or {}).get('trait') or '') + c.get('callee', '')
                                             for c in path.events):
                        if key not in seen:
                            seen.add(key)
                            R.ok('C08.R1', '%s|%s|a clone made on this path' % (e['fn'], e['ty']['str']))
                        continue
                    if v[0] == 'ret':
                        role = 'ret-of-pop'
                    elif v[0] == 'init' and v[1][0] == ('P', 'self') and loc_endswith(v[1], 'value'):
                        role = 'old-self-value'
                    elif v[0] == 'init' and loc_endswith(v[1], 'value') and '<locked>' in v[1]:
                        role = 'old-self-value'
                    allowed = [a for a in ALLOWED_DROPS if a[0] == e['fn'] and a[1] == role]
                    if not allowed and role == 'old-self-value' and e['fn'].lstrip('<').startswith('channel::oneshot'):
                        # the oneshot slot is empty while is_fulfilled == false (C12.R1 / R6): the old value dropped by an
                        # assignment on such a path is None, whichever helper holds the store
                        floc = v[1][:-1] + ('is_fulfilled',)
                        if const_of(E, path.facts, ('init', floc)) == 0:
                            allowed = [(e['fn'], role, 'the slot is empty while is_fulfilled == false (C12.R1): dropping None')]
                    if not allowed:
                        sp_of = layer.get(e['fn'])
                        if sp_of is None and role == 'ret-of-pop' and (F.fn(e['fn']) or {}).get('impl_adt', '').endswith(
                                'shared::GenericReceiver') and ((F.fn(e['fn']) or {}).get('impl_trait') or '').endswith('ops::Drop'):
                            sp_of = STATE
                        if role == 'ret-of-pop' and not any(c['k'] == 'call' and c.get('name') == 'pop' and c.get('ret') == v
                                                            for c in path.events):
                            sp_of = None    # a dropped call result that is not the popped value
                        if role == 'ret-of-pop' and sp_of == STATE and layer.get(e['fn']) == STATE and \
                                (F.fn(e['fn']) or {}).get('name') != 'clear':
                            sp_of = None    # inside the state layer only clear() discards buffered values
                        if role == 'old-self-value' and sp_of is not None and not any(
                                w['k'] == 'write' and w['loc'][-1:] == ('value',) and w['val'] != NONE
                                for w in path.events):
                            sp_of = None    # the old value is dropped without a new one taking its place
                        allowed = [a for a in ALLOWED_SINKS if a[0] == sp_of and a[1] == role]
                    if allowed:
                        if key not in seen:
                            seen.add(key)
                            R.ok('C08.R1', '%s|%s|listed sink' % (e['fn'], role), {'reason': allowed[0][2]})
                        continue
                    # drop glue of a whole future / channel / stream object inside its owner
                    if e['ty'].get('k') == 'adt' and e['ty'].get('local') and fn['path'] != e['fn']:
                        pass
                    R.fail('C08.R1', [e['fn'], 'payload-drop', e['ty']['str'], fmt_val(v).split('@')[0]],
                           '%s drops a value of type %s that may hold a payload (%s) [%s]' % (
                               e['fn'], e['ty']['str'], fmt_val(v), path_cond(E, path)), where(F, e),
                           {'trace': trace_summary(path), 'entry': fn['path']})
        R.floor('C08.R1 payload-typed-drop-events[%s]' % cfg, ndrop, 4)
        # R1a: Pending => value slot None
        sor = [m for m in F.methods_of(STATE) if m.get('name') == 'send_or_register']
        if len(sor) != 1:
            raise CheckerError('anchor=mpmc ChannelState::send_or_register')
        for path in E.run(sor[0]['path']):
            if path.exit != 'return':
                continue
            if poll_variant(E, path) == 'Pending':
                slot = path.ret[1][1] if path.ret[0] == 'tuple' and len(path.ret[1]) > 1 else None
                if slot is None and path.ret[0] == 'agg' and path.ret[1] in F.adts and F.adts[path.ret[1]]['kind'] == 'struct':
                    # a private result struct with named fields: the hand-back slot is the field that can hold a payload
                    defs = {f_['name']: f_['ty'] for f_ in F.adts[path.ret[1]]['variants'][0]['fields']}
                    cands_ = [fv for n_, fv in path.ret[3] if n_ in defs and holds_payload_by_value(F, defs[n_])]
                    slot = cands_[0] if len(cands_) == 1 else None
                if slot is None and path.ret[0] == 'agg' and path.ret[1].endswith('task::Poll'):
                    R.ok('C08.R1a', '%s|Pending carries nothing|%s' % (sor[0]['path'], path_cond(E, path)))
                    continue
                if slot is not None and value_is_none(E, path, slot):
                    R.ok('C08.R1a', '%s|%s' % (sor[0]['path'], path_cond(E, path)))
                else:
                    R.fail('C08.R1a', [sor[0]['path'], 'pending-with-value'],
                           'send_or_register returns Pending together with a value: the send future\'s poll drops '
                           'that tuple slot', '%s:%s' % (sor[0]['file'], sor[0]['line']))
        # R2: who may call clear
        clears_ = [m for m in F.methods_of(STATE) if m.get('name') == 'clear']
        if clears_:
            clear = clears_[0]
        else:
            # clear() folded into its only legitimate caller: the transition that pops without delivering
            from rl import entry_methods as _em
            cands = []
            for m in _em(F, CG, STATE):
                if m['path'] not in F.alias_fns:
                    continue
                for path in E.run(m['path']):
                    if any(e['k'] == 'call' and e.get('name') == 'pop' and 'RingBuf' in e.get('callee', '')
                           and not contains(path.ret, e['ret']) for e in path.events):
                        cands.append(m)
                        break
            if len(cands) != 1:
                raise CheckerError('anchor=the discard of buffered values: neither ChannelState::clear nor exactly one '
                                   'function that pops without delivering (found %d)' % len(cands))
            clear = cands[0]
            R.observe('C08.R2: ChannelState::clear does not exist; the discard loop lives in %s' % clear['path'])
        # ... and what it does: pop until the buffer reports empty (so the discarded values are dropped here and
        # now, each once), returning only after is_empty() == true; it does return after >= 1 pop
        npop = set()
        for path in E.run(clear['path']):
            if path.exit != 'return':
                continue
            foreign = [e for e in path.events if e['k'] == 'call' and 'RingBuf' in e.get('callee', '')
                       and e.get('name') not in ('is_empty', 'pop', 'len', 'capacity', 'can_push')]
            if foreign:
                raise CheckerError('cannot judge %s: it empties the buffer through RingBuf::%s, an operation this rule has '
                                   'no schema for (it knows the is_empty / pop loop)' % (clear['path'], foreign[0]['name']))
            bev = [e for e in path.events if e['k'] == 'call' and e.get('name') in ('is_empty', 'pop', 'len')
                   and 'RingBuf' in e.get('callee', '')]
            if not clears_ and not bev:
                continue    # a path of the enclosing function that does not reach the discard loop
            pops = [e for e in bev if e['name'] == 'pop']
            last_ok = bool(bev) and bev[-1]['name'] == 'is_empty' and const_of(E, path.facts, bev[-1]['ret']) == 1
            alt = all(bev[i]['name'] == ('is_empty' if i % 2 == 0 else 'pop') for i in range(len(bev)))
            npop.add(min(len(pops), 1))
            if last_ok and alt:
                R.ok('C08.R2', '%s|pops until is_empty()|%d pops' % (clear['path'], len(pops)))
            else:
                R.fail('C08.R2', [clear['path'], 'clear-does-not-drain'],
                       'clear() returns on a path that has not observed is_empty() == true after its last pop',
                       '%s:%s' % (clear['file'], clear['line']), {'trace': trace_summary(path)})
        if npop != {0, 1}:
            R.fail('C08.R2', [clear['path'], 'clear-does-not-terminate', str(sorted(npop))],
                   'clear() has no returning path for a %s buffer' % ('non-empty' if 1 not in npop else 'empty'),
                   '%s:%s' % (clear['file'], clear['line']))
        from rl import lift_private_callers
        callers = lift_private_callers(F, CG, clear['path']) if clears_ else [clear['path']]
        def _clear_events(path):
            evs = [e for e in path.events if e['k'] == 'call' and e['callee'] == clear['path']]
            if not clears_:
                # folded: the drain loop's own buffer accesses are the discard
                evs = [e for e in path.events if e['k'] == 'call' and e.get('name') in ('is_empty', 'pop')
                       and 'RingBuf' in e.get('callee', '') and e.get('fn') == clear['path']]
            return evs

        for c in callers:
            cf = F.fn(c)
            if cf and (cf.get('impl_trait') or '').endswith('ops::Drop') and (cf.get('impl_adt') or '').endswith('GenericReceiver'):
                R.ok('C08.R2', 'clear-caller|%s' % c)
            elif cf and clears_ and not any(_clear_events(path) for path in E.run(c)):
                # it shares a private helper with the receiver's destructor, and the arguments it passes keep every
                # one of its own paths away from the discard
                R.ok('C08.R2', 'clear-caller|%s|no path of it reaches the discard' % c)
            else:
                R.fail('C08.R2', [c, 'clear-caller'], 'ChannelState::clear (discarding buffered values) is called '
                       'from %s' % c, '%s:%s' % (cf['file'], cf['line']) if cf else None)
        if cfg != 'none':
            R.floor('C08.R2 clear-callers[%s]' % cfg, len(callers), 1)
            # "the last receiver" presupposes that every receiver handle is counted when it is made
            from common import counted_handle_sites
            R.floor('C08.R2 counted-handle construction paths[%s]' % cfg,
                    counted_handle_sites(R, E, F, C.cg(cfg), 'C08.R2'), 8)
        # ... and there only on the path on which the LAST receiver goes away
        for c in callers:
            cf = F.fn(c)
            if not cf:
                continue
            for path in E.run(c):
                if path.exit != 'return':
                    continue
                clears = _clear_events(path)
                if not clears:
                    continue
                subs = [e for e in path.events if e['k'] == 'call' and e['name'] == 'fetch_sub'
                        and e['args'][0][0] == 'ref' and fields_of(e['args'][0][1])[-1:] == ('receivers',)]
                last = any(const_of(E, path.facts, e['ret']) == 1 and e['args'][1] == ('const', 1) for e in subs)
                if last:
                    R.ok('C08.R2', 'clear only for the last receiver|%s|%s' % (c, path_cond(E, path)))
                else:
                    R.fail('C08.R2', [c, 'clear-while-receivers-remain'],
                           '%s discards the buffered values on a path that is not the drop of the LAST receiver '
                           '(no receivers.fetch_sub(1) == 1): values are lost while receivers can still reach them '
                           '[%s]' % (c, path_cond(E, path)), where(F, clears[0]), {'trace': trace_summary(path)})
        # R3: raw duplication / forgetting primitives outside the ring buffer
        bad = ('read', 'read_unaligned', 'read_volatile', 'write', 'copy', 'copy_nonoverlapping', 'forget', 'zeroed',
               'transmute', 'transmute_copy', 'assume_init', 'assume_init_read', 'uninit',
               'drop_in_place', 'write_bytes')
        n3 = 0
        for fn, t, cl in scan_calls(F, lambda ci: ci['name'] in bad and (
                ci['path'].startswith('std::ptr') or ci['path'].startswith('std::mem')
                or ci['path'].startswith('std::intrinsics'))):
            if not fn['path'].lstrip('<').startswith('channel::'):
                continue
            n3 += 1
            R.fail('C08.R3', [fn['path'], t['func']['fn']['path']],
                   '%s uses %s: payloads in the channel layer must only be moved' % (
                       fn['path'], t['func']['fn']['path']), F.loc(fn, t['ln']))
        if n3 == 0:
            R.ok('C08.R3', 'no raw read/write/forget/transmute in channel::* (zero-count rule)')
        # positive control for the zero-count rule: the same scan must match the ring buffer's raw accesses
        ctl = [1 for fn, t, cl in scan_calls(F, lambda ci: ci['name'] in bad and ci['path'].startswith('std::ptr'))
               if fn['path'].lstrip('<').startswith('buffer::')]
        R.floor('C08.R3 control(raw ptr ops in buffer::)[%s]' % cfg, len(ctl), 2)
        # R4: every take of a parked value goes into push or the return value
        ntake = 0
        for m in entry_methods(F, CG, STATE):
            paths = E.run(m['path'])
            for path in paths:
                if path.exit != 'return':
                    continue
                for e in path.events:
                    if e['k'] != 'take' or not loc_endswith(e['loc'], 'value'):
                        continue
                    ntake += 1
                    x = e['old']
                    inner = E.project(x, (('dc', 'Some'), '0'))
                    pushed = any(c['k'] == 'call' and c['name'] == 'push' and 'RingBuf' in c['callee']
                                 and c['args'][1] in (x, inner) for c in path.events)
                    returned = contains(path.ret, x) or contains(path.ret, inner)
                    if pushed or returned:
                        R.ok('C08.R4', '%s|%s|%s' % (m['path'], 'pushed' if pushed else 'returned', path_cond(E, path)),
                             {'function': m['path'], 'taken_from': fmt_loc(e['loc']),
                              'sink': 'buffer.push' if pushed else 'return value'})
                    else:
                        R.fail('C08.R4', [m['path'], 'taken-value-lost', fmt_loc(e['loc']).split('@')[0]],
                               '%s takes a parked value out of %s and neither stores it in the buffer nor returns '
                               'it [%s]' % (m['path'], fmt_loc(e['loc']), path_cond(E, path)), where(F, e),
                               {'trace': trace_summary(path)})
        R.floor('C08.R4 value-takes[%s]' % cfg, ntake, 4)
        # R5: cancel(): unlink before taking the value back
        ncancel = 0
        for fn in F.raw['fns']:
            if fn.get('name') != 'cancel' or 'ChannelSendFuture' not in (fn.get('impl_adt') or ''):
                continue
            ncancel += 1
            for path in E.run(fn['path']):
                if path.exit != 'return':
                    continue
                takes = [i for i, e in enumerate(path.events) if e['k'] == 'take' and loc_endswith(e['loc'], 'value')
                         and e['fn'] == fn['path']]
                unl = [i for i, e in enumerate(path.events)
                       if (e['k'] == 'call' and e['name'] == 'remove_send_waiter')]
                if takes and not (unl and unl[0] < takes[0]):
                    R.fail('C08.R5', [fn['path'], 'take-before-unlink'],
                           'cancel() takes the value back before the node is unlinked: a receiver could still take '
                           'it', '%s:%s' % (fn['file'], fn['line']))
                elif takes:
                    R.ok('C08.R5', '%s|%s' % (fn['path'], path_cond(E, path)))
                # cancel() on a live future hands back whatever the node still holds: it never answers None
                # ("already transferred") while the value may still sit in the node
                hfield = None
                for a in F.raw['adts']:
                    if a['path'] == fn.get('impl_adt'):
                        for f in a['variants'][0]['fields']:
                            if f['ty'].get('path') == 'std::option::Option' and f['name'] != 'wait_node':
                                hfield = f['name']
                live = hfield and E.variant_known(path.facts, ('init', (('P', 'self'), hfield))) == ('eq', 'Some')
                if live:
                    slot = E.read(type('SV', (), {'store': path.store})(), (('P', 'self'), 'wait_node', 'data', 'value'))
                    own_takes = [e for e in path.events if e['k'] == 'take' and e['loc'] == (('P', 'self'), 'wait_node', 'data', 'value')]
                    old_v = own_takes[-1]['old'] if own_takes else None
                    same = old_v is not None and (
                        path.ret == old_v or
                        (path.ret[0] == 'agg' and path.ret[2] == 'Some' and path.ret[3][0][1] == E.project(old_v, (('dc', 'Some'), '0'))) or
                        (path.ret == NONE and E.variant_known(path.facts, old_v) == ('eq', 'None')))
                    if slot == NONE and own_takes and same:
                        R.ok('C08.R5', '%s|live future: value slot emptied into the return value|%s' % (
                            fn['path'], path_cond(E, path)))
                    else:
                        R.fail('C08.R5', [fn['path'], 'cancel-leaves-value-in-node'],
                               'cancel() of a live send future returns %s while the node\'s value slot is %s: a value '
                               'that is still parked is reported as transferred and then dropped with the future '
                               '[%s]' % (fmt_val(path.ret), fmt_val(slot), path_cond(E, path)),
                               '%s:%s' % (fn['file'], fn['line']), {'trace': trace_summary(path)})
        R.floor('C08.R5 cancel-fns[%s]' % cfg, ncancel, 1 if cfg == 'none' else 2)
