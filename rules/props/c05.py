"""C05 — semaphore: permits conserved, never over-granted (ledger invariant)."""
from rl import (entry_methods, loc_endswith, path_cond, trace_summary, where, const_of, fmt_val, fmt_loc)
from common import scan_field_writes, scan_aggregates, poll_variant, contains
from lib import CheckerError

STATE = 'sync::semaphore::SemaphoreState'
SEMS = ('sync::semaphore::GenericSemaphore', 'sync::semaphore::if_alloc::GenericSharedSemaphore')
RELEASERS = ('sync::semaphore::GenericSemaphoreReleaser', 'sync::semaphore::if_alloc::GenericSharedSemaphoreReleaser')
FUTS = ('sync::semaphore::GenericSemaphoreAcquireFuture', 'sync::semaphore::if_alloc::GenericSharedSemaphoreAcquireFuture')


def permit_writes(path):
    return [e for e in path.events if e['k'] == 'write' and loc_endswith(e['loc'], 'permits')
            and fields_last_is_state(e['loc'])]


def fields_last_is_state(loc):
    # `permits` of the state struct (self.permits / <locked>.permits), not Releaser.permits
    from rl import fields_of
    f = fields_of(loc)
    return f[-1] == 'permits' and (len(f) == 1 or f[-2] in ('state',))


def guarded(E, facts, cur, x, path=None):
    """is `cur >= x` among the path facts - directly, or through `lb >= x` for an lb that cannot exceed cur
    (cur.saturating_sub(_), min(cur, _), the non-overflowing cur - _)?"""
    from common import cmp_fact
    if cmp_fact(E, facts, 'Ge', cur, x) == 1:
        return True
    lbs = []
    for e in (path.events if path is not None else ()):
        if e['k'] == 'call' and e.get('ret') is not None and e.get('args'):
            if e.get('name') == 'saturating_sub' and e['args'][0] == cur:
                lbs.append(e['ret'])
            elif e.get('name') == 'min' and cur in e['args'][:2]:
                lbs.append(e['ret'])
    for k in facts:
        if isinstance(k, tuple) and k and k[0] == 'bin':
            for y in k[2:4]:
                if isinstance(y, tuple) and y[:2] == ('bin', 'Sub') and y[2] == cur:
                    lbs.append(y)
    return any(cmp_fact(E, facts, 'Ge', lb, x) == 1 for lb in lbs)


def find_aggs(v, adts, out, depth=0):
    if not isinstance(v, tuple) or depth > 8:
        return
    if v and v[0] == 'agg' and v[1] in adts:
        out.append(v)
    for s in v:
        if isinstance(s, tuple):
            find_aggs(s, adts, out, depth + 1)


def _zero_request(E, F, m, path):
    """does the path know that the amount this call asks for is zero (its integer parameter, or the own node's
    required_permits)?"""
    names = {}
    for d in m['debug']:
        if not d['place']['p']:
            names.setdefault(d['place']['l'], d['name'])
    cands = []
    for i in range(1, m['arg_count'] + 1):
        t = m['locals'][i]['ty']
        nm = names.get(i, 'arg%d' % i)
        if t.get('name') == 'usize' or t.get('str') == 'usize':
            cands.append(('param', nm))
        elif t.get('k') == 'ref' and 'ListNode' in (t.get('str') or ''):
            cands.append(('init', (('P', nm), 'data', 'required_permits')))
    return any(const_of(E, path.facts, c) == 0 for c in cands)


def run(C, R):
    R.explanation = ('Ledger invariant: permits + sum of live releasers\' amounts + disarmed amounts = initial + '
                     'explicit releases.  R1 every subtraction `permits -= X` on a MIR path is preceded by the test '
                     '`permits >= X` on the same values; R2 permits grows in exactly one function, called only by '
                     'the public release methods and the releasers\' destructors; R3 a path reports success iff it '
                     'subtracts exactly once; R4 the releaser built after a grant carries the same X that was '
                     'subtracted (value-origin equality), required_permits is never reassigned; R5 the releaser '
                     'returns its amount iff non-zero, disarm zeroes it and returns the old value, releasers are not '
                     'Clone/Copy.  Overflow of permits += n is the source\'s own TODO and not decided.')
    R.trusted += ['rustc nightly MIR', 'lock_api::Mutex', 'engine summaries']
    R.assumptions += ['totals stay below usize::MAX (overflow of `permits += n` is not decided)']
    cfgs = C.configs()
    for cfg in cfgs:
        if cfg == 'none':
            rel, futs, sems = RELEASERS[:1], FUTS[:1], SEMS[:1]
        else:
            rel, futs, sems = RELEASERS, FUTS, SEMS
        F = C.facts(cfg)
        E = C.engine(cfg)
        CG = C.cg(cfg)
        R.configs.append(cfg)
        from common import constructor_state
        constructor_state(R, C.engine(cfg), C.facts(cfg), STATE, {'permits': ('param', 'permits'), 'is_fair': ('param', 'is_fair'), 'waiters': 'empty-queue'}, 'C05.R0')
        from common import wrapper_discipline
        R.floor('C05.W wrapper-paths[%s]' % cfg, wrapper_discipline(C, R, cfg, ['sync::semaphore::SemaphoreState'], 'C05.W'), 2)
        nsub = 0
        add_fns = set()
        from rl import breach_wrappers
        # the state's methods, plus the functions outside the state layer that act as transitions of their own
        # (private helpers of the state layer are judged inlined into the transitions that call them - on their own
        # they do not carry the guards of their callers)
        subjects = list(entry_methods(F, CG, STATE))
        for m in subjects:
            if m.get('name') == 'new':
                continue
            paths = E.run(m['path'])
            R.add_paths(m['path'], len(paths))
            is_entry = m in entry_methods(F, CG, STATE)
            for path in paths:
                if path.exit != 'return':
                    continue
                ws = [w for w in permit_writes(path)]
                subs = [w for w in ws if w['val'][0] == 'bin' and w['val'][1] == 'Sub']
                adds = [w for w in ws if w['val'][0] == 'bin' and w['val'][1] == 'Add']
                for w in ws:
                    if w not in subs and w not in adds:
                        R.fail('C05.R2', [m['path'], 'opaque-permit-write'],
                               'permits written with %s' % fmt_val(w['val']), where(F, w))
                if len(adds) > 1:
                    R.fail('C05.R2', [m['path'], 'permits-added-more-than-once'],
                           '%s adds to permits %d times on one path: one release(n) must return exactly n permits'
                           % (m['path'], len(adds)), where(F, adds[1]), {'trace': trace_summary(path)})
                for w in adds:
                    add_fns.add(w['fn'])
                    if w['val'][2] != w['old']:
                        R.fail('C05.R2', [m['path'], 'add-not-incremental'], 'permits = %s' % fmt_val(w['val']),
                               where(F, w))
                for w in subs:
                    nsub += 1
                    cur, x = w['val'][2], w['val'][3]
                    if cur != w['old']:
                        R.fail('C05.R1', [m['path'], 'sub-not-decremental'], 'permits = %s' % fmt_val(w['val']),
                               where(F, w))
                    elif guarded(E, path.facts, cur, x, path):
                        R.ok('C05.R1', '%s|%s' % (m['path'], path_cond(E, path)),
                             {'function': m['path'], 'write': 'permits -= %s' % fmt_val(x),
                              'guard': 'permits >= %s on this path' % fmt_val(x)})
                    else:
                        R.fail('C05.R1', [m['path'], 'unguarded-subtraction', fmt_val(x)],
                               '%s subtracts %s from permits without a preceding `permits >= %s` test on the '
                               'path [%s]' % (m['path'], fmt_val(x), fmt_val(x), path_cond(E, path)),
                               where(F, w), {'trace': trace_summary(path)})
                if is_entry:
                    grant = path.ret == ('const', 1) or const_of(E, path.facts, path.ret) == 1 or poll_variant(E, path) == 'Ready'
                    if grant and not subs and _zero_request(E, F, m, path):
                        R.ok('C05.R3', '%s|a request for zero permits is granted without touching the ledger|%s'
                             % (m['path'], path_cond(E, path)))
                    elif grant and len(subs) != 1:
                        R.fail('C05.R3', [m['path'], 'grant-without-single-subtraction', path_cond(E, path)],
                               '%s reports success with %d subtractions [%s]' % (m['path'], len(subs),
                                                                                  path_cond(E, path)),
                               '%s:%s' % (m['file'], m['line']), {'trace': trace_summary(path)})
                    elif (not grant) and subs:
                        R.fail('C05.R3', [m['path'], 'subtraction-without-grant', path_cond(E, path)],
                               '%s subtracts permits on a path that does not report success' % m['path'],
                               where(F, subs[0]), {'trace': trace_summary(path)})
                    else:
                        R.ok('C05.R3', '%s|%s' % (m['path'], path_cond(E, path)))
        R.floor('C05.R1 subtraction-paths[%s]' % cfg, nsub, 3)
        # R2: single growth function and its callers
        if len(add_fns) != 1:
            R.fail('C05.R2', ['growth-sites', str(sorted(add_fns))],
                   'permits grows in %d functions (expected exactly one): %s' % (len(add_fns), sorted(add_fns)))
        else:
            rel_fn = list(add_fns)[0]
            R.ok('C05.R2', 'single-growth-fn|%s' % rel_fn)
            # every returning path of the growth function adds exactly its argument, unless that is zero
            rf = F.fn(rel_fn)
            for path in E.run(rel_fn):
                if path.exit != 'return':
                    continue
                adds = [w for w in permit_writes(path) if w['val'][0] == 'bin' and w['val'][1] == 'Add']
                arg = [a for a in path.events[0]['args'] if a[0] == 'param']
                arg = arg[0] if arg else None
                if len(adds) == 1 and adds[0]['val'][3] == arg:
                    R.ok('C05.R2', '%s|adds-argument|%s' % (rel_fn, path_cond(E, path)))
                elif not adds and arg is not None and const_of(E, path.facts, arg) == 0:
                    R.ok('C05.R2', '%s|zero|%s' % (rel_fn, path_cond(E, path)))
                else:
                    R.fail('C05.R2', [rel_fn, 'release-does-not-add-its-argument', path_cond(E, path)],
                           '%s returns without adding exactly its argument to permits [%s]' % (
                               rel_fn, path_cond(E, path)), '%s:%s' % (rf['file'], rf['line']),
                           {'trace': trace_summary(path)})
            # the functions that reach the growth function: through private helpers (free functions that are not part
            # of the public API, e.g. a generic `release_permits(&Mutex<..>, n)` shared by the two flavours) up to
            # the first public operation or trait method
            callers, seen_c, work_c = [], set(), [rel_fn]
            while work_c:
                q = work_c.pop()
                for c, _ in CG.callers_of(q):
                    if c in seen_c or c == rel_fn:
                        continue
                    seen_c.add(c)
                    cq = F.fn(c) or {}
                    # (a private free function, or a provided method of a private trait; not a trait impl such as Drop)
                    if cq.get('kind') in ('fn', 'assoc') and not cq.get('reachable') and not cq.get('impl_trait') \
                            and not (cq.get('impl_adt') in sems or cq.get('impl_adt') in rel) and CG.callers_of(c):
                        work_c.append(c)
                    else:
                        callers.append(c)
            callers = sorted(set(callers))
            for c in callers:
                cf = F.fn(c)
                tr = (cf.get('impl_trait') or '') if cf else ''
                if cf and cf.get('impl_adt') in sems and cf.get('name') == 'release' and not tr:
                    R.ok('C05.R2', 'release-caller|%s' % c)
                elif cf and cf.get('impl_adt') in rel and tr.endswith('ops::Drop'):
                    R.ok('C05.R2', 'release-caller|%s' % c)
                else:
                    R.fail('C05.R2', [c, 'release-caller'], 'permits are released from %s' % c,
                           '%s:%s' % (cf['file'], cf['line']) if cf else None)
            R.floor('C05.R2 release-callers[%s]' % cfg, len(callers), 2 * len(sems))
        # raw scan: any assignment to a field `permits` of the state outside the state impl
        for fn, s in scan_field_writes(F, 'permits', 'sync::semaphore'):
            if fn.get('impl_adt') == STATE or fn.get('impl_adt') in rel:
                continue
            R.fail('C05.R2', [fn['path'], 'foreign-permit-writer'], 'permits written in %s' % fn['path'],
                   F.loc(fn, s['ln']))
        # R4: value origin
        rp = scan_field_writes(F, 'required_permits', 'sync::semaphore')
        if rp:
            for fn, s in rp:
                R.fail('C05.R4', [fn['path'], 'required-permits-reassigned'],
                       'required_permits is reassigned in %s' % fn['path'], F.loc(fn, s['ln']))
        else:
            R.ok('C05.R4', 'required_permits-never-reassigned')
        auto_true = True
        for fut in futs:
            sites = scan_aggregates(F, fut)
            R.floor('C05.R4 future-construction-sites[%s] %s' % (cfg, fut.split('::')[-1]), len(sites), 1)
            for fn, s, cl in sites:
                rv = s['rv']
                i = rv['fields'].index('auto_release')
                if rv['ops'][i].get('int') == 1:
                    R.ok('C05.R4', 'auto_release-true|%s' % fn['path'])
                else:
                    auto_true = False
                    R.fail('C05.R4', [fn['path'], 'auto-release-off'],
                           'an acquire future is built with auto_release != true in %s' % fn['path'],
                           F.loc(fn, s['ln']))
        for fn, s in scan_field_writes(F, 'auto_release', 'sync::semaphore'):
            auto_true = False
            R.fail('C05.R4', [fn['path'], 'auto-release-reassigned'], 'auto_release is reassigned',
                   F.loc(fn, s['ln']))
        nrel = 0
        wrappers = []
        for sem in sems:
            wrappers.append(F.one_fn(impl_adt=sem, name='try_acquire'))
        for fut in futs:
            wrappers.append(F.one_fn(impl_adt=fut, name='poll'))
        for fn in wrappers:
            paths = E.run(fn['path'])
            R.add_paths(fn['path'], len(paths))
            for path in paths:
                if path.exit != 'return':
                    continue
                if auto_true and const_of(E, path.facts, ('init', (('P', 'self'), 'auto_release'))) == 0:
                    # the flag is constructed `true` at every site and never reassigned (checked above)
                    R.skip_infeasible()
                    continue
                aggs = []
                find_aggs(path.ret, rel, aggs)
                subs = [w for w in path.events if w['k'] == 'write' and w['val'][0] == 'bin' and w['val'][1] == 'Sub'
                        and loc_endswith(w['loc'], 'permits')]
                if not aggs:
                    if subs:
                        R.fail('C05.R4', [fn['path'], 'grant-without-releaser', path_cond(E, path)],
                               '%s subtracts permits but returns no releaser' % fn['path'], where(F, subs[0]))
                    continue
                nrel += 1
                amount = dict(aggs[0][3]).get('permits')
                if not subs and amount is not None and const_of(E, path.facts, amount) == 0:
                    R.ok('C05.R4', '%s|a releaser for zero permits, nothing subtracted|%s' % (fn['path'], path_cond(E, path)))
                    continue
                if len(subs) != 1:
                    R.fail('C05.R4', [fn['path'], 'releaser-without-grant', path_cond(E, path)],
                           '%s returns a releaser on a path with %d subtractions' % (fn['path'], len(subs)),
                           '%s:%s' % (fn['file'], fn['line']), {'trace': trace_summary(path)})
                    continue
                x = subs[0]['val'][3]
                if amount == x:
                    R.ok('C05.R4', '%s|%s' % (fn['path'], path_cond(E, path)),
                         {'function': fn['path'], 'subtracted': fmt_val(x), 'releaser.permits': fmt_val(amount)})
                else:
                    R.fail('C05.R4', [fn['path'], 'releaser-amount-differs', fmt_val(amount)],
                           '%s: the releaser carries %s but %s was subtracted [%s]' % (
                               fn['path'], fmt_val(amount), fmt_val(x), path_cond(E, path)),
                           '%s:%s' % (fn['file'], fn['line']), {'trace': trace_summary(path)})
        R.floor('C05.R4 releaser-return-paths[%s]' % cfg, nrel, 2 * len(sems))
        # R5: releasers
        for r in rel:
            a = F.adt(r)
            if a['self_auto']['Clone'] or a['self_auto']['Copy'] or F.impls_of(trait_suffix='clone::Clone', self_adt=r):
                R.fail('C05.R5', [r, 'clone'], 'the releaser is Clone/Copy', '%s:%s' % (a['file'], a['line']))
            else:
                R.ok('C05.R5', 'not-clone|%s' % r)
            for f in a['variants'][0]['fields']:
                if f['vis'] != 'private':
                    R.fail('C05.R5', [r, 'field-visible', f['name']], 'releaser field %s is %s' % (f['name'], f['vis']))
            d = F.one_fn(impl_adt=r, name='drop')
            paths = E.run(d['path'])
            R.add_paths(d['path'], len(paths))
            amount = ('init', (('P', 'self'), 'permits'))
            for path in paths:
                if path.exit != 'return':
                    continue
                rels = [e for e in path.events if e['k'] == 'call' and e['callee'].endswith('SemaphoreState::release')]
                zero = const_of(E, path.facts, amount) == 0
                if zero and not rels:
                    R.ok('C05.R5', '%s|zero' % d['path'])
                elif (not zero) and len(rels) == 1 and rels[0]['args'][1] == amount:
                    R.ok('C05.R5', '%s|release' % d['path'], {'function': d['path'], 'releases': 'self.permits'})
                else:
                    R.fail('C05.R5', [d['path'], 'drop-release-mismatch', path_cond(E, path)],
                           'releaser drop: %d release calls on the path [%s]' % (len(rels), path_cond(E, path)),
                           '%s:%s' % (d['file'], d['line']), {'trace': trace_summary(path)})
            dis = F.one_fn(impl_adt=r, name='disarm')
            paths = E.run(dis['path'])
            R.add_paths(dis['path'], len(paths))
            for path in paths:
                final = E.read(type('S', (), {'store': path.store})(), (('P', 'self'), 'permits'))
                if final == ('const', 0) and path.ret == amount:
                    R.ok('C05.R5', '%s' % dis['path'])
                else:
                    R.fail('C05.R5', [dis['path'], 'disarm'], 'disarm leaves permits = %s and returns %s' % (
                        fmt_val(final), fmt_val(path.ret)), '%s:%s' % (dis['file'], dis['line']))
