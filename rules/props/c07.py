"""C07 — fair semaphore serves requests in arrival order (structure)."""
from rl import (entry_methods, loc_endswith, path_cond, trace_summary, where, const_of, fmt_val)
from common import fifo_ends, own_node_roots, fair_no_requeue, sem_fair_J, cmp_fact, poll_variant
from typestate import check_typestate
from props.c06 import find_wakeup_fn

STATE = 'sync::semaphore::SemaphoreState'


def gate(E, path, owns, x):
    if const_of(E, path.facts, ('init', (('P', 'self'), 'is_fair'))) == 0:
        return 'unfair mode'
    for k, v in path.facts.items():
        if isinstance(k, tuple) and k and k[0] == 'qempty' and loc_endswith(k[1], 'waiters') and v == ('eq', 1):
            return 'wait queue observed empty'
    if const_of(E, path.facts, x) == 0:
        return 'zero-permit request'
    for root in owns:
        if path.facts.get(('discr', ('init', root + ('data', 'state')))) == ('eq', 'Notified'):
            return 'own node is the notified head'
    return None


def run(C, R):
    R.explanation = ('R1 FairGate: every MIR path that subtracts permits carries is_fair == false, or the wait queue '
                     'observed empty, or a request of zero permits, or an own node that entered as Notified (in fair '
                     'mode only the tail is ever notified: C06.R5/R4 below); R2 the zero-permit disjunct exists, so '
                     'such requests complete immediately even behind waiters; R3 FIFO ends: add_front / tail '
                     'access only; R4 the fair wake-up walk notifies at most the tail and leaves it linked '
                     '(typestate: Notified linked iff fair); R5 on a path that can be fair the own node is enqueued only '
                     'when it entered in state New (a queued waiter never re-enters behind later arrivals).  Order preservation of LinkedList::remove is assumed '
                     '(C20).')
    R.trusted += ['rustc nightly MIR', 'queue-op summaries (C20)', 'lock_api::Mutex']
    R.assumptions += ['order preservation of LinkedList::remove is assumed (C20 summary)']
    for cfg in C.configs():
        F = C.facts(cfg)
        E = C.engine(cfg)
        CG = C.cg(cfg)
        roles = C.roles(cfg)
        R.configs.append(cfg)
        nsub = 0
        nq = 0
        nins = 0
        zero = 0
        _nJ, badJ = sem_fair_J(E, F, find_wakeup_fn(F, E), E.run)

        def excluded(path, root, badJ=badJ):
            # J: fair & Notified => permits >= required.  A path on which the own node enters Notified and its request
            # does not fit is infeasible when J is inductive (notification half evaluated here, shrink half = R1)
            req = ('init', root + ('data', 'required_permits'))
            if path.facts.get(('discr', ('init', root + ('data', 'state')))) == ('eq', 'Notified') and \
                    cmp_fact(E, path.facts, 'Lt', ('init', (('P', 'self'), 'permits')), req) == 1 and not badJ:
                return 'fair & Notified => request fits (notification only under the fit test)'
            return None
        for m in entry_methods(F, CG, STATE):
            paths = E.run(m['path'])
            R.add_paths(m['path'], len(paths))
            owns = own_node_roots(F, m)
            for path in paths:
                if path.exit != 'return':
                    continue
                # R2 instance: a granting path for a zero-permit request that is neither in unfair mode nor saw an
                # empty queue (whether it spells out `permits -= 0` or not)
                grant = path.ret == ('const', 1) or const_of(E, path.facts, path.ret) == 1 or poll_variant(E, path) == 'Ready'
                if grant and gate(E, path, {}, ('const', 1)) is None and any(
                        isinstance(k, tuple) and k[:2] == ('bin', 'Eq') and ('const', 0) in k[2:4] and v == ('eq', 1)
                        and 'required_permits' in repr(k) for k, v in path.facts.items()):
                    zero += 1
                for e in path.events:
                    if e['k'] == 'write' and loc_endswith(e['loc'], 'permits') and e['val'][0] == 'bin' \
                            and e['val'][1] == 'Sub':
                        rty = m['locals'][0]['ty']
                        grants = rty.get('str') == 'bool' or rty.get('name') == 'bool' or rty.get('path') == 'std::task::Poll' \
                            or rty.get('k') == 'bool' or any(
                                w['k'] == 'write' and loc_endswith(w['loc'], 'state') and w['val'][0] == 'agg'
                                and w['val'][2] == 'Done' for w in path.events)
                        if not grants:
                            # permits leave the ledger without any request being completed (C05.R3 reports that);
                            # service ORDER is about grants
                            continue
                        nsub += 1
                        x = e['val'][3]
                        why = gate(E, path, owns, x)
                        if why == 'zero-permit request':
                            zero += 1
                        if why:
                            R.ok('C07.R1', '%s|%s' % (m['path'], path_cond(E, path)),
                                 {'function': m['path'], 'acquisition_allowed_because': why,
                                  'path_condition': path_cond(E, path)})
                        else:
                            R.fail('C07.R1', [m['path'], 'overtaking', path_cond(E, path)],
                                   '%s takes permits on a path that can be a fair semaphore with other waiters '
                                   'queued, a non-zero request and an own node that is not the notified head [%s]'
                                   % (m['path'], path_cond(E, path)), where(F, e), {'trace': trace_summary(path)})
            nins += fair_no_requeue(R, E, F, m, paths, owns, 'C07.R5', 'semaphore', excluded)
            nq += fifo_ends(R, E, F, m, paths, 'C07.R3')
            check_typestate(R, E, F, roles, STATE, m, paths, 'C07.R4', only_fair=True)
        R.floor('C07.R1 subtraction-paths[%s]' % cfg, nsub, 5)
        R.floor('C07.R5 enqueue-paths[%s]' % cfg, nins, 1)
        if zero >= 1:
            R.ok('C07.R2', 'zero-permit-path-exists')
        else:
            R.fail('C07.R2', [STATE, 'no-zero-permit-fast-path'],
                   'no acquisition path exists for a zero-permit request on a fair semaphore with waiters')
        wk = find_wakeup_fn(F, E)
        paths = E.run(wk['path'])
        R.add_paths(wk['path'], len(paths))
        for path in paths:
            fair = const_of(E, path.facts, ('init', (('P', 'self'), 'is_fair')))
            if fair != 1:
                continue
            toks = [e for e in path.events if e['k'] == 'qop' and e.get('node') is not None]
            bad = [e for e in toks if e['op'] not in ('peek_last_mut', 'peek_last')]
            if len(set(e['node'] for e in toks)) > 1 or bad:
                R.fail('C07.R4', [wk['path'], 'fair-walk'],
                       'the fair wake-up walk touches more than the oldest waiter or unlinks it',
                       where(F, (bad or toks)[0]))
            else:
                R.ok('C07.R4', '%s|%s' % (wk['path'], path_cond(E, path)))
