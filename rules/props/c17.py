"""C17 — future / stream protocol: complete once, is_terminated exact, streams end once."""
from rl import (loc_endswith, path_cond, trace_summary, where, const_of, fmt_val, fmt_loc, fields_of)
from common import contains
from engine import NONE, OPTION, POLL, PANIC
from lib import CheckerError

TIMER_FUTURE = 'timer::timer::TimerFuture'
CHANNEL_STREAM = 'channel::mpmc::ChannelStream'
SHARED_STREAM = 'channel::mpmc::if_alloc::shared::SharedStream'


class SV:
    def __init__(self, store):
        self.store = store


def variant_of(E, path, v):
    if v[0] == 'agg':
        return v[2]
    k = E.variant_known(path.facts, v)
    if k and k[0] == 'eq':
        return k[1]
    return None


def ret_shape(E, path):
    """('Pending',) / ('Ready', inner-variant-or-None)"""
    v = path.ret
    top = variant_of(E, path, v)
    if top != 'Ready':
        return (top,)
    inner = E.project(v, (('dc', 'Ready'), '0'))
    return ('Ready', variant_of(E, path, inner) if inner[0] in ('agg', 'field', 'ret', 'init') else None)


def handle_path(roles, adt):
    if adt == TIMER_FUTURE:
        return ('timer_future', 'timer')
    info = roles.futures.get(adt)
    if info and info['handle_field']:
        return (info['handle_field'],)
    return None


def first_primitive_call(path):
    for i, e in enumerate(path.events):
        if e['k'] == 'lock':
            return i
        if e['k'] == 'call' and e.get('mode') == 'opaque' and (e.get('ci') or {}).get('krate') == 'futures_intrusive' \
                and (e.get('ci') or {}).get('trait'):
            return i
        if e['k'] == 'qop':
            return i
    return None


def says_is_none(E, path, v):
    """does the returned value of the path denote `v is None`, in any spelling: v.is_none(), !v.is_some(), or a
    match that returns the constant fitting the variant known on the path"""
    r = path.ret
    if r == ('isv', v, 'None', OPTION) or r == ('un', 'Not', ('isv', v, 'Some', OPTION)):
        return True
    if r[0] == 'const':
        k = E.variant_known(path.facts, v)
        if k and k[0] == 'eq':
            return (k[1] == 'None') == bool(r[1])
    return False


def _find_aggs(v, adt, out, depth=0):
    if not isinstance(v, tuple) or depth > 8:
        return
    if v and v[0] == 'agg' and v[1] == adt:
        out.append(v)
        return
    for x in v:
        if isinstance(x, tuple):
            _find_aggs(x, adt, out, depth + 1)


def run(C, R):
    R.explanation = ('R1 return correlation: on every MIR path of every poll body, Ready => the handle field is None '
                     'at return, Pending => it is Some (never taken, or restored after take()); R2 every '
                     'is_terminated returns is_none() of that same field (or the stream\'s flag); R3 every poll '
                     'checks the handle (expect / take().expect) before any call into the primitive and the None '
                     'case panics — so polling after completion panics and never yields a second result; '
                     'R4 cancel() leaves the handle None on all paths; R5 streams: Ready(None) => terminated marker '
                     'set and inner future cleared, any other return => marker unchanged / channel restored; the '
                     'inner future is created by the same receive() a caller would use and dropped on every Ready.')
    R.trusted += ['rustc nightly MIR', 'engine summaries for Option/Pin', 'dyn calls into the primitive are opaque here']
    for cfg in C.configs():
        F = C.facts(cfg)
        E = C.engine(cfg)
        roles = C.roles(cfg)
        R.configs.append(cfg)
        polls = [fn for fn in F.raw['fns'] if fn.get('name') == 'poll' and (fn.get('impl_trait') or '').endswith('::Future')]
        R.floor('C17.R1 poll-bodies[%s]' % cfg, len(polls), 7 if cfg == 'none' else 12)
        for fn in polls:
            adt = fn['impl_adt']
            hp = handle_path(roles, adt)
            if hp is None:
                raise CheckerError('anchor=handle field of future %s' % adt)
            hloc = (('P', 'self'),) + hp
            paths = E.run(fn['path'])
            R.add_paths(fn['path'], len(paths))
            saw_panic_none = False
            for path in paths:
                pc = path_cond(E, path)
                h0 = E.variant_known(path.facts, ('init', hloc))
                if path.exit == 'panic':
                    pe = [e for e in path.events if e['k'] == 'panic']
                    # (expect / unwrap on the handle, or `let Some(x) = handle else { panic!(..) }`)
                    if h0 == ('eq', 'None') and pe:
                        fp = first_primitive_call(path)
                        if fp is None:
                            saw_panic_none = True
                    continue
                final = E.read(SV(path.store), hloc)
                hv = variant_of(E, path, final)
                shape = ret_shape(E, path)
                if shape[0] == 'Ready' and hv == 'None':
                    R.ok('C17.R1', '%s|Ready => handle None|%s' % (fn['path'], pc),
                         {'poll': fn['path'], 'returns': 'Ready', 'handle_at_return': 'None'})
                elif shape[0] == 'Pending' and hv == 'Some':
                    R.ok('C17.R1', '%s|Pending => handle Some|%s' % (fn['path'], pc))
                else:
                    R.fail('C17.R1', [fn['path'], 'return-handle-mismatch', '%s/%s' % (shape[0], hv)],
                           '%s returns %s with the handle field %s = %s [%s]' % (
                               fn['path'], shape[0], '.'.join(hp), hv, pc), '%s:%s' % (fn['file'], fn['line']),
                           {'trace': trace_summary(path)})
                # R3 ordering on returning paths
                needle = repr(('init', hloc))
                chk = [i for i, e in enumerate(path.events)
                       if (e['k'] == 'unwrap' and contains(e['val'], ('init', hloc)))
                       or (e['k'] == 'assume' and needle in repr(e.get('expr')))]
                fp = first_primitive_call(path)
                if h0 == ('eq', 'Some') and chk and (fp is None or chk[0] < fp):
                    R.ok('C17.R3', '%s|handle checked first|%s' % (fn['path'], pc))
                else:
                    R.fail('C17.R3', [fn['path'], 'primitive-before-handle-check'],
                           '%s calls into the primitive before checking its handle (terminated futures must panic, '
                           'not poll again)' % fn['path'], '%s:%s' % (fn['file'], fn['line']),
                           {'trace': trace_summary(path)})
            if saw_panic_none:
                R.ok('C17.R3', '%s|poll after completion panics' % fn['path'])
            else:
                R.fail('C17.R3', [fn['path'], 'no-panic-on-terminated'],
                       '%s has no path on which a terminated future (handle None) panics before touching the '
                       'primitive' % fn['path'], '%s:%s' % (fn['file'], fn['line']))
        # R2
        terms = [fn for fn in F.raw['fns'] if fn.get('name') == 'is_terminated']
        R.floor('C17.R2 is_terminated-bodies[%s]' % cfg, len(terms), 7 if cfg == 'none' else 14)
        for fn in terms:
            adt = fn['impl_adt']
            paths = E.run(fn['path'])
            R.add_paths(fn['path'], len(paths))
            for path in paths:
                if adt == SHARED_STREAM:
                    ok = path.ret == ('init', (('P', 'self'), 'is_terminated'))
                elif adt == CHANNEL_STREAM:
                    ok = says_is_none(E, path, ('init', (('P', 'self'), 'channel')))
                else:
                    hp = handle_path(roles, adt)
                    ok = hp is not None and says_is_none(E, path, ('init', (('P', 'self'),) + hp))
                if ok and path.exit == 'return':
                    R.ok('C17.R2', fn['path'], {'is_terminated': fn['path'], 'returns': fmt_val(path.ret)})
                else:
                    R.fail('C17.R2', [fn['path'], 'not-handle-is-none'],
                           '%s returns %s, not is_none() of the handle the poll body clears' % (
                               fn['path'], fmt_val(path.ret)), '%s:%s' % (fn['file'], fn['line']))
        # R4
        cancels = [fn for fn in F.raw['fns'] if fn.get('name') == 'cancel' and 'SendFuture' in (fn.get('impl_adt') or '')]
        R.floor('C17.R4 cancel-bodies[%s]' % cfg, len(cancels), 1 if cfg == 'none' else 2)
        for fn in cancels:
            hp = handle_path(roles, fn['impl_adt'])
            for path in E.run(fn['path']):
                if path.exit != 'return':
                    continue
                final = E.read(SV(path.store), (('P', 'self'),) + hp)
                if variant_of(E, path, final) == 'None':
                    R.ok('C17.R4', '%s|%s' % (fn['path'], path_cond(E, path)))
                else:
                    R.fail('C17.R4', [fn['path'], 'cancel-leaves-handle'], 'cancel() returns with the handle still set',
                           '%s:%s' % (fn['file'], fn['line']), {'trace': trace_summary(path)})
        # R6 a stream starts live: every construction site leaves the inner-future slot empty and the terminated
        # marker clear (flag false / channel handle Some)
        from common import scan_aggregates
        n6 = 0
        for sadt in (CHANNEL_STREAM, SHARED_STREAM):
            if sadt not in F.adts:
                continue
            ctors = sorted(set(f2['path'] for f2, s2, cl in scan_aggregates(F, sadt) if not cl))
            if not ctors:
                raise CheckerError('anchor=C17.R6 no construction site of %s' % sadt)
            for cp in ctors:
                for path in E.run(cp):
                    if path.exit != 'return':
                        continue
                    aggs = []
                    _find_aggs(path.ret, sadt, aggs)
                    if not aggs:
                        raise CheckerError('anchor=C17.R6 %s constructs %s but does not return it' % (cp, sadt))
                    for a in aggs:
                        n6 += 1
                        d = dict(a[3])
                        ok = d.get('future') == NONE
                        if sadt == SHARED_STREAM:
                            ok = ok and d.get('is_terminated') == ('const', 0)
                        else:
                            ch = d.get('channel')
                            ok = ok and ch is not None and ch[0] == 'agg' and ch[2] == 'Some'
                        if ok:
                            R.ok('C17.R6', '%s|%s starts live' % (cp, sadt.split('::')[-1]))
                        else:
                            R.fail('C17.R6', [cp, 'stream-starts-terminated-or-armed'],
                                   '%s constructs %s with a non-empty inner-future slot or already terminated: %s'
                                   % (cp, sadt.split('::')[-1], ', '.join('%s=%s' % (k, fmt_val(v)) for k, v in a[3])),
                                   '%s:%s' % (F.fn(cp)['file'], F.fn(cp)['line']))
        R.floor('C17.R6 stream-construction-sites[%s]' % cfg, n6, 1 if cfg == 'none' else 2)
        # R6 (futures): a future is handed out live - its handle is Some at every construction site
        roles = C.roles(cfg)
        n6f = 0
        for fut, info in sorted(roles.futures.items()):
            ctors = sorted(set(f2['path'] for f2, s2, cl in scan_aggregates(F, fut) if not cl))
            for cp in ctors:
                for path in E.run(cp):
                    if path.exit != 'return':
                        continue
                    aggs = []
                    _find_aggs(path.ret, fut, aggs)
                    for a in aggs:
                        n6f += 1
                        h = dict(a[3]).get(info['handle_field'])
                        if h is not None and h[0] == 'agg' and h[2] == 'Some':
                            R.ok('C17.R6', '%s|%s handed out with a live handle' % (cp, fut.split('::')[-1]))
                        else:
                            R.fail('C17.R6', [cp, 'future-constructed-without-handle', fut.split('::')[-1]],
                                   '%s constructs %s with %s = %s: its first poll panics as "polled after completion"'
                                   % (cp, fut, info['handle_field'], fmt_val(h) if h else None),
                                   '%s:%s' % (F.fn(cp)['file'], F.fn(cp)['line']))
        R.floor('C17.R6 future-construction-sites[%s]' % cfg, n6f, 6 if cfg == 'none' else 11)
        # R5 streams
        streams = [fn for fn in F.raw['fns'] if fn.get('name') == 'poll_next']
        R.floor('C17.R5 poll_next-bodies[%s]' % cfg, len(streams), 1 if cfg == 'none' else 2)
        for fn in streams:
            adt = fn['impl_adt']
            paths = E.run(fn['path'])
            R.add_paths(fn['path'], len(paths))
            for path in paths:
                if path.exit != 'return':
                    continue
                pc = path_cond(E, path)
                shape = ret_shape(E, path)
                fut = E.read(SV(path.store), (('P', 'self'), 'future'))
                futv = variant_of(E, path, fut)
                fut0 = E.variant_known(path.facts, ('init', (('P', 'self'), 'future')))
                if futv is None and fut[0] == 'struct':
                    futv = 'Some'
                if adt == SHARED_STREAM:
                    flag = E.read(SV(path.store), (('P', 'self'), 'is_terminated'))
                    flag0 = const_of(E, path.facts, ('init', (('P', 'self'), 'is_terminated')))
                    term_now = flag == ('const', 1) or (flag[0] == 'init' and flag0 == 1)
                else:
                    ch = E.read(SV(path.store), (('P', 'self'), 'channel'))
                    term_now = variant_of(E, path, ch) == 'None'
                if shape == ('Ready', 'None'):
                    ok = term_now and futv in ('None',) or (term_now and fut[0] == 'init' and fut0 != ('eq', 'Some'))
                    # already-terminated fast path: nothing stored at all
                    # the end must be the channel's own verdict "closed and drained": an inner receive future that
                    # completed with None, or a try_receive that said Closed - not an inference from something else
                    # (a handle counter, an Empty result), unless the stream had ended before this call
                    already = (flag0 == 1) if adt == SHARED_STREAM else \
                        E.variant_known(path.facts, ('init', (('P', 'self'), 'channel'))) == ('eq', 'None')
                    witness = already
                    for e in path.events:
                        if e['k'] == 'ret' and e['name'] == 'poll' and 'ReceiveFuture' in e['callee']:
                            rv_ = e['ret']
                            if variant_of(E, path, rv_) == 'Ready':
                                inner_ = E.project(rv_, (('dc', 'Ready'), '0'))
                                if variant_of(E, path, inner_) == 'None':
                                    witness = True
                        elif e['k'] in ('ret', 'call') and e['name'] == 'try_receive' and e.get('ret') is not None:
                            rv_ = e['ret']
                            if variant_of(E, path, rv_) == 'Err':
                                inner_ = E.project(rv_, (('dc', 'Err'), '0'))
                                if variant_of(E, path, inner_) == 'Closed':
                                    witness = True
                    if ok and not witness:
                        R.fail('C17.R5', [fn['path'], 'end-of-stream-without-closed-verdict'],
                               '%s ends the stream (Ready(None), terminated) on a path on which neither an inner receive '
                               'future completed with None nor try_receive reported Closed: the channel may be open [%s]'
                               % (fn['path'], pc), '%s:%s' % (fn['file'], fn['line']), {'trace': trace_summary(path)})
                    elif ok:
                        R.ok('C17.R5', '%s|Ready(None) => terminated, future cleared|%s' % (fn['path'], pc))
                    else:
                        R.fail('C17.R5', [fn['path'], 'end-of-stream-not-latched', 'term=%s fut=%s' % (term_now, futv)],
                               '%s yields Ready(None) but the terminated marker is %s and the inner future is %s' % (
                                   fn['path'], term_now, futv), '%s:%s' % (fn['file'], fn['line']),
                               {'trace': trace_summary(path)})
                elif shape[0] == 'Ready' and shape[1] is None:
                    R.fail('C17.R5', [fn['path'], 'end-of-stream-not-distinguished'],
                           '%s returns the inner Ready(..) without distinguishing Ready(None) (end of stream) from an '
                           'item: the terminated marker cannot be exact' % fn['path'],
                           '%s:%s' % (fn['file'], fn['line']), {'trace': trace_summary(path)})
                else:
                    if term_now:
                        R.fail('C17.R5', [fn['path'], 'terminated-without-end', str(shape)],
                               '%s returns %s but leaves the stream terminated' % (fn['path'], shape),
                               '%s:%s' % (fn['file'], fn['line']), {'trace': trace_summary(path)})
                    elif shape[0] == 'Ready' and futv != 'None':
                        R.fail('C17.R5', [fn['path'], 'item-without-dropping-future'],
                               '%s yields an item but keeps the completed inner future' % fn['path'],
                               '%s:%s' % (fn['file'], fn['line']), {'trace': trace_summary(path)})
                    elif shape[0] == 'Pending' and futv != 'Some':
                        R.fail('C17.R5', [fn['path'], 'pending-without-future'],
                               '%s returns Pending without keeping the registered inner future' % fn['path'],
                               '%s:%s' % (fn['file'], fn['line']), {'trace': trace_summary(path)})
                    else:
                        R.ok('C17.R5', '%s|%s|%s' % (fn['path'], shape[0], pc))
                # the inner future comes from receive()
                created = [e for e in path.events if e['k'] in ('replace', 'write') and loc_endswith(e['loc'], 'future')
                           and e.get('val') is not None and contains(e['val'], 'channel::channel_future')]
                polled = any(e['k'] == 'call' and e['name'] == 'poll' for e in path.events)
                if polled and fut0 == ('eq', 'None'):
                    rec = any(e['k'] == 'call' and e['name'] == 'receive' for e in path.events)
                    if rec:
                        R.ok('C17.R5', '%s|inner future = receive()|%s' % (fn['path'], pc))
                    else:
                        R.fail('C17.R5', [fn['path'], 'inner-future-not-from-receive'],
                               '%s polls an inner future that was not created by receive()' % fn['path'],
                               '%s:%s' % (fn['file'], fn['line']))
