"""C03 — async mutex: no lost wake-up (hand-over on unlock / on drop of a notified waiter;
waker use; latest waker stored)."""
from rl import (entry_methods, fields_of, loc_endswith, path_cond, trace_summary, where, const_of, fmt_val, fmt_loc)
from common import (effective, w3_waker_use, w4_pending_stores_waker, w4_helper, contains, own_node_roots, poll_variant)
from engine import NONE
from lib import CheckerError

STATE = 'sync::mutex::MutexState'
GUARD = 'sync::mutex::GenericMutexGuard'
MUTEX = 'sync::mutex::GenericMutex'
FUT = 'sync::mutex::GenericMutexLockFuture'


def handover(E, F, path, after_idx):
    """after event index `after_idx`: the tail waiter is inspected; if there is one it is marked
    Notified, its stored waker is taken and that waker is the function's result.
    returns (ok, reason)"""
    tail = None
    for i, e in enumerate(path.events):
        if i <= after_idx:
            continue
        if e['k'] == 'qop' and e['op'] in ('peek_last_mut', 'remove_last', 'peek_last') \
                and loc_endswith(e['queue'], 'waiters'):
            tail = (i, e)
            break
    if tail is None:
        return False, 'no inspection of the oldest waiter after the hand-over point'
    i, e = tail
    if e['node'] is None:
        if path.ret == NONE or not contains(path.ret, ('tok',)):
            return True, 'queue empty'
        return False, 'queue empty but a waker is returned'
    tok = e['node']
    notified = [w for w in path.events[i:] if w['k'] == 'write' and w['loc'] == tok + ('data', 'state')
                and w['val'][0] == 'agg' and w['val'][2] == 'Notified']
    if not notified:
        return False, 'the oldest waiter is not marked Notified'
    takes = [t for t in path.events[i:] if t['k'] == 'take' and t['loc'] == tok + ('data', 'task')]
    if not takes:
        return False, 'the stored waker of the oldest waiter is not taken'
    if not contains(path.ret, takes[0]['old']):
        return False, 'the taken waker is not returned to the caller'
    return True, 'tail notified, waker handed out'


def run(C, R):
    R.explanation = ('Invariant J: mutex free and some future Waiting => some live future is Notified (fair: the '
                     'oldest) and its latest waker was invoked.  Only two transitions can falsify J: clearing '
                     'is_locked, and a Notified future leaving that state without taking the lock while the mutex '
                     'is free.  R1/R2/R3: on every MIR path with such a transition the oldest waiter (queue tail) '
                     'is marked Notified and its stored waker is taken and returned; R4 (W3): every waker so '
                     'returned reaches Waker::wake in each public wrapper; R5 (W4): every Pending return stored '
                     'the waker of this poll (update_waker_ref checked separately).  Eventual completion needs '
                     'executor fairness and is not decided.')
    R.trusted += ['rustc nightly MIR', 'lock_api::Mutex serialises state functions', 'queue-op summaries (C20)']
    R.assumptions += ['eventual completion ("hence ...") is not decided: it needs the executor to re-poll woken tasks']
    for cfg in C.configs():
        F = C.facts(cfg)
        E = C.engine(cfg)
        CG = C.cg(cfg)
        R.configs.append(cfg)
        from common import futures_start_initial as _fsi
        R.floor('C03.R0 future-construction-paths[%s]' % cfg, _fsi(C, R, cfg, ['sync::mutex::MutexState'], 'C03.R0'), 1)
        from common import wrapper_discipline
        R.floor('C03.W wrapper-paths[%s]' % cfg, wrapper_discipline(C, R, cfg, ['sync::mutex::MutexState'], 'C03.W'), 2)
        n_r1 = n_r2 = 0
        from rl import lift_private_callers as _lift03
        for m in entry_methods(F, CG, STATE):
            paths = E.run(m['path'])
            R.add_paths(m['path'], len(paths))
            owns = own_node_roots(F, m)
            is_cancel = any(((F.fn(c_) or {}).get('impl_trait') or '').endswith('ops::Drop')
                            for c_ in _lift03(F, CG, m['path'])) and bool(owns)
            for path in paths:
                if path.exit != 'return':
                    continue
                # R1: clearing is_locked
                clears = [(i, e) for i, e in enumerate(path.events)
                          if e['k'] == 'write' and loc_endswith(e['loc'], 'is_locked') and e['val'] == ('const', 0)
                          and effective(E, path, e)]     # (false stored over false releases nothing)
                for i, e in clears:
                    n_r1 += 1
                    ok, why = handover(E, F, path, i)
                    if ok:
                        R.ok('C03.R1', '%s|%s' % (m['path'], path_cond(E, path)),
                             {'function': m['path'], 'transition': 'is_locked := false', 'hand_over': why,
                              'path_condition': path_cond(E, path)})
                    else:
                        R.fail('C03.R1', [m['path'], 'unlock-without-handover', path_cond(E, path)],
                               '%s releases the mutex but %s [%s]' % (m['path'], why, path_cond(E, path)),
                               where(F, e), {'trace': trace_summary(path)})
                # R2: a Notified own node leaves that state without locking
                for root in owns:
                    sloc = root + ('data', 'state')
                    k0 = path.facts.get(('discr', ('init', sloc)))
                    if not (k0 and k0 == ('eq', 'Notified')):
                        continue
                    ws = [(i, e) for i, e in enumerate(path.events) if e['k'] == 'write' and e['loc'] == sloc]
                    # (in the cancel transition - reached from a destructor - the notification is consumed whatever
                    # state the node is left in: the future is gone when it returns)
                    if not ws and not is_cancel:
                        continue
                    last = ws[-1][1]['val'] if ws else ('agg', '', 'Notified (future dropped)', ())
                    if ws and last[0] == 'agg' and last[2] == 'Notified' and not is_cancel:
                        continue
                    locks = [e for e in path.events if e['k'] == 'write' and loc_endswith(e['loc'], 'is_locked')
                             and e['val'] == ('const', 1)]
                    if locks:
                        continue
                    n_r2 += 1
                    busy = const_of(E, path.facts, ('init', (('P', 'self'), 'is_locked')))
                    if busy == 1:
                        R.ok('C03.R2', '%s|requeue|%s' % (m['path'], path_cond(E, path)),
                             {'function': m['path'], 'transition': 'Notified -> %s' % last[2],
                              'reason': 'mutex observed locked: the next unlock hands over'})
                        continue
                    ok, why = handover(E, F, path, (ws[0][0] - 1) if ws else -1)
                    if ok:
                        R.ok('C03.R2', '%s|forward|%s' % (m['path'], path_cond(E, path)),
                             {'function': m['path'], 'transition': 'Notified -> %s' % last[2], 'hand_over': why})
                    else:
                        R.fail('C03.R2', [m['path'], 'notified-consumed-without-handover', path_cond(E, path)],
                               '%s: a notified waiter leaves the Notified state without locking and %s [%s]' % (
                                   m['path'], why, path_cond(E, path)), where(F, ws[0][1]) if ws else '%s:%s' % (m['file'], m['line']),
                               {'trace': trace_summary(path)})
            # R6: a notified waiter that finds the mutex free takes it (otherwise the wake-up it holds is wasted
            # and, in fair mode, everybody behind it is stuck)
            for path in paths:
                if path.exit == 'return' and poll_variant(E, path) is None:
                    continue
                for root in owns:
                    sloc = root + ('data', 'state')
                    if path.facts.get(('discr', ('init', sloc))) != ('eq', 'Notified'):
                        continue
                    free = const_of(E, path.facts, ('init', (('P', 'self'), 'is_locked'))) == 0
                    if not free:
                        continue
                    if path.exit == 'return' and poll_variant(E, path) == 'Ready':
                        R.ok('C03.R6', '%s|notified + free => locks|%s' % (m['path'], path_cond(E, path)))
                    else:
                        infeasible_unlink = path.exit == 'panic' and any(
                            e['k'] == 'qop' and e['op'] == 'remove' for e in path.events)
                        if infeasible_unlink:
                            continue   # the failed-unlink panic: shown infeasible by C01.I1
                        R.fail('C03.R6', [m['path'], 'notified-waiter-does-not-take-free-mutex', path.exit],
                               '%s: a notified waiter polls while the mutex is free and does not obtain it (%s) [%s]'
                               % (m['path'], 'panics' if path.exit == 'panic' else 'stays pending',
                                  path_cond(E, path)), '%s:%s' % (m['file'], m['line']),
                               {'trace': trace_summary(path)})
            # R7: a future starts waiting (links its node and returns Pending) only when nobody owes it a wake-up:
            # the mutex was observed locked, or - fair mode - somebody is queued ahead of it (the notified head)
            for path in paths:
                if path.exit != 'return' or poll_variant(E, path) != 'Pending':
                    continue
                parks = [e for e in path.events if e['k'] == 'qop' and e['op'] == 'add_front' and e['node'][0][0] == 'P']
                if not parks:
                    continue
                locked = const_of(E, path.facts, ('init', (('P', 'self'), 'is_locked')))
                fair = const_of(E, path.facts, ('init', (('P', 'self'), 'is_fair')))
                nonempty = any(isinstance(k, tuple) and k and k[0] == 'qempty' and v == ('eq', 0)
                               for k, v in path.facts.items()) or \
                    any(e['k'] == 'qop' and e['op'].startswith('peek') and e.get('node') is not None
                        for e in path.events)    # (a peek that returned a node: the queue is not empty)
                # ... or the path saw a queued waiter that has been handed the turn (Notified): it will lock and unlock
                handed = any(e['k'] == 'qop' and e['op'].startswith('peek') and e.get('node') is not None and
                             path.facts.get(('discr', ('init', e['node'] + ('data', 'state')))) == ('eq', 'Notified')
                             for e in path.events)
                if locked == 1 or (fair == 1 and nonempty) or handed:
                    R.ok('C03.R7', '%s|parks: %s|%s' % (m['path'], 'mutex locked' if locked == 1 else
                                                          'fair, somebody queued ahead', path_cond(E, path)))
                else:
                    R.fail('C03.R7', [m['path'], 'parks-while-mutex-free', path_cond(E, path)],
                           '%s queues the future and returns Pending although the mutex is not known to be locked '
                           '(and no earlier waiter is known to be queued in fair mode): nobody will wake it [%s]' % (
                               m['path'], path_cond(E, path)), where(F, parks[0]), {'trace': trace_summary(path)})
            # R4 (state level): wakers taken are returned
            w3_waker_use(R, E, F, m, paths, 'C03.R4', strict=False)
            # R5: Pending => current waker stored
            w4_pending_stores_waker(R, E, F, m, paths, 'C03.R5')
        R.floor('C03.R1 unlock-paths[%s]' % cfg, n_r1, 3)
        R.floor('C03.R2 notified-consumed-paths[%s]' % cfg, n_r2, 3)
        w4_helper(R, E, F, 'C03.R5h')
        # R4 (wrapper level): every public entry that can obtain a waker wakes it
        wrappers = []
        for fn in F.raw['fns']:
            if fn.get('impl_adt') in (GUARD, FUT, MUTEX) and fn['kind'] != 'closure':
                if (fn.get('impl_trait') or '').endswith('fmt::Debug'):
                    continue
                wrappers.append(fn)
        nw = 0
        for fn in wrappers:
            paths = E.run(fn['path'])
            R.add_paths(fn['path'], len(paths))
            nw += w3_waker_use(R, E, F, fn, paths, 'C03.R4', strict=True)
        R.floor('C03.R4 wrapper-take-instances[%s]' % cfg, nw, 4)
