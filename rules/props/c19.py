"""C19 — ring buffers: every function of ArrayBuf / FixedHeapBuf / GrowingHeapBuf matches, path by
path, the canonical bounded-ring schema (access/accounting pairing).  Partial: the behaviour over
all push/pop sequences follows from the schema by a textbook argument that is NOT mechanised here."""
from rl import (loc_endswith, path_cond, trace_summary, where, const_of, fmt_val, fmt_loc, fields_of)
from common import scan_field_writes, contains, eq_fact, same_pred, cmp_fact, says_pred
from lib import CheckerError

ARRAY = 'buffer::ring_buffer::ArrayBuf'
FIXED = 'buffer::ring_buffer::if_alloc::FixedHeapBuf'
GROWING = 'buffer::ring_buffer::if_alloc::GrowingHeapBuf'
LEN = ('const', '<A as buffer::real_array::RealArray<T>>::LEN')


def S(f):
    return ('init', (('P', 'self'), f))


VOCAB = ('as_mut_ptr', 'as_ptr', 'cast', 'add', 'write', 'read', 'drop_in_place', 'uninit', 'next_idx', 'capacity', 'len',
         'can_push', 'is_empty', 'panic', 'begin_panic', 'assert_failed', 'panic_fmt')


def raw_ops(path):
    """[(kind, index-expr)] for ptr.add(i).write/read/drop_in_place in path order.  Any other raw
    operation (slices from raw parts, copies, offsets ...) is outside the schema's vocabulary: the
    comparison cannot judge such an algorithm (CHECKER-ERROR), it does not call it a violation."""
    out = []
    adds = {}
    for e in path.events:
        if e['k'] != 'call':
            continue
        if e.get('mode') == 'opaque' and e['name'] not in VOCAB and (
                e['callee'].startswith(('std::ptr', 'std::slice', 'std::mem', 'std::intrinsics'))
                or 'MaybeUninit' in e['callee']):
            raise CheckerError('anchor=ArrayBuf raw-access vocabulary: %s uses %s, an operation the canonical ring '
                               'schema does not know; this algorithm cannot be judged by schema agreement' % (
                                   e['fn'], e['callee']))
        if e['name'] == 'drop_in_place' and not e['callee'].startswith('std::ptr::mut_ptr'):
            raise CheckerError('anchor=ArrayBuf raw-access vocabulary: %s drops through %s (not a single-element '
                               'ptr.add(i).drop_in_place())' % (e['fn'], e['callee']))
        if e['name'] == 'add' and 'ptr' in e['callee']:
            adds[e['ret']] = e['args'][1]
        elif e['name'] in ('write', 'read', 'drop_in_place') and 'ptr' in e['callee']:
            out.append((e['name'], adds.get(e['args'][0]), e))
    return out


from common import payload_param as _pp19, int_param as _ip19


def next_of(E, path, idx):
    """acceptable successor values of idx on this path: idx+1 (with fact idx+1 != LEN) or 0 (== LEN)"""
    if idx[0] == 'const' and isinstance(idx[1], int):
        inc = ('const', idx[1] + 1)   # the engine folds constant arithmetic
    else:
        inc = ('bin', 'Add', idx, ('const', 1))
    eq = const_of(E, path.facts, ('bin', 'Eq', inc, LEN))
    if eq == 0:
        return inc
    if eq == 1:
        return ('const', 0)
    return None


def final(E, path, f):
    return E.read(type('SV', (), {'store': path.store})(), (('P', 'self'), f))


def _only_called_from_ops(F, CG, path, depth=0):
    """is this function reachable only from ArrayBuf's new / push / pop / drop?"""
    callers = [c for c, _ in CG.callers_of(path)]
    if not callers or depth > 4:
        return False
    for c in callers:
        cf = F.fn(c) or {}
        if (cf.get('impl_adt') == ARRAY or '<buffer::ring_buffer::ArrayBuf' in c) and cf.get('name') in ('push', 'pop', 'drop', 'new'):
            continue
        if not _only_called_from_ops(F, CG, c, depth + 1):
            return False
    return True


def positive(E, facts, x):
    """truth of `x > 0` for an unsigned x in any spelling (x > 0, 0 < x, x != 0, !(x == 0), ...): 1 / 0 / None"""
    r = cmp_fact(E, facts, 'Gt', x, ('const', 0))
    if r is not None:
        return r
    r = eq_fact(E, facts, x, ('const', 0))
    return None if r is None else 1 - r


def run(C, R):
    R.explanation = ('Each function of the three buffers is compared, on every MIR path, with the canonical ring '
                     'schema: R1 the raw accesses ptr.add(i).write / read / drop_in_place use send_idx for the '
                     'write and recv_idx for read and drop, and lie behind the matching guard (size != LEN / '
                     'size > 0); R2 on the same path the used index is replaced by next_idx(index) — i+1 under '
                     'i+1 != LEN, else 0 — and size changes by exactly +1 / -1, pop returns the value read; '
                     'R3 send_idx / recv_idx / size are written only in new/push/pop/drop; R4 the heap variants '
                     'delegate push -> VecDeque::push_back(value), pop -> pop_front(), len -> len(), can_push -> '
                     'len != stored limit, capacity -> stored limit, FixedHeapBuf pre-allocates exactly its limit; '
                     'R5 len/is_empty/can_push/capacity of ArrayBuf are pure functions of size and A::LEN.  From '
                     'this schema FIFO order, consistent reports and exactly-once drop follow by the standard '
                     'ring-buffer induction (indices < LEN is preserved by next_idx; size counts initialised '
                     'cells between recv_idx and send_idx) — that induction over all sequences is not mechanised: '
                     'PARTIAL claim.')
    R.trusted += ['rustc nightly MIR', 'VecDeque is a FIFO deque (std)', 'the (unmechanised) ring-buffer induction']
    R.assumptions += ['the modular index arithmetic is decided only as far as: indices are 0 or next_idx(old), and '
                      'next_idx(i) is i+1 under i+1 != LEN else 0; behaviour over all push/pop sequences is NOT decided']
    for cfg in C.configs():
        F = C.facts(cfg)
        E = C.engine(cfg)
        R.configs.append(cfg)
        F.adt(ARRAY)

        def fn_of(adt, name, trait='RingBuf'):
            r = [f for f in F.raw['fns'] if f.get('impl_adt') == adt and f.get('name') == name]
            if len(r) != 1:
                raise CheckerError('anchor=%s::%s (found %d)' % (adt, name, len(r)))
            return r[0]

        nraw = 0
        # ---- ArrayBuf::push
        fn = fn_of(ARRAY, 'push')
        for path in E.run(fn['path']):
            R.add_paths(fn['path'], 1)
            ops = raw_ops(path)
            if path.exit == 'panic':
                if ops:
                    R.fail('C19.R1', [fn['path'], 'raw-access-on-panic-path'], 'raw write before the capacity assert',
                           where(F, ops[0][2]))
                continue
            nraw += len(ops)
            guard = eq_fact(E, path.facts, S('size'), LEN) == 0
            ok_access = len(ops) == 1 and ops[0][0] == 'write' and ops[0][1] == S('send_idx') \
                and ops[0][2]['args'][1] == _pp19(fn)
            nx = next_of(E, path, S('send_idx'))
            ok_acct = nx is not None and final(E, path, 'send_idx') == nx and \
                final(E, path, 'size') == ('bin', 'Add', S('size'), ('const', 1)) and \
                final(E, path, 'recv_idx') == S('recv_idx')
            if guard and ok_access:
                R.ok('C19.R1', '%s|write at send_idx under size != LEN|%s' % (fn['path'], path_cond(E, path)),
                     {'function': fn['path'], 'access': 'ptr.add(send_idx).write(value)', 'guard': 'size != LEN'})
            else:
                R.fail('C19.R1', [fn['path'], 'push-access', 'guard=%s access=%s' % (guard, ok_access)],
                       'push must write `value` at send_idx behind size != LEN', '%s:%s' % (fn['file'], fn['line']),
                       {'trace': trace_summary(path)})
            if ok_acct:
                R.ok('C19.R2', '%s|send_idx := next, size += 1|%s' % (fn['path'], path_cond(E, path)))
            else:
                R.fail('C19.R2', [fn['path'], 'push-accounting'],
                       'push must advance send_idx through next_idx and increase size by one (send_idx=%s size=%s)'
                       % (fmt_val(final(E, path, 'send_idx')), fmt_val(final(E, path, 'size'))),
                       '%s:%s' % (fn['file'], fn['line']), {'trace': trace_summary(path)})
        # ---- ArrayBuf::pop
        fn = fn_of(ARRAY, 'pop')
        for path in E.run(fn['path']):
            R.add_paths(fn['path'], 1)
            ops = raw_ops(path)
            if path.exit == 'panic':
                if ops:
                    R.fail('C19.R1', [fn['path'], 'raw-access-on-panic-path'], 'raw read before the emptiness assert',
                           where(F, ops[0][2]))
                continue
            nraw += len(ops)
            guard = positive(E, path.facts, S('size')) == 1
            ok_access = len(ops) == 1 and ops[0][0] == 'read' and ops[0][1] == S('recv_idx') and \
                path.ret == ops[0][2]['ret']
            nx = next_of(E, path, S('recv_idx'))
            ok_acct = nx is not None and final(E, path, 'recv_idx') == nx and \
                final(E, path, 'size') == ('bin', 'Sub', S('size'), ('const', 1)) and \
                final(E, path, 'send_idx') == S('send_idx')
            if guard and ok_access:
                R.ok('C19.R1', '%s|read at recv_idx under size > 0, returned|%s' % (fn['path'], path_cond(E, path)))
            else:
                R.fail('C19.R1', [fn['path'], 'pop-access', 'guard=%s access=%s' % (guard, ok_access)],
                       'pop must read at recv_idx behind size > 0 and return that value',
                       '%s:%s' % (fn['file'], fn['line']), {'trace': trace_summary(path)})
            if ok_acct:
                R.ok('C19.R2', '%s|recv_idx := next, size -= 1|%s' % (fn['path'], path_cond(E, path)))
            else:
                R.fail('C19.R2', [fn['path'], 'pop-accounting'],
                       'pop must advance recv_idx through next_idx and decrease size by one',
                       '%s:%s' % (fn['file'], fn['line']), {'trace': trace_summary(path)})
        # ---- ArrayBuf::drop (loop, unrolled)
        fn = fn_of(ARRAY, 'drop')
        ndropped = set()
        for path in E.run(fn['path']):
            R.add_paths(fn['path'], 1)
            if path.exit != 'return':
                continue
            ops = raw_ops(path)
            nraw += len(ops)
            ndropped.add(min(len(ops), 2))
            # replay the loop: symbolic (recv, size) evolve; each drop_in_place at the current recv_idx
            recv, size = S('recv_idx'), S('size')
            good = True
            for kind, idx, e in ops:
                if kind != 'drop_in_place' or idx != recv:
                    good = False
                    break
                if positive(E, path.facts, size) != 1:
                    # `for _ in 0..self.size`: before the k-th drop the path knows k < size-at-entry, i.e. the current
                    # size (entry size minus k) is positive
                    k_done = len([1 for kk, _i, _e in ops if _e['eid'] < e['eid']]) if 'eid' in e else None
                    if k_done is None or cmp_fact(E, path.facts, 'Lt', ('const', k_done), S('size')) != 1:
                        good = False
                        break
                nx = next_of(E, path, recv)
                if nx is None:
                    good = False
                    break
                recv, size = nx, ('bin', 'Sub', size, ('const', 1))
            if good and positive(E, path.facts, size) in (0, None) and \
                    final(E, path, 'recv_idx') == recv and final(E, path, 'size') == size and \
                    final(E, path, 'send_idx') == S('send_idx'):
                R.ok('C19.R1', '%s|%d element(s) dropped at successive recv_idx under size > 0' % (fn['path'], len(ops)))
            else:
                R.fail('C19.R1', [fn['path'], 'drop-loop'],
                       'Drop must walk `size` elements from recv_idx, dropping each in place exactly once and '
                       'advancing recv_idx / decreasing size', '%s:%s' % (fn['file'], fn['line']),
                       {'trace': trace_summary(path)})
        for k in (0, 1, 2):
            if k in ndropped:
                R.ok('C19.R1', '%s|returns after dropping %s%d element(s)' % (fn['path'], '>= ' if k == 2 else '', k))
            else:
                R.fail('C19.R1', [fn['path'], 'drop-loop-does-not-terminate', str(k)],
                       'Drop of ArrayBuf has no returning path that drops %s%d element(s): the walk does not '
                       'advance / end' % ('>= ' if k == 2 else '', k), '%s:%s' % (fn['file'], fn['line']))
        R.floor('C19.R1 raw-access-instances[%s]' % cfg, nraw, 5)
        # ---- next_idx
        nxt = [f for f in F.raw['fns'] if f.get('impl_adt') == ARRAY and f.get('name') == 'next_idx']
        if not nxt:
            # the successor is computed inline or in a private helper: push / pop / drop above were judged with it
            # inlined (next_of accepts i+1 under i+1 != LEN, 0 under i+1 == LEN - whatever code produced it)
            R.observe('C19.R2: no ArrayBuf::next_idx method [%s]; the index successor was judged inside push / pop / drop' % cfg)
        for fn in nxt:
          for path in E.run(fn['path']):
              R.add_paths(fn['path'], 1)
              i = _ip19(fn) or ('param', 'last_idx')
              inc = ('bin', 'Add', i, ('const', 1))
              eq = const_of(E, path.facts, ('bin', 'Eq', inc, LEN))
              if (eq == 1 and path.ret == ('const', 0)) or (eq == 0 and path.ret == inc):
                  R.ok('C19.R2', '%s|%s' % (fn['path'], path_cond(E, path)))
              else:
                  R.fail('C19.R2', [fn['path'], 'wrap'], 'next_idx must return 0 when i+1 == LEN and i+1 otherwise '
                         '(returns %s under eq=%s)' % (fmt_val(path.ret), eq), '%s:%s' % (fn['file'], fn['line']))
        # ---- R3 who may write
        for f in ('send_idx', 'recv_idx', 'size'):
            for wfn, s in scan_field_writes(F, f, 'buffer::ring_buffer'):
                if wfn.get('impl_adt') == ARRAY and wfn.get('name') in ('push', 'pop', 'drop', 'new'):
                    R.ok('C19.R3', '%s|%s' % (wfn['path'], f))
                elif _only_called_from_ops(F, C.cg(cfg), wfn['path']):
                    # a private helper of push / pop / drop: judged inlined into them
                    R.ok('C19.R3', '%s|%s|helper of push/pop/drop' % (wfn['path'], f))
                elif ('<buffer::ring_buffer::ArrayBuf' in wfn['path'] or wfn.get('impl_adt') == ARRAY) and \
                        wfn.get('name') in ('len', 'capacity', 'can_push', 'is_empty', 'next_idx'):
                    R.fail('C19.R3', [wfn['path'], f], '%s is written in %s (a report function)' % (f, wfn['path']),
                           F.loc(wfn, s['ln']))
                elif '<buffer::ring_buffer::ArrayBuf' in wfn['path'] or wfn.get('impl_adt') == ARRAY:
                    # an operation the ring schema has no canonical form for (clear, extend, ...): not judged, and
                    # not condemned either
                    raise CheckerError('cannot judge %s: it writes `%s` of ArrayBuf and is not one of new / push / pop / '
                                       'drop, the operations the ring schema describes' % (wfn['path'], f))
        # ---- new + R5
        fn = fn_of(ARRAY, 'new')
        for path in E.run(fn['path']):
            d = dict(path.ret[3]) if path.ret[0] == 'agg' else {}
            if d.get('size') == ('const', 0) and d.get('send_idx') == ('const', 0) and d.get('recv_idx') == ('const', 0):
                R.ok('C19.R3', '%s|all zero' % fn['path'])
            else:
                R.fail('C19.R3', [fn['path'], 'initial-state'], 'new() must start with size = send_idx = recv_idx = 0',
                       '%s:%s' % (fn['file'], fn['line']))
        pure = {'len': S('size'), 'capacity': LEN, 'can_push': ('bin', 'Ne', S('size'), LEN)}
        for nm, want in pure.items():
            fn = fn_of(ARRAY, nm)
            for path in E.run(fn['path']):
                eff = [e for e in path.events if e['k'] in ('write', 'qop')]
                if (path.ret == want or (want[0] == 'bin' and says_pred(E, path, want))) and not eff:
                    R.ok('C19.R5', '%s = %s' % (fn['path'], fmt_val(want)))
                else:
                    R.fail('C19.R5', [fn['path'], 'report'], '%s returns %s (expected %s)' % (
                        fn['path'], fmt_val(path.ret), fmt_val(want)), '%s:%s' % (fn['file'], fn['line']))
        ie = [f for f in F.raw['fns'] if f['path'].endswith('RingBuf::is_empty')]
        if len(ie) != 1:
            raise CheckerError('anchor=RingBuf::is_empty default method')
        for path in E.run(ie[0]['path']):
            calls = [e for e in path.events if e['k'] == 'call' and e['name'] == 'len']
            if calls and says_pred(E, path, ('bin', 'Eq', calls[0]['ret'], ('const', 0))):
                R.ok('C19.R5', 'RingBuf::is_empty = (len() == 0)')
            else:
                R.fail('C19.R5', [ie[0]['path'], 'report'], 'is_empty is not len() == 0', None)
        if cfg == 'none':
            continue
        heap_variants(R, E, F, 'C19.R4', cfg)


def heap_variants(R, E, F, rule, cfg):
    """the VecDeque-backed buffers delegate faithfully and keep the limit they were given (capacity 0
    included): shared by C19.R4 and C09.R6 (an unbuffered channel needs a buffer whose capacity is 0)"""
    def fn_of(adt, name):
        r = [f for f in F.raw['fns'] if f.get('impl_adt') == adt and f.get('name') == name]
        if len(r) != 1:
            raise CheckerError('anchor=%s::%s (found %d)' % (adt, name, len(r)))
        return r[0]
    for adt, lim in ((FIXED, 'cap'), (GROWING, 'limit')):
        fn = fn_of(adt, 'push')
        for path in E.run(fn['path']):
            if path.exit == 'panic':
                # "Panics if the buffer is full": decided before the value is stored, never after (a capacity test
                # that runs after push_back panics on the push that fills the last free slot)
                if any(e['k'] == 'call' and e['name'] in ('push_back', 'push_front', 'insert') for e in path.events):
                    R.fail(rule, [fn['path'], 'push-panics-after-storing'],
                           'push stores the value and then panics on a capacity test', '%s:%s' % (fn['file'], fn['line']))
                else:
                    R.ok(rule, '%s|panics before storing' % fn['path'])
                continue
            if path.exit != 'return':
                continue
            pb = [e for e in path.events if e['k'] == 'call' and e['name'] in ('push_back', 'push_front', 'insert')]
            if len(pb) == 1 and pb[0]['name'] == 'push_back' and pb[0]['args'][1] == _pp19(fn):
                R.ok(rule, '%s|push_back(value)' % fn['path'])
            else:
                R.fail(rule, [fn['path'], 'push'], 'push must be exactly VecDeque::push_back(value)',
                       '%s:%s' % (fn['file'], fn['line']))
        fn = fn_of(adt, 'pop')
        for path in E.run(fn['path']):
            if path.exit == 'panic':
                # "Panics if the buffer is empty": only then (the assertion / the unwrap of pop_front's None)
                ln = [e for e in path.events if e['k'] == 'call' and e['name'] == 'len']
                pfn = [e for e in path.events if e['k'] == 'call' and e['name'] == 'pop_front']
                empty = any(positive(E, path.facts, e['ret']) == 0 for e in ln) or \
                    any(E.variant_known(path.facts, e['ret']) == ('eq', 'None') for e in pfn)
                if empty:
                    R.ok(rule, '%s|panics only when empty' % fn['path'])
                else:
                    R.fail(rule, [fn['path'], 'pop-panics-on-non-empty'],
                           'pop can panic on a path that has not established that the buffer is empty',
                           '%s:%s' % (fn['file'], fn['line']))
                continue
            if path.exit != 'return':
                continue
            pf = [e for e in path.events if e['k'] == 'call' and e['name'] in ('pop_front', 'pop_back', 'remove')]
            if len(pf) == 1 and pf[0]['name'] == 'pop_front' and contains(path.ret, pf[0]['ret']):
                R.ok(rule, '%s|pop_front()' % fn['path'])
            else:
                R.fail(rule, [fn['path'], 'pop'], 'pop must return VecDeque::pop_front()',
                       '%s:%s' % (fn['file'], fn['line']))
        fn = fn_of(adt, 'len')
        for path in E.run(fn['path']):
            c = [e for e in path.events if e['k'] == 'call' and e['name'] == 'len']
            if c and path.ret == c[0]['ret']:
                R.ok(rule, '%s|len()' % fn['path'])
            else:
                R.fail(rule, [fn['path'], 'len'], 'len must be VecDeque::len()', None)
        fn = fn_of(adt, 'capacity')
        for path in E.run(fn['path']):
            if path.ret == S(lim):
                R.ok(rule, '%s|stored limit' % fn['path'])
            else:
                R.fail(rule, [fn['path'], 'capacity'], 'capacity must return the stored limit', None)
        fn = fn_of(adt, 'can_push')
        for path in E.run(fn['path']):
            # (the buffer's own len() / capacity() getters may be used: they are inlined, the VecDeque call is what counts)
            c = [e for e in path.events if e['k'] == 'call' and e['name'] == 'len' and e.get('ret') is not None
                 and e.get('mode') != 'inline']
            if c and says_pred(E, path, ('bin', 'Ne', c[0]['ret'], S(lim))):
                R.ok(rule, '%s|len() != limit' % fn['path'])
            else:
                R.fail(rule, [fn['path'], 'can_push'], 'can_push must be len() != stored limit (returns %s)'
                       % fmt_val(path.ret), None)
        fn = fn_of(adt, 'with_capacity')
        for path in E.run(fn['path']):
            d = dict(path.ret[3]) if path.ret[0] == 'agg' else {}
            if d.get(lim) == ('param', lim if lim == 'cap' else 'limit'):
                R.ok(rule, '%s|limit = argument' % fn['path'])
            else:
                R.fail(rule, [fn['path'], 'with_capacity'], 'with_capacity must store its argument as the limit', None)
        fn = fn_of(adt, 'new')
        for path in E.run(fn['path']):
            d = dict(path.ret[3]) if path.ret[0] == 'agg' else {}
            if d.get(lim) == ('const', 0):
                R.ok(rule, '%s|default limit 0' % fn['path'])
            else:
                R.fail(rule, [fn['path'], 'new'], 'new() must create a buffer of capacity 0 (got %s)' % fmt_val(d.get(lim) or ('unk', '?')), None)
        for wfn, s in scan_field_writes(F, lim, 'buffer::ring_buffer'):
            R.fail(rule, [wfn['path'], lim + '-reassigned'], '%s is reassigned' % lim, F.loc(wfn, s['ln']))
