"""C04 — fair mutex grants in arrival order (structure: FairGate + FIFO ends + notified head stays linked)."""
from rl import (entry_methods, loc_endswith, path_cond, trace_summary, where, const_of, fmt_val)
from common import fifo_ends, own_node_roots, fair_no_requeue, mutex_fair_J, _own_entered
from typestate import check_typestate

STATE = 'sync::mutex::MutexState'


def fair_gate(E, path, own_roots):
    """is the path entitled to take the resource in fair mode? returns reason or None"""
    if const_of(E, path.facts, ('init', (('P', 'self'), 'is_fair'))) == 0:
        return 'unfair mode'
    for k, v in path.facts.items():
        if isinstance(k, tuple) and k and k[0] == 'qempty' and loc_endswith(k[1], 'waiters') and v == ('eq', 1):
            return 'wait queue observed empty'
    for root in own_roots:
        k0 = path.facts.get(('discr', ('init', root + ('data', 'state'))))
        if k0 == ('eq', 'Notified'):
            return 'own node is the notified head'
    return None


def run(C, R):
    R.explanation = ('Structure of fair hand-over: R1 FairGate — every MIR path that sets is_locked carries one of: '
                     'is_fair == false, the wait queue observed empty, or the own node entered in state Notified; '
                     'R2 FIFO ends — waiters enter only with add_front and candidates are taken only from the tail '
                     '(peek_last*/remove_last), so the tail is the oldest; R3 the notified head of a fair mutex '
                     'stays linked until it locks or is dropped (typestate table, Notified linked iff fair), so it '
                     'keeps gating R1; R4 on a path that can be fair, the own node is enqueued only when it entered in state '
                     'New (a queued waiter never re-enters behind later arrivals; a re-queue of the notified head on a '
                     'locked fair mutex is excluded only while notification happens on unlocked paths only).  Together with C01.I1: only the oldest pending waiter can be granted while '
                     'waiters exist.  That LinkedList::remove keeps the relative order of the others is assumed '
                     '(C20).')
    R.trusted += ['rustc nightly MIR', 'queue-op summaries (C20)', 'lock_api::Mutex']
    R.assumptions += ['order preservation of LinkedList::remove is assumed (C20 summary)']
    for cfg in C.configs():
        F = C.facts(cfg)
        E = C.engine(cfg)
        CG = C.cg(cfg)
        roles = C.roles(cfg)
        R.configs.append(cfg)
        nset = 0
        nq = 0
        nins = 0
        ems = entry_methods(F, CG, STATE)
        _nJ, _goodJ, badJ = mutex_fair_J(E, F, ems, E.run)

        def excluded(path, root, badJ=badJ):
            # J: fair & Notified => unlocked.  A path on which the own node enters Notified with the mutex locked is
            # infeasible when J is inductive (notification half evaluated here, grant half = R1)
            if path.facts.get(('discr', ('init', root + ('data', 'state')))) == ('eq', 'Notified') and \
                    const_of(E, path.facts, ('init', (('P', 'self'), 'is_locked'))) == 1 and not badJ:
                return 'fair & Notified => unlocked (notification only on unlocked paths)'
            return None
        for m in ems:
            paths = E.run(m['path'])
            R.add_paths(m['path'], len(paths))
            owns = own_node_roots(F, m)
            for path in paths:
                if path.exit != 'return':
                    continue
                sets = [e for e in path.events if e['k'] == 'write' and loc_endswith(e['loc'], 'is_locked')
                        and e['val'] == ('const', 1)]
                for w in sets:
                    nset += 1
                    why = fair_gate(E, path, owns)
                    if why:
                        R.ok('C04.R1', '%s|%s' % (m['path'], path_cond(E, path)),
                             {'function': m['path'], 'grant_allowed_because': why,
                              'path_condition': path_cond(E, path)})
                    else:
                        R.fail('C04.R1', [m['path'], 'barging', path_cond(E, path)],
                               '%s takes the lock on a path that can be a fair mutex with other waiters queued and '
                               'an own node that is not the notified head [%s]' % (m['path'], path_cond(E, path)),
                               where(F, w), {'trace': trace_summary(path)})
            nins += fair_no_requeue(R, E, F, m, paths, owns, 'C04.R4', 'mutex', excluded)
            nq += fifo_ends(R, E, F, m, paths, 'C04.R2')
            check_typestate(R, E, F, roles, STATE, m, paths, 'C04.R3', only_fair=True)
        R.floor('C04.R1 lock-set-paths[%s]' % cfg, nset, 3)
        R.floor('C04.R2 queue-op-kinds[%s]' % cfg, nq, 4)
        R.floor('C04.R4 enqueue-paths[%s]' % cfg, nins, 1)
