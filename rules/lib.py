"""Reporting: obligations, violations (stable keys), known findings, evidence."""
import json
import os
import re
import shutil
import time

VERIF = os.path.dirname(os.path.dirname(os.path.abspath(__file__)))
KNOWN_FILE = os.path.join(VERIF, 'KNOWN_FINDINGS')
EVID_DIR = os.environ.get('FI_EVID_DIR') or os.path.join(VERIF, 'evidence')


class CheckerError(Exception):
    """the checker cannot judge this tree (missing anchor / count below floor)"""
    pass


def load_known():
    """returns (known: {prop: {key: text}}, fixed: [(prop, text)])"""
    known, fixed = {}, []
    if not os.path.exists(KNOWN_FILE):
        return known, fixed
    for line in open(KNOWN_FILE):
        line = line.strip()
        if not line or line.startswith('#'):
            continue
        m = re.match(r'^known:\s+property=(\S+)\s+key=(.*?)\s+::\s+(.*)$', line)
        if m:
            known.setdefault(m.group(1), {})[m.group(2)] = m.group(3)
            continue
        m = re.match(r'^fixed:\s+property=(\S+)\s+(.*)$', line)
        if m:
            fixed.append((m.group(1), m.group(2)))
    return known, fixed


class Report:
    def __init__(self, prop, tier, level='other'):
        self.prop = prop
        self.tier = tier
        self.level = level
        self.t0 = time.time()
        self.obligations = 0
        self.discharged = 0
        self.infeasible = 0
        self.by_rule = {}
        self.violations = []
        self.samples = []
        self.notes = []
        self.observations = []
        self.assumptions = []
        self.trusted = []
        self.analysed_fns = set()
        self.paths = 0
        self.configs = []
        self.keys_seen = set()
        self.explanation = ''
        self.extra = {}
        self.distinct = set()
        self.floor_failures = []

    # ------------------------------------------------------------------
    def ok(self, rule, subject, detail=None):
        """one obligation, discharged"""
        self.obligations += 1
        self.discharged += 1
        r = self.by_rule.setdefault(rule, {'obligations': 0, 'discharged': 0})
        r['obligations'] += 1
        r['discharged'] += 1
        fresh = (rule, subject) not in self.distinct
        self.distinct.add((rule, subject))
        if fresh and detail is not None and len(self.samples) < 40 and sum(1 for s in self.samples if s.get('rule') == rule) < 3:
            self.samples.append({'rule': rule, 'subject': subject, 'verdict': 'discharged', 'detail': detail})

    def fail(self, rule, key_parts, message, where=None, detail=None):
        """one obligation, violated.  key_parts must not contain line numbers."""
        self.obligations += 1
        r = self.by_rule.setdefault(rule, {'obligations': 0, 'discharged': 0})
        r['obligations'] += 1
        key = '|'.join([rule] + [str(k) for k in key_parts])
        self.distinct.add((rule, key))
        if key in self.keys_seen:
            return
        self.keys_seen.add(key)
        self.violations.append({'rule': rule, 'key': key, 'message': message, 'where': where, 'detail': detail})

    def skip_infeasible(self, n=1):
        self.infeasible += n

    def observe(self, text):
        if text not in self.observations:
            self.observations.append(text)

    def floor(self, what, n, floor):
        """fail closed when a rule matched fewer instances than confirmed by hand"""
        if n < floor:
            # deferred: a located violation takes precedence over "cannot judge"
            self.floor_failures.append('count-below-floor anchor=%s found=%d floor=%d' % (what, n, floor))
        self.extra.setdefault('instance_counts', {})[what] = {'found': n, 'floor': floor}

    def cannot_judge(self, msg):
        """a part of the tree the rules cannot judge: deferred like a floor failure - a located violation of the same
        run takes precedence, otherwise the check exits 2"""
        m = 'cannot judge: ' + msg
        if m not in self.floor_failures:
            self.floor_failures.append(m)

    def add_paths(self, fn_path, n):
        self.analysed_fns.add(fn_path)
        self.paths += n

    # ------------------------------------------------------------------
    def finish(self):
        known, _fixed = load_known()
        known = known.get(self.prop, {})
        os.makedirs(EVID_DIR, exist_ok=True)
        vdir = os.path.join(EVID_DIR, '%s.violations' % self.prop)
        if os.path.isdir(vdir):
            shutil.rmtree(vdir)
        new_v = []
        known_hit = []
        for v in self.violations:
            if v['key'] in known:
                known_hit.append(v)
            else:
                new_v.append(v)
        lines = []
        for v in known_hit:
            lines.append('KNOWN-FINDING: property=%s %s :: %s' % (self.prop, v['key'], known[v['key']]))
        if new_v:
            os.makedirs(vdir, exist_ok=True)
        for i, v in enumerate(new_v):
            p = os.path.join(vdir, '%d.json' % i)
            with open(p, 'w') as f:
                json.dump({'property': self.prop, **v}, f, indent=1, default=str)
            lines.append('VIOLATION property=%s replay=%s' % (self.prop, p))
            lines.append('  rule=%s key=%s' % (v['rule'], v['key']))
            lines.append('  %s%s' % (v['message'], (' @ ' + v['where']) if v.get('where') else ''))
        wall = round(time.time() - self.t0, 3)
        cov = {
            'explanation': self.explanation,
            'evaluations': self.obligations,
            'distinct_nontrivial': len(self.distinct),
            'rule': 'one evaluation = one rule instance (obligation) on one control-flow path / call site / '
                    'impl / probe; distinct = distinct (rule, subject) pairs; all are non-trivial (each is a '
                    'located construct of the analysed tree)',
            'obligations': self.obligations,
            'discharged': self.discharged,
            'infeasible_paths_skipped': self.infeasible,
            'by_rule': self.by_rule,
            'functions_analysed': len(self.analysed_fns),
            'paths_enumerated': self.paths,
            'path_bound': 'loops unrolled %d times per frame (each block visited at most %d times); inlining depth 9; '
                          'paths cut by the bound are not enumerated' % (
                              (int(os.environ.get('FI_MAX_VISITS', 4 if self.tier == 'thorough' else 3)) - 1,
                               int(os.environ.get('FI_MAX_VISITS', 4 if self.tier == 'thorough' else 3)))),
            'feature_configs': self.configs,
            'samples': self.samples if self.samples else [{'note': 'no sample recorded'}],
            'trusted_base': self.trusted,
            'checker_cmd': './check %s --tier %s' % (self.prop, self.tier),
            'observations': self.observations,
            'known_findings_hit': [v['key'] for v in known_hit],
            # complete enumeration only where the space is finite as such (impls, call sites, probes); control-flow
            # paths are enumerated up to the stated bound
            'exhaustive': self.paths == 0,
            'exhaustive_note': 'every impl / call site / probe of the stated kind' if self.paths == 0 else
                               'every rule instance on every control-flow path within path_bound; paths through '
                               'more loop iterations are not enumerated',
        }
        cov.update(self.extra)
        ev = {
            'property_id': self.prop,
            'tier': self.tier,
            'seed': int(os.environ.get('VERIF_SEED', '0') or 0),
            'level': self.level,
            'coverage': cov,
            'assumptions': self.assumptions,
            'wall_s': wall,
            'violations': len(new_v),
        }
        with open(os.path.join(EVID_DIR, '%s.json' % self.prop), 'w') as f:
            json.dump(ev, f, indent=1, default=str)
        for l in lines:
            print(l)
        if self.floor_failures and not new_v:
            for ff in self.floor_failures:
                print('CHECKER-ERROR property=%s %s' % (self.prop, ff))
            return 2
        for ff in self.floor_failures:
            print('note: %s' % ff)
        print('%s %s: %d obligations, %d discharged, %d violations (%d known), %d fns, %d paths, %.1fs' % (
            self.prop, self.tier, self.obligations, self.discharged, len(new_v), len(known_hit),
            len(self.analysed_fns), self.paths, wall))
        return 1 if new_v else 0
