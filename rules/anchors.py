"""Vocabulary anchors: the field names the rules of each property are written in.  They are checked before a
property's rules run: a renamed / removed field makes the check exit 2 (CHECKER-ERROR anchor=...) instead of
letting rules keyed on the old name draw conclusions (a rule that no longer finds `is_locked` would otherwise
report that the mutex is never known to be locked).  Fail closed, never a verdict about the tree."""
from lib import CheckerError

MUTEX = ('sync::mutex::MutexState', ('is_fair', 'is_locked', 'waiters'))
MUTEX_NODE = ('sync::mutex::WaitQueueEntry', ('task', 'state'))
SEM = ('sync::semaphore::SemaphoreState', ('is_fair', 'permits', 'waiters'))
SEM_NODE = ('sync::semaphore::WaitQueueEntry', ('task', 'state', 'required_permits'))
EVENT = ('sync::manual_reset_event::EventState', ('is_set', 'waiters'))
EVENT_NODE = ('sync::manual_reset_event::WaitQueueEntry', ('task', 'state'))
MPMC = ('channel::mpmc::ChannelState', ('is_closed', 'buffer', 'receive_waiters', 'send_waiters'))
RECV_NODE = ('channel::channel_future::RecvWaitQueueEntry', ('task', 'state'))
SEND_NODE = ('channel::channel_future::SendWaitQueueEntry', ('task', 'state', 'value'))
ONESHOT = ('channel::oneshot::ChannelState', ('is_fulfilled', 'value', 'waiters'))
BROADCAST = ('channel::oneshot_broadcast::ChannelState', ('is_fulfilled', 'value', 'waiters'))
STATEB = ('channel::state_broadcast::ChannelState', ('is_closed', 'state_id', 'value', 'waiters'))
STATEB_NODE = ('channel::state_broadcast::RecvWaitQueueEntry', ('task', 'state', 'state_id'))
TIMER = ('timer::timer::TimerState', ('clock', 'waiters'))
TIMER_NODE = ('timer::timer::TimerQueueEntry', ('task', 'state', 'expiry'))
ARRAY = ('buffer::ring_buffer::ArrayBuf', ('buffer', 'size', 'recv_idx', 'send_idx'))
LIST = ('intrusive_double_linked_list::LinkedList', ('head', 'tail'))
LIST_NODE = ('intrusive_double_linked_list::ListNode', ('prev', 'next', 'data'))
HEAP = ('intrusive_pairing_heap::PairingHeap', ('root',))
HEAP_NODE = ('intrusive_pairing_heap::HeapNode', ('parent', 'prev', 'next', 'first_child', 'data'))

ALL_STATES = [MUTEX, MUTEX_NODE, SEM, SEM_NODE, EVENT, EVENT_NODE, MPMC, RECV_NODE, SEND_NODE, ONESHOT, BROADCAST,
              STATEB, STATEB_NODE, TIMER, TIMER_NODE, LIST_NODE, HEAP_NODE]

ANCHORS = {
    # C01 speaks about queues, poll states, stored wakers (+ the mutex bit for P.fair, the parked value for P.V,
    # the buffer for P.pop)
    'C01': [MUTEX, MUTEX_NODE, (SEM[0], ('is_fair', 'waiters')), (SEM_NODE[0], ('task', 'state')),
            (EVENT[0], ('waiters',)), EVENT_NODE, (MPMC[0], ('buffer', 'receive_waiters', 'send_waiters')),
            RECV_NODE, SEND_NODE, (ONESHOT[0], ('waiters',)), (BROADCAST[0], ('waiters',)), (STATEB[0], ('waiters',)),
            (STATEB_NODE[0], ('task', 'state')), (TIMER[0], ('waiters',)), (TIMER_NODE[0], ('task', 'state')),
            LIST_NODE, HEAP_NODE],
    'C02': [MUTEX, MUTEX_NODE], 'C03': [MUTEX, MUTEX_NODE], 'C04': [MUTEX, MUTEX_NODE],
    'C05': [SEM, SEM_NODE], 'C06': [SEM, SEM_NODE], 'C07': [SEM, SEM_NODE],
    'C08': [MPMC, RECV_NODE, SEND_NODE, ONESHOT, BROADCAST, STATEB],
    'C09': [MPMC, RECV_NODE, SEND_NODE], 'C10': [MPMC, RECV_NODE, SEND_NODE],
    'C11': [MPMC, ONESHOT, BROADCAST, STATEB, SEND_NODE],
    'C12': [ONESHOT, BROADCAST, RECV_NODE], 'C13': [STATEB, STATEB_NODE],
    'C14': [EVENT, EVENT_NODE], 'C15': [TIMER, TIMER_NODE],
    'C16': [], 'C17': [], 'C18': [],
    'C19': [ARRAY], 'C20': [LIST, LIST_NODE, HEAP, HEAP_NODE],
}
# types that exist only with the alloc feature
ALLOC_ONLY = ()


def verify(prop, F, cfg):
    for adt, fields in ANCHORS.get(prop, []):
        a = F.adts.get(adt)
        if a is None:
            raise CheckerError('anchor=%s: the type the rules of %s are written against does not exist [%s]'
                               % (adt, prop, cfg))
        have = set(f['name'] for v in a['variants'] for f in v['fields'])
        missing = [f for f in fields if f not in have]
        if missing:
            raise CheckerError('anchor=%s.%s: field(s) the rules of %s are written against are missing (renamed?); '
                               'has: %s [%s]' % (adt.split('::')[-1], '/'.join(missing), prop,
                                                 ', '.join(sorted(have)), cfg))
