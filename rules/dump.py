"""debug helper: python3 rules/dump.py <facts.json> <fn-path-suffix> [--fanout trait] — print the paths of a function"""
import sys
from facts import Facts
from engine import Engine, fmt_loc, fmt_val

def fmt_event(e):
    k = e['k']
    if k == 'write':
        return 'write  %s := %s   (old %s)' % (fmt_loc(e['loc']), fmt_val(e['val']), fmt_val(e['old']))
    if k == 'assume':
        return 'assume %s %s' % (fmt_val(e['expr']), e['desc'])
    if k == 'call':
        return 'call   %s(%s) [%s]' % (e['callee'], ', '.join(fmt_val(a) for a in e['args']), e.get('mode'))
    if k == 'qop':
        return 'qop    %s queue=%s node=%s %s' % (e['op'], fmt_loc(e['queue']) if e['queue'] else None,
                                                  fmt_loc(e['node']) if e.get('node') else None, e.get('result', ''))
    if k == 'drop':
        return 'drop   %s : %s = %s' % (fmt_loc(e['loc']), e['ty']['str'], fmt_val(e['val']))
    if k in ('enter', 'exit'):
        return '%s  %s' % (k, e['fn'])
    if k == 'take':
        return 'take   %s (old %s)' % (fmt_loc(e['loc']), fmt_val(e['old']))
    if k == 'wake':
        return 'wake   %s' % fmt_val(e['waker'])
    if k == 'ret':
        return 'ret    %s -> %s' % (e['callee'], fmt_val(e['ret']))
    if k == 'lock':
        return 'lock   %s' % fmt_loc(e['mutex'])
    if k == 'update_waker':
        return 'update_waker %s' % fmt_loc(e['slot'])
    return k + ' ' + ' '.join('%s=%s' % (a, b) for a, b in e.items() if a in ('what', 'callee', 'op'))

if __name__ == '__main__':
    F = Facts(sys.argv[1])
    fan = []
    if '--fanout' in sys.argv:
        fan = [sys.argv[sys.argv.index('--fanout') + 1]]
    E = Engine(F, fanout_traits=fan)
    cands = [p for p in F.fns if p.endswith(sys.argv[2])]
    for c in cands:
        paths = E.run(c)
        print('=' * 30, c, len(paths), 'paths')
        for i, p in enumerate(paths):
            print('--- path', i, p.exit, 'ret =', fmt_val(p.ret))
            for e in p.events:
                if e['k'] in ('enter', 'exit') and '-v' not in sys.argv:
                    continue
                print('    %-4s %s' % (e.get('ln', ''), fmt_event(e)))
    print(E.stats)
