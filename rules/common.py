"""Rule templates shared by several properties (W3, W4, FairGate, FIFO ends, scans)."""
from engine import fmt_loc, fmt_val, OPTION, POLL, NONE, PANIC, some
from rl import (fields_of, is_tok, loc_endswith, path_cond, trace_summary, where, ret_variant, NODE_ADTS, const_of)
from lib import CheckerError


def contains(v, x, depth=0):
    """does abstract value v contain x as a sub-term?"""
    if v == x:
        return True
    if not isinstance(v, tuple) or depth > 8:
        return False
    for s in v:
        if isinstance(s, tuple) and contains(s, x, depth + 1):
            return True
    return False


def poll_variant(E, path):
    """Ready / Pending of a state function's return (Poll, a tuple whose first element is Poll, or a private struct
    with named fields that carries the Poll - `SendOutcome { poll, returned, wake }`)"""
    v = path.ret
    if v is PANIC or v is None:
        return None
    if v[0] == 'tuple' and v[1]:
        v = v[1][0]
    if v[0] == 'agg' and v[1] in E.F.adts and E.F.adts[v[1]]['kind'] == 'struct' and not E.F.adts[v[1]].get('reachable'):
        for _n, fv in v[3]:
            if fv[0] == 'agg' and fv[1] == POLL:
                return fv[2]
            k_ = E.variant_known(path.facts, fv) if fv[0] in ('ret', 'init', 'field') else None
            if k_ and k_[0] == 'eq' and k_[1] in ('Ready', 'Pending'):
                return k_[1]
    if v[0] == 'agg' and v[1] == POLL:
        return v[2]
    k = E.variant_known(path.facts, v)
    if k and k[0] == 'eq' and k[1] in ('Ready', 'Pending'):
        return k[1]
    return None


def param_names(fn):
    names = {}
    for d in fn['debug']:
        if not d['place']['p']:
            names.setdefault(d['place']['l'], d['name'])
    return [names.get(i, 'arg%d' % i) for i in range(1, fn['arg_count'] + 1)]


def payload_param(fn):
    """('param', name) of the parameter that carries the caller's value: the first parameter whose type is a bare
    type parameter (`value: T`, `value: Self::Item`) - whatever it is called"""
    ns = param_names(fn)
    for i in range(1, fn['arg_count'] + 1):
        t = fn['locals'][i]['ty']
        if t.get('k') in ('param', 'alias', 'projection') or (t.get('str') or '').endswith('::Item'):
            return ('param', ns[i - 1])
    return ('param', 'value')


def int_param(fn):
    ns = param_names(fn)
    for i in range(1, fn['arg_count'] + 1):
        t = fn['locals'][i]['ty']
        if t.get('name') in ('usize', 'u64', 'u32') or t.get('str') in ('usize', 'u64', 'u32'):
            return ('param', ns[i - 1])
    return None


def own_node_roots(F, fn):
    names = {}
    for d in fn['debug']:
        if not d['place']['p']:
            names.setdefault(d['place']['l'], d['name'])
    out = {}
    for i in range(1, fn['arg_count'] + 1):
        t = fn['locals'][i]['ty']
        if t.get('k') == 'ref' and t['ty'].get('k') == 'adt' and t['ty']['path'] in NODE_ADTS:
            d = t['ty']['args'][0]
            out[(('P', names.get(i, 'arg%d' % i)),)] = d['path'] if d.get('k') == 'adt' else d.get('str')
        else:
            for fname, d in bundle_nodes(F, t).items():
                out[(('P', fname),)] = d
    return out


def bundle_nodes(F, t):
    """{field name: node data type} for a parameter whose type is (a reference to) a private struct that carries a
    `&mut ListNode<X>` / `&mut HeapNode<X>` - an argument bundle such as `PollCtx { node, cx }`; the engine names
    those fields like parameters (Engine._bundle_value)"""
    from rl import bundle_field_types
    out = {}
    for name, ft in bundle_field_types(F, t):
        if ft.get('k') == 'ref' and (ft.get('ty') or {}).get('k') == 'adt' and ft['ty'].get('path') in NODE_ADTS:
            d = ft['ty']['args'][0]
            out[name] = d['path'] if d.get('k') == 'adt' else d.get('str')
    return out


# ---------------------------------------------------------------------- W3
def _in_local_aggregate(path, vals):
    """does a local variable's field / element (not the variable itself) hold one of vals at the end?"""
    for loc, v in path.store.items():
        if loc[0][0] == 'L' and len(loc) > 1 and any(contains(v, x) for x in vals):
            return True
        if loc[0][0] == 'L' and len(loc) == 1 and isinstance(v, tuple) and v and v[0] == 'agg' and v[1] != OPTION \
                and any(contains(v, x) for x in vals):
            return True
    return False


def w3_waker_use(R, E, F, fn, paths, rule, strict):
    """every waker taken out of a node (`task.take()`) is woken on that path, or (non-strict: state
    level) handed to the caller through the return value; never dropped while possibly Some"""
    n = 0
    for path in paths:
        if path.exit != 'return':
            continue
        for e in path.events:
            if e['k'] != 'take' or not loc_endswith(e['loc'], 'task'):
                continue
            n += 1
            x = e['old']
            k = E.variant_known(path.facts, x)
            if x == NONE or (k and k[0] == 'eq' and k[1] == 'None'):
                R.ok(rule, '%s|%s|none' % (fn['path'], path_cond(E, path)))
                continue
            inner = E.project(x, (('dc', 'Some'), '0'))
            woken = any(w['k'] == 'wake' and (w['waker'] == inner or w['waker'] == x) for w in path.events)
            returned = (not strict) and contains(path.ret, x)
            if woken or returned:
                R.ok(rule, '%s|%s|%s' % (fn['path'], path_cond(E, path), 'woken' if woken else 'returned'),
                     {'function': fn['path'], 'taken_from': fmt_loc(e['loc']),
                      'sink': 'Waker::wake' if woken else 'return value'})
            else:
                # not woken: dropped on the spot (violation) or moved somewhere this rule cannot follow?
                direct = [d for d in path.events if d['k'] == 'drop' and (
                    d['val'] in (x, inner) or (d['val'][0] == 'agg' and d['val'][1] == OPTION
                                               and contains(d['val'], inner)))]
                esc = None if direct else waker_escapes(path, (x, inner))
                if esc is not None and not strict and esc['k'] == 'write':
                    R.ok(rule, '%s|%s|handed to the caller through an out-parameter' % (fn['path'], path_cond(E, path)),
                         {'function': fn['path'], 'taken_from': fmt_loc(e['loc']), 'sink': 'out-parameter'})
                    continue
                if esc is not None or (not direct and _in_local_aggregate(path, (x, inner))):
                    raise CheckerError(
                        'cannot judge %s: a waker taken from %s is neither woken nor dropped on the path but moved '
                        'into a collection / foreign call (%s); this rule does not follow a collection of wakers to '
                        'the place where it is woken' % (fn['path'], fmt_loc(e['loc']),
                                                         where(F, esc) if esc else 'local aggregate'))
                R.fail(rule, [fn['path'], 'taken-waker-dropped', fmt_loc(e['loc']).split('@')[0]],
                       '%s: a waker taken from %s is neither woken nor returned on the path [%s]' % (
                           fn['path'], fmt_loc(e['loc']), path_cond(E, path)),
                       where(F, e), {'trace': trace_summary(path)})
    return n


# ---------------------------------------------------------------------- W4
def w4_pending_stores_waker(R, E, F, fn, paths, rule, own_filter=None):
    """every path of a state function that returns Pending leaves Some(current waker) in the own
    node's task slot (stored or refreshed after the last event that could have cleared it)"""
    owns = own_node_roots(F, fn)
    n = 0
    for path in paths:
        if path.exit != 'return' or poll_variant(E, path) != 'Pending':
            continue
        for root in owns:
            if own_filter and not own_filter(root):
                continue
            n += 1
            v = E.read(_StoreView(path.store), root + ('data', 'task'))
            same_task = False
            if v == ('init', root + ('data', 'task')):
                # untouched slot: fine when the path has established that the stored waker wakes the current task
                inner0 = E.project(v, (('dc', 'Some'), '0'))
                for k, f in path.facts.items():
                    if isinstance(k, tuple) and k and k[0] == 'will_wake' and f == ('eq', 1) and \
                            (k[1] == inner0 or k[1] == v or contains(k[1], inner0)):
                        same_task = True
            if v == some(('curwaker',)) or same_task:
                R.ok(rule, '%s|%s' % (fn['path'], path_cond(E, path)),
                     {'function': fn['path'], 'path_condition': path_cond(E, path), 'task_at_return': fmt_val(v)})
            else:
                R.fail(rule, [fn['path'], 'pending-without-current-waker', path_cond(E, path)],
                       '%s returns Pending but %s.task is %s, not the waker of this poll [%s]' % (
                           fn['path'], root[0][1], fmt_val(v), path_cond(E, path)),
                       '%s:%s' % (fn['file'], fn['line']), {'trace': trace_summary(path)})
    return n


class _StoreView:
    def __init__(self, store):
        self.store = store


def w4_helper(R, E, F, rule):
    """the crate's waker refresh helper ends, on every path, with a slot that wakes the current task"""
    fn = F.fn('utils::update_waker_ref')
    if fn is None:
        raise CheckerError('anchor=utils::update_waker_ref missing')
    paths = E.run(fn['path'])
    R.add_paths(fn['path'], len(paths))
    for path in paths:
        slot = (('P', 'waker_option'),)
        v = E.read(_StoreView(path.store), slot)
        ok = v == some(('curwaker',))
        if not ok:
            # unchanged slot is fine only under will_wake(current) == true
            for k, f in path.facts.items():
                if isinstance(k, tuple) and k and k[0] == 'will_wake' and f == ('eq', 1):
                    ok = True
        if ok:
            R.ok(rule, 'update_waker_ref|%s' % path_cond(E, path))
        else:
            R.fail(rule, ['utils::update_waker_ref', 'stale-waker-kept'],
                   'update_waker_ref can return with a stored waker that does not wake the current task',
                   '%s:%s' % (fn['file'], fn['line']), {'trace': trace_summary(path)})


# ------------------------------------------------------------------- scans
def scan_field_writes(F, field, in_module=None):
    """all MIR assignments whose destination place ends in `.field`  ->  [(fn, stmt)]"""
    out = []
    for fn in F.raw['fns']:
        if in_module and not fn['path'].lstrip('<').startswith(in_module):
            continue
        for b in fn['blocks']:
            for s in b['stmts']:
                if s['k'] != 'assign':
                    continue
                p = s['place']['p']
                if p and isinstance(p[-1], dict) and p[-1].get('f') == field:
                    out.append((fn, s))
    return out


def const_of_rvalue(fn, rv, depth=0):
    """the integer constant an assigned rvalue denotes, following copies through single-assignment locals
    (`let t = true; x.f = t;`); None when it is not a constant"""
    if 'use' not in rv or depth > 4:
        return None
    u = rv['use']
    if 'int' in u:
        return u['int']
    src = u.get('copy') or u.get('move')
    if not src or src.get('p'):
        return None
    defs = [s2 for b in fn['blocks'] for s2 in b['stmts']
            if s2['k'] == 'assign' and s2['place']['l'] == src['l'] and not s2['place']['p']]
    if len(defs) != 1:
        return None
    return const_of_rvalue(fn, defs[0]['rv'], depth + 1)


def scan_calls(F, pred):
    """all call terminators whose callee satisfies pred(ci) -> [(fn, term, cleanup)]"""
    out = []
    for fn in F.raw['fns']:
        for b in fn['blocks']:
            t = b['term']
            if t['k'] == 'call' and 'fn' in t['func']:
                ci = t['func']['fn']
                if pred(ci):
                    out.append((fn, t, b['cleanup']))
    return out


def scan_aggregates(F, adt):
    out = []
    for fn in F.raw['fns']:
        for b in fn['blocks']:
            for s in b['stmts']:
                rv = s.get('rv')
                if rv and rv.get('agg') == 'adt' and rv.get('adt') == adt:
                    out.append((fn, s, b['cleanup']))
    return out


def rpath(ci):
    r = ci.get('resolved')
    return r['path'] if r else ci['path']


# -------------------------------------------------------------- queue ends
def fifo_ends(R, E, F, fn, paths, rule, queues=None):
    """own nodes enter at the front; candidates for notification / value transfer are taken from the
    tail only (so tail = oldest)"""
    seen = set()
    for path in paths:
        for e in path.events:
            if e['k'] != 'qop' or e.get('queue') is None:
                continue
            qn = fields_of(e['queue'])
            qn = qn[-1] if qn else '?'
            if queues and qn not in queues:
                continue
            op = e['op']
            key = (fn['path'], qn, op)
            if key in seen:
                continue
            seen.add(key)
            if op in ('remove_first', 'peek_first', 'peek_first_mut', 'drain'):
                R.fail(rule, [fn['path'], qn, op],
                       '%s takes a wait-queue candidate from the front (newest) with %s' % (fn['path'], op),
                       where(F, e))
            else:
                R.ok(rule, '%s|%s|%s' % key)
    return len(seen)


# ---------------------------------------------------------- comparison facts
_MIRROR = {'Lt': ('Gt', False), 'Gt': ('Lt', False), 'Le': ('Ge', False), 'Ge': ('Le', False)}
_NEG = {'Lt': 'Ge', 'Ge': 'Lt', 'Gt': 'Le', 'Le': 'Gt'}


def cmp_fact(E, facts, op, a, b):
    """truth of `a op b` (op in Lt/Le/Gt/Ge) under the path facts, recognising every equivalent
    spelling: the mirrored operator with swapped operands and the negated operator.  1 / 0 / None"""
    from rl import const_of
    for o, x, y, neg in ((op, a, b, False), (_MIRROR[op][0], b, a, False),
                         (_NEG[op], a, b, True), (_MIRROR[_NEG[op]][0], b, a, True)):
        k = const_of(E, facts, ('bin', o, x, y))
        if k is not None:
            return (1 - k) if neg else k
    return None


def eq_fact(E, facts, a, b):
    """truth of `a == b` under the path facts in any spelling (Eq / Ne, either operand order): 1 / 0 / None"""
    from rl import const_of
    for key, neg in ((('bin', 'Eq', a, b), 0), (('bin', 'Eq', b, a), 0), (('bin', 'Ne', a, b), 1), (('bin', 'Ne', b, a), 1)):
        c = const_of(E, facts, key)
        if c is not None:
            return c ^ neg
    return None


def norm_pred(e):
    """canonical spelling of a boolean comparison expression, so that `a != b`, `!(a == b)`, `b != a`, and
    `a < b`, `b > a`, `!(a >= b)`, `!(b <= a)` (total orders) compare equal"""
    neg = False
    while isinstance(e, tuple) and len(e) == 3 and e[0] == 'un' and e[1] == 'Not':
        neg = not neg
        e = e[2]
    if not (isinstance(e, tuple) and len(e) == 4 and e[0] == 'bin' and e[1] in ('Eq', 'Ne', 'Lt', 'Le', 'Gt', 'Ge')):
        return ('un', 'Not', e) if neg else e
    op, a, b = e[1], e[2], e[3]
    if op == 'Gt':
        op, a, b = 'Lt', b, a
    elif op == 'Ge':
        op, a, b = 'Le', b, a
    if neg:
        if op == 'Eq':
            op = 'Ne'
        elif op == 'Ne':
            op = 'Eq'
        elif op == 'Lt':     # !(a < b) == b <= a
            op, a, b = 'Le', b, a
        elif op == 'Le':     # !(a <= b) == b < a
            op, a, b = 'Lt', b, a
    if op in ('Eq', 'Ne') and repr(a) > repr(b):
        a, b = b, a
    return ('bin', op, a, b)


def pred_truth(E, facts, pred):
    """truth (1 / 0 / None) of a comparison expression under the path facts, in any spelling"""
    pr = norm_pred(pred)
    if not (isinstance(pr, tuple) and len(pr) == 4 and pr[0] == 'bin'):
        return None
    op, a, b = pr[1], pr[2], pr[3]
    if op in ('Eq', 'Ne'):
        r = eq_fact(E, facts, a, b)
        return None if r is None else (r if op == 'Eq' else 1 - r)
    return cmp_fact(E, facts, op, a, b)


def says_pred(E, path, want):
    """does the path return the truth value of `want` - as the expression itself (any spelling) or as the constant
    that the facts of the path give it (`if len == cap { false } else { true }`)"""
    r = path.ret
    if r == want or same_pred(r, want):
        return True
    if r[0] == 'const' and r[1] in (0, 1):
        return pred_truth(E, path.facts, want) == r[1]
    return False


def same_pred(x, y):
    return norm_pred(x) == norm_pred(y)


# ------------------------------------------------------------ thin wrappers
def _plain_arg(v, depth=0):
    """a wrapper may pass on: its own parameters, references into `self` / its own node / the task
    context, fields of self, constants - but nothing computed"""
    if not isinstance(v, tuple) or depth > 6:
        return False
    t = v[0]
    if t in ('param', 'const', 'init', 'curwaker'):
        return True
    if t == 'ref':
        return True
    if t == 'pin':
        return _plain_arg(v[1], depth + 1)
    if t == 'agg' or t == 'tuple':
        vals = [x for _, x in v[3]] if t == 'agg' else list(v[1])
        return all(_plain_arg(x, depth + 1) for x in vals)
    if t == 'field':
        return _plain_arg(v[1], depth + 1)
    if t == 'struct':
        return True
    return False


def _carries_observation(v, depth=0):
    """does the value contain something read from the lock-protected state (a field under <locked>, the result of a
    state method)?"""
    if not isinstance(v, tuple) or depth > 8:
        return False
    if v and v[0] == 'ret':
        return True
    if v and v[0] == 'init' and len(v) > 1 and isinstance(v[1], tuple) and '<locked>' in v[1]:
        return True
    return any(_carries_observation(x, depth + 1) for x in v if isinstance(x, tuple))


def _look_then_act(F, path, state_fn_adt):
    """several acquisitions of the lock on one path, of which at most one mutates - through exactly one state method
    whose arguments carry nothing observed under an earlier acquisition"""
    regions = []
    for e in path.events:
        if e['k'] == 'lock' and e.get('fn') not in state_fn_adt:
            regions.append({'mut': [], 'direct': False})
        elif not regions:
            continue
        elif e['k'] == 'call' and e.get('mode') == 'inline' and e['callee'] in state_fn_adt \
                and e.get('fn') not in state_fn_adt and (e.get('argtys') or [''])[0].startswith('&mut'):
            regions[-1]['mut'].append(e)
        elif e['k'] in ('write', 'take', 'replace', 'update_waker', 'qop') and e.get('fn') not in state_fn_adt:
            loc = e.get('loc') or e.get('slot') or e.get('queue')
            if loc and '<locked>' in loc and not (e['k'] == 'qop' and e['op'] in ('is_empty', 'peek_first', 'peek_last', 'peek_min')):
                regions[-1]['direct'] = True
    mutating = [r for r in regions if r['mut'] or r['direct']]
    if len(mutating) > 1:
        return False
    for r in mutating:
        if r['direct'] or len(r['mut']) != 1:
            return False
        if any(_carries_observation(a) for a in r['mut'][0]['args'][1:]):
            return False
    return True


# the only public operation that is documented to perform two transitions
ALLOWED_COMBOS = {
    ('channel::mpmc::if_alloc::shared::GenericReceiver', ('clear', 'close')):
        'dropping the last mpmc receiver closes the channel and then discards buffered values',
}


def wrapper_discipline(C, R, cfg, state_adts, rule):
    """The state functions are the atomic transitions every path rule reasons about; this rule keeps
    the functions AROUND them thin: on every path of every function outside the state layer, each
    lock acquisition of such a state is followed by exactly ONE call of one of its methods, whose
    arguments are passed on unchanged (own parameters, own node, context, fields of self)."""
    F = C.facts(cfg)
    E = C.engine(cfg)
    roles = C.roles(cfg)
    state_adts = set(state_adts)
    state_fn_adt = {}
    for sp in state_adts:
        for m in F.methods_of(sp, inherent_only=False):
            state_fn_adt[m['path']] = sp
    owners = set()
    for sp in state_adts:
        for o, _f in roles.state_structs[sp]['owners']:
            owners.add(o)
    n = 0
    # functions outside the state layer that mutate this family's lock-protected state directly are transitions of
    # their own: entry_methods() hands them to the path rules (locked state addressed as `self`); recorded here
    from rl import breach_wrappers
    br = breach_wrappers(F, C.cg(cfg))
    for sp in sorted(state_adts):
        for p2, flds in sorted(br.get(sp, {}).items()):
            R.ok(rule, '%s|%s|direct mutation: judged as a transition of its own' % (p2, '/'.join(sorted(flds))))
            R.observe('%s: %s mutates %s of %s directly; the rules judge it as a transition like the state methods'
                      % (rule, p2, '/'.join(sorted(flds)), sp.split('::')[-1]))
    # free helpers that are only ever called from state methods belong to the state layer
    CG = C.cg(cfg)
    changed = True
    while changed:
        changed = False
        for fn in F.raw['fns']:
            if fn['path'] in state_fn_adt or fn['kind'] == 'closure':
                continue
            callers = [c for c, _ in CG.callers_of(fn['path'])]
            if callers and all(c in state_fn_adt for c in callers):
                state_fn_adt[fn['path']] = state_fn_adt[callers[0]]
                changed = True
    # closures inside state-layer functions are part of them
    for fn in F.raw['fns']:
        if fn['kind'] == 'closure' and CG.root_fn(fn['path']) in state_fn_adt:
            state_fn_adt[fn['path']] = state_fn_adt[CG.root_fn(fn['path'])]
    # one lock acquisition per public operation: a decision taken under one acquisition and acted upon under the
    # next is a check-then-act race for every other task (whether or not the first acquisition mutates anything)
    mods = set(sp.rsplit('::', 1)[0] + '::' for sp in state_adts)
    from rl import is_private_helper
    double_lock = []
    for fn in F.raw['fns']:
        if fn['kind'] == 'closure' or not any(fn['path'].lstrip('<').startswith(m_) for m_ in mods):
            continue
        if fn.get('in_trait') and is_private_helper(F, CG, fn):
            continue
        if is_private_helper(F, CG, fn) and CG.callers_of(fn['path']) and fn['path'] not in state_fn_adt:
            continue     # judged in its callers, with the arguments they pass (see below)
        for path in E.run(fn['path']):
            if path.exit != 'return':
                continue
            cnt = {}
            for e in path.events:
                if e['k'] == 'lock':
                    cnt[e['mutex']] = cnt.get(e['mutex'], 0) + 1
            twice = [mx for mx, c in cnt.items() if c >= 2]
            if not twice:
                continue
            if any(fn.get('impl_adt') == adt_ and (fn.get('impl_trait') or '').endswith('ops::Drop')
                   for (adt_, _combo) in ALLOWED_COMBOS):
                R.ok(rule, '%s|locks twice: the documented close-then-discard of the last receiver' % fn['path'])
            elif _look_then_act(F, path, state_fn_adt):
                # read-only critical sections followed (or preceded) by ONE complete transition that is handed nothing
                # those sections observed: each section is atomic on its own, an early return reports what a
                # read-only section saw (a linearization point), and the transition is judged for every state it can
                # meet - so nothing depends on the observation still being true
                R.ok(rule, '%s|looks under the lock, then performs one complete transition with its own arguments|%s'
                     % (fn['path'], path_cond(E, path)))
                continue
            else:
                # two MUTATING acquisitions are reported below (wrapper-not-thin); a read-only first acquisition may be
                # harmless (re-validated under the second) or a check-then-act race - the per-transition rules cannot
                # tell, so the verdict is "not judged", never "fine"
                double_lock.append('%s (%d acquisitions of the same lock on one path)' % (fn['path'], cnt[twice[0]]))
            break
    not_thin = []    # (fn, names, message, loc, extra): reported at the innermost function that shows the compound
    for fn in F.raw['fns']:
        if fn['path'] in state_fn_adt or fn['kind'] == 'closure':
            continue
        if fn.get('in_trait') and is_private_helper(F, CG, fn):
            continue     # a provided method of a private trait: generic over Self, judged in the impls' callers
        if not any(fn['path'].lstrip('<').startswith(m_) for m_ in mods):
            continue
        if is_private_helper(F, CG, fn) and CG.callers_of(fn['path']):
            # a private helper shared by several operations (`remove_endpoint(counter, discard)`): which transitions one
            # operation performs depends on the arguments each caller passes; the callers are judged with it inlined
            continue
        for path in E.run(fn['path']):
            if path.exit != 'return':
                continue
            own_frame = path.events[0]['frame'] if path.events else None
            # lock acquisitions and state calls made by this function or by the (non-state) helpers it calls
            locks = [e for e in path.events if e['k'] == 'lock' and e.get('fn') not in state_fn_adt]
            calls = [e for e in path.events if e['k'] == 'call' and e.get('mode') == 'inline'
                     and e['callee'] in state_fn_adt and e.get('fn') not in state_fn_adt
                     and (e.get('argtys') or [''])[0].startswith('&')     # a method on a state, not its constructor
                     and state_fn_adt[e['callee']].split('::')[-1] in (e.get('argtys') or [''])[0]]
            if not calls and not locks:
                continue
            if not calls:
                continue   # a lock without a state call of THIS family (another primitive, or a field read: C01.I8)
            n += 1
            pc = path_cond(E, path)
            # mutating transitions on this path (receiver taken by &mut), counted per lock acquisition: several
            # state calls under ONE lock are one (composite) transition, which rl.breach_wrappers hands to the rules
            mut = []
            seen_region = None
            for ev2 in path.events:
                if ev2['k'] == 'lock' and ev2.get('fn') not in state_fn_adt:
                    seen_region = ev2
                elif ev2 in calls and (ev2.get('argtys') or [''])[0].startswith('&mut'):
                    if mut and mut[-1][0] is seen_region and seen_region is not None and \
                            (fn['path'] in F.alias_fns or ev2.get('fn') in F.alias_fns):
                        continue
                    mut.append((seen_region, ev2))
            mut = [c for _r, c in mut]
            names = sorted(c['callee'].split('::')[-1] for c in mut)
            # the documented exception: the last mpmc receiver closes and then discards what is buffered - `close` plus
            # ONE other transition, whatever it is called (what it may do is C08.R2 / C09.R8 / C11.R6's business)
            combo_ok = len(mut) <= 1 or (fn.get('impl_adt'), tuple(names)) in ALLOWED_COMBOS or (
                any(fn.get('impl_adt') == adt_ for (adt_, _c) in ALLOWED_COMBOS)
                and (fn.get('impl_trait') or '').endswith('ops::Drop') and len(names) == 2 and 'close' in names)
            if not combo_ok or len(locks) == 0:
                not_thin.append((fn, names,
                       '%s performs %d state transitions (%s) on one path: a public operation maps to exactly one '
                       'transition of the primitive (listed exceptions: %s) [%s]' % (
                           fn['path'], len(mut), ', '.join(names),
                           '; '.join('%s: %s' % (k[0].split('::')[-1], '+'.join(k[1])) for k in ALLOWED_COMBOS), pc),
                       '%s:%s' % (fn['file'], fn['line']), {'trace': trace_summary(path)}))
                continue
            bad = [(c, a) for c in calls if c['frame'] == own_frame for a in c['args'][1:] if not _plain_arg(a)]
            if bad:
                c, a = bad[0]
                from engine import fmt_val as _fv
                R.fail(rule, [fn['path'], 'wrapper-alters-argument', c['callee'].split('::')[-1]],
                       '%s passes a computed value (%s) to %s instead of its own parameter' % (
                           fn['path'], _fv(a), c['callee']), where(F, c), {'trace': trace_summary(path)})
            else:
                R.ok(rule, '%s|one transition per lock, arguments unchanged|%s' % (fn['path'], pc))
    bad_fns = {}
    for fn, names, msg, loc, extra in not_thin:
        bad_fns.setdefault(fn['path'], []).append((fn, names, msg, loc, extra))
    for p_, lst in sorted(bad_fns.items()):
        inner = CG.reachable_from([p_]) - {p_}
        if any(q in bad_fns and any(sorted(n2) == sorted(lst[0][1]) for _f, n2, _m, _l, _x in bad_fns[q]) for q in inner):
            continue    # the function it calls shows the same compound: reported there
        for fn, names, msg, loc, extra in lst:
            R.fail(rule, [fn['path'], 'wrapper-not-thin', '+'.join(names)], msg, loc, extra)
    reported = set(v['key'].split('|')[1] for v in R.violations if v['key'].startswith(rule + '|') and 'wrapper-not-thin' in v['key'])
    pending = [d for d in double_lock if d.split(' (')[0] not in reported]
    if pending:
        R.cannot_judge('%s - an operation that spans two critical sections is outside what the per-transition rules '
                       'decide' % '; '.join(pending))
    return n


# ------------------------------------------------------------ initial state
def constructor_state(R, E, F, state_adt, expect, rule, also_valid=None):
    """the state struct's constructor establishes the initial state the inductive arguments start from:
    expect = {field: ('const', c) | ('param', name) | 'none' | 'empty-queue'}.  also_valid(fields) -> reason | None:
    a construction site other than `new` (an additional constructor such as `with_value`) may start in another state
    that satisfies the property's invariant - one that new() followed by the primitive's own operations could have
    reached"""
    from engine import NONE as _NONE
    # every place where the struct is built: its new(), or - when that was folded away - the literal in its owner
    site_fns = sorted(set(f2['path'] for f2, s2, cl in scan_aggregates(F, state_adt) if not cl))
    if not site_fns:
        raise CheckerError('anchor=no construction site of %s' % state_adt)
    found = []
    for sp_ in site_fns:
        sfn = F.fn(sp_)
        for path in E.run(sp_):
            if path.exit != 'return':
                continue
            aggs = []
            _find_adt_aggs(path.ret, state_adt, aggs)
            for e in path.events:
                if e['k'] == 'call':
                    for a_ in e.get('args', ()):
                        _find_adt_aggs(a_, state_adt, aggs)
            for a_ in aggs:
                found.append((sfn, path, a_))
    if not found:
        raise CheckerError('anchor=constructor of %s: no constructed value found on any path' % state_adt)
    for fn, path, agg_ in found:
        d = dict(agg_[3])
        if also_valid is not None and fn.get('name') != 'new':
            why = also_valid(d)
            if why:
                R.ok(rule, '%s|additional constructor: %s' % (fn['path'], why))
                continue
        for field, want in expect.items():
            got = d.get(field)
            if isinstance(want, tuple) and want[0] == 'param' and got is not None and got[0] == 'param':
                ok = True    # the caller's own argument, whatever it is called at this site
            elif want == 'none':
                ok = got == _NONE
            elif want == 'empty-queue':
                ok = got is not None and got[0] == 'agg' and got[2] == 'new'
            elif want[0] == 'variant':
                ok = got is not None and got[0] == 'agg' and got[2] == want[1]
            elif want[0] == 'variant-in':
                # (a constructor that takes the state as a parameter is judged where the futures are constructed)
                ok = got is not None and ((got[0] == 'agg' and got[2] in want[1]) or got[0] == 'param')
            elif want[0] == 'zero-id':
                ok = got is not None and got[0] == 'agg' and got[3] and got[3][0][1] == ('const', 0)
            else:
                ok = got == want
            if ok:
                R.ok(rule, '%s|%s initialised as expected' % (fn['path'], field))
            else:
                from engine import fmt_val as _fv
                R.fail(rule, [fn['path'], 'initial-state', field],
                       '%s initialises `%s` with %s (expected %s): the primitive does not start in the state the '
                       'invariants assume' % (fn['path'], field, _fv(got) if got else None, want),
                       '%s:%s' % (fn['file'], fn['line']))


# ---------------------------------------------------------------------- hand-off of a taken waker
def waker_escapes(path, vals):
    """is one of the abstract values `vals` (a waker taken out of a node) stored into memory the caller can
    see (a `&mut` out-parameter, not the state itself or a queue token) or passed to an opaque callee?  Then the
    wake-up is handed off and a rule that only recognises waking on the spot cannot judge the path."""
    for e in path.events:
        if e['k'] == 'write' and any(contains(e['val'], v) for v in vals):
            root = e['loc'][0]
            if root[0] == 'P' and root[1] != 'self':
                return e
            if root[0] == 'D':
                return e
        if e['k'] == 'call' and e.get('mode') == 'opaque' and e.get('name') not in ('wake', 'wake_by_ref', 'drop',
                                                                                  'drop_in_place'):
            if any(contains(a, v) for a in e.get('args', ()) for v in vals):
                return e
    return None


# ---------------------------------------------------------------------- fair hand-over invariants
def _own_entered(path, owns, variant):
    return any(path.facts.get(('discr', ('init', r + ('data', 'state')))) == ('eq', variant) for r in owns)


def _notified_marks(path, E=None):
    return [e for e in path.events if e['k'] == 'write' and e['loc'][0][0] == 'tok'
            and loc_endswith(e['loc'], 'state') and e['val'][0] == 'agg' and e['val'][2] == 'Notified'
            and (E is None or effective(E, path, e))]


def mutex_fair_J(E, F, methods, run):
    """J(mutex): fair & some node Notified => !is_locked.  Notification half of its induction: a waiter is marked
    Notified, on a path that can be fair, only when the path ends with the mutex known unlocked - is_locked written
    false, or untouched while it was observed false or the own node entered as the notified one (J at entry).
    (The other half - is_locked set in fair mode only by the notified head or with an empty queue - is C04.R1.)
    returns (instances, offenders[(method, path, event)])"""
    fair_v = ('init', (('P', 'self'), 'is_fair'))
    locked_v = ('init', (('P', 'self'), 'is_locked'))
    n = 0
    bad = []
    good = []
    for m in methods:
        owns = own_node_roots(F, m)
        for path in run(m['path']):
            if path.exit != 'return' or const_of(E, path.facts, fair_v) == 0:
                continue
            marks = _notified_marks(path, E)
            if not marks:
                continue
            n += 1
            lw = [e for e in path.events if e['k'] == 'write' and e['loc'][:1] == (('P', 'self'),)
                  and loc_endswith(e['loc'], 'is_locked')]
            if lw:
                ok = const_of(E, path.facts, lw[-1]['val']) == 0
                why = 'is_locked written false on the path'
            elif _own_entered(path, owns, 'Notified'):
                ok, why = True, 'own node entered as the notified one and is_locked is untouched'
            else:
                ok, why = const_of(E, path.facts, locked_v) == 0, 'is_locked observed false'
            (good if ok else bad).append((m, path, marks[0], why))
    return n, good, bad


def sem_fair_J(E, F, wk, run):
    """J(semaphore): fair & some node Notified => permits >= its required_permits.  Notification half: the walk marks
    a waiter Notified only under `available >= required` with available derived from self.permits (same test as
    C06.R5); the other half (permits shrink in fair mode only through the notified head) is C07.R1."""
    n = 0
    bad = []
    for path in run(wk['path']):
        if path.exit != 'return' or const_of(E, path.facts, ('init', (('P', 'self'), 'is_fair'))) == 0:
            continue
        for e in _notified_marks(path, E):
            n += 1
            tok = e['loc'][:1]
            req = ('init', tok + ('data', 'required_permits'))
            fits = False
            for k in path.facts:
                if isinstance(k, tuple) and k and k[0] == 'bin' and k[1] in ('Lt', 'Ge', 'Le', 'Gt'):
                    for avail in (k[2], k[3]):
                        if contains(avail, ('init', (('P', 'self'), 'permits'))) and \
                                cmp_fact(E, path.facts, 'Ge', avail, req) == 1:
                            fits = True
            if not fits:
                bad.append((wk, path, e))
    return n, bad


# ---------------------------------------------------------------------- fair: no re-queue
def entered_unqueued(path, root, initial):
    """did the own node enter the transition in its initial (never queued) state?"""
    return path.facts.get(('discr', ('init', root + ('data', 'state')))) == ('eq', initial)


def fair_no_requeue(R, E, F, m, paths, owns, rule, what, excluded=None, initial='New', fair_only=True,
                    unlinked=None, all_variants=None):
    """a queued waiter of a FIFO primitive never changes its place: (fair_only: on a path that can be fair) the own
    node is put into the queue only when it entered the transition in its initial state.  `excluded(path, root)` may
    name the invariant that makes the path infeasible (checked by the caller).  returns the number of enqueues"""
    n = 0
    for path in paths:
        if path.exit != 'return' or (fair_only and const_of(E, path.facts, ('init', (('P', 'self'), 'is_fair'))) == 0):
            continue
        for e in path.events:
            if not (e['k'] == 'qop' and e['op'] in ('add_front', 'add_back', 'insert') and e.get('node')
                    and e['node'][:1] in owns):
                continue
            n += 1
            root = e['node'][:1]
            k0 = path.facts.get(('discr', ('init', root + ('data', 'state'))))
            why = excluded(path, root) if excluded else None
            allowed = unlinked or (initial,)
            # the entry states this path admits: a known variant, or every variant not excluded by the path
            possible = None
            if k0 and k0[0] == 'eq':
                possible = {k0[1]}
            elif k0 and k0[0] == 'ne' and all_variants:
                possible = set(all_variants) - set(k0[1])
            if possible and possible <= set(allowed):
                R.ok(rule, '%s|enqueue of a %s node|%s' % (m['path'], '/'.join(sorted(possible)), path_cond(E, path)))
            elif why:
                R.ok(rule, '%s|re-queue path excluded: %s|%s' % (m['path'], why, path_cond(E, path)))
            else:
                R.fail(rule, [m['path'], 'queued-waiter-requeued', path_cond(E, path)],
                       '%s puts its own node into the queue on a path that can be a FIFO-serving %s and on which the '
                       'node did not enter in its initial state: a waiter that was already queued moves behind later arrivals '
                       '[%s]' % (m['path'], what, path_cond(E, path)), where(F, e), {'trace': trace_summary(path)})
    return n


# ---------------------------------------------------------------------- futures start in the initial node state
def futures_start_initial(C, R, cfg, state_adts, rule, any_unlinked=False):
    """Every future of these primitives is constructed with its wait node in the initial (never polled, unlinked)
    poll state and without a stored waker: whether a wait completes is decided by its first POLL, inside the lock,
    never at construction time.  Evaluated on every MIR path of every construction site.  returns #instances"""
    from specs import TYPESTATE
    from engine import NONE as _NONE, fmt_val as _fv
    F = C.facts(cfg)
    E = C.engine(cfg)
    roles = C.roles(cfg)
    n = 0
    for sp in state_adts:
        for q, (_k, data) in sorted(roles.state_structs[sp]['queues'].items()):
            initial = list(TYPESTATE[sp][q])[0]
            accepted = [v for v, linked in TYPESTATE[sp][q].items() if linked is False] if any_unlinked else [initial]
            nd = roles.node_data[data]
            for fut, info in sorted(roles.futures.items()):
                if info['data'] != data:
                    continue
                mod = sp.rsplit('::', 1)[0]
                ctors = sorted(set(f2['path'] for f2, s2, cl in scan_aggregates(F, fut)
                                   if not cl and f2['path'].lstrip('<').startswith(mod + '::')))
                for cp in ctors:
                    for path in E.run(cp):
                        if path.exit != 'return':
                            continue
                        aggs = []
                        _find_adt_aggs(path.ret, fut, aggs)
                        for a in aggs:
                            n += 1
                            node = dict(a[3]).get(info['node_field'])
                            dv = None
                            if node is not None and node[0] == 'agg':
                                dv = dict(node[3]).get('data')
                            st = dict(dv[3]).get(nd['state_field']) if dv is not None and dv[0] == 'agg' else None
                            tk = dict(dv[3]).get(nd['task_field']) if dv is not None and dv[0] == 'agg' and nd.get('task_field') else _NONE
                            if st is not None and st[0] == 'agg' and st[2] in accepted and (tk == _NONE or any_unlinked):
                                R.ok(rule, '%s|%s starts %s|%s' % (cp, fut.split('::')[-1], st[2], path_cond(E, path)))
                            else:
                                R.fail(rule, [cp, 'future-constructed-in-non-initial-state', fut.split('::')[-1]],
                                       '%s hands out %s with its wait node in state %s (accepted: %s): %s [%s]'
                                       % (cp, fut.split('::')[-1], _fv(st) if st else '?', '/'.join(accepted),
                                          'the node claims to be queued but is not' if any_unlinked else
                                          'completion is decided at construction, outside the lock and before the '
                                          'first poll', path_cond(E, path)),
                                       '%s:%s' % (F.fn(cp)['file'], F.fn(cp)['line']), {'trace': trace_summary(path)})
    return n


def _find_adt_aggs(v, adt, out, depth=0):
    if not isinstance(v, tuple) or depth > 8:
        return
    if v and v[0] == 'agg' and v[1] == adt:
        out.append(v)
        return
    for x in v:
        if isinstance(x, tuple):
            _find_adt_aggs(x, adt, out, depth + 1)


def counted_handle_sites(R, E, F, CG, rule):
    """A handle of a shared channel whose destructor decrements a handle counter (and closes / discards on reaching
    zero) must have been counted when it was made: on every returning path of every function that builds such a
    handle, the number of handles built does not exceed the increments of that side's counter on the path plus - in
    the channel constructor, which builds the shared state with the counter at 1 - one.  An uncounted handle makes an
    early destructor run the last-handle path while handles of that side are still alive.  returns #sites"""
    ARC_ = 'std::sync::Arc'
    n = 0
    for a in F.raw['adts']:
        if '::shared::' not in a['path'] or a['kind'] != 'struct':
            continue
        arc = [f for f in a['variants'][0]['fields'] if f['ty'].get('k') == 'adt' and f['ty']['path'].endswith('Arc')
               and f['ty']['args'] and f['ty']['args'][0].get('k') == 'adt' and f['ty']['args'][0].get('local')]
        if not arc:
            continue
        shared = arc[0]['ty']['args'][0]['path']
        drops = [fn for fn in F.raw['fns'] if fn.get('impl_adt') == a['path'] and (fn.get('impl_trait') or '').endswith('ops::Drop')]
        if not drops:
            continue
        side = None
        for path in E.run(drops[0]['path']):
            for e in path.events:
                if e['k'] == 'call' and e['name'] == 'fetch_sub' and e['args'] and e['args'][0][0] == 'ref':
                    cf = fields_of(e['args'][0][1])
                    side = cf[-1] if cf else side
        if side is None:
            continue    # an uncounted handle type (its destructor closes unconditionally: C11.R5 judges that)
        hname = a['path'].split('::')[-1]
        site_fns = sorted(set(CG.root_fn(fn['path']) for fn, s_, cl in scan_aggregates(F, a['path']) if not cl))
        for sp_ in site_fns:
            fn = F.fn(sp_)
            for path in E.run(sp_):
                if path.exit != 'return':
                    continue
                built = []
                _find_adt_aggs(path.ret, a['path'], built)
                for e in path.events:
                    if e['k'] == 'call' and e.get('mode') == 'opaque':
                        for x in e.get('args', ()):
                            _find_adt_aggs(x, a['path'], built)
                if not built:
                    continue
                n += 1
                adds = sum(1 for e in path.events if e['k'] == 'call' and e['name'] == 'fetch_add' and e['args']
                           and e['args'][0][0] == 'ref' and fields_of(e['args'][0][1])[-1:] == (side,)
                           and e['args'][1] == ('const', 1))
                fresh = []
                _find_adt_aggs(path.ret, shared, fresh)
                for e in path.events:
                    if e['k'] == 'call':
                        for x in e.get('args', ()):
                            _find_adt_aggs(x, shared, fresh)
                init = 1 if fresh else 0
                if len(built) <= adds + init:
                    R.ok(rule, '%s|%s built counted (%s)|%s' % (sp_, hname, 'new channel' if init else 'counter incremented',
                                                                path_cond(E, path)))
                else:
                    R.fail(rule, [sp_, 'uncounted-handle', hname],
                           '%s builds %d %s on a path that increments `%s` %d time(s)%s: the handle is not counted, so '
                           'dropping it runs the last-handle path (close, discard of buffered values) while other '
                           'handles of that side are alive [%s]' % (sp_, len(built), hname, side, adds,
                                                                    ' and creates the channel' if init else '',
                                                                    path_cond(E, path)),
                           '%s:%s' % (fn['file'], fn['line']), {'trace': trace_summary(path)})
    return n


# ---------------------------------------------------------------------- the value slot of a channel state
def _has_param(v, depth=0):
    if not isinstance(v, tuple) or depth > 8:
        return False
    if v and v[0] == 'param':
        return True
    return any(_has_param(x, depth + 1) for x in v if isinstance(x, tuple))


def slot_discipline(R, E, F, CG, state, rule, writers=('send',), may_take=True, empty_when=None):
    """Over EVERY transition of the state (its entry methods and any function outside the state layer that mutates it
    directly): the value slot is assigned only by the listed writer methods, and it is emptied (take / replace /
    mem::replace) only on a path that hands the old payload to the caller (or that knows the slot was empty);
    may_take=False: never emptied at all (broadcast flavours deliver clones)."""
    from rl import entry_methods, reaches_lock
    n = 0
    # judged at the level of the public operations (state methods inlined): a private state method such as
    # `store(outcome: Option<T>)` that both send and close go through is then seen with the argument each passes
    mod = state.rsplit('::', 1)[0] + '::'
    layer_paths = set(m['path'] for m in F.methods_of(state, inherent_only=False))
    ops = [f for f in F.raw['fns'] if f['kind'] != 'closure' and f['path'].lstrip('<').startswith(mod)
           and f['path'] not in layer_paths and f.get('impl_adt') != state
           and reaches_lock(F, CG, f)]
    if not ops:
        raise CheckerError('anchor=no public operation locks %s' % state)
    for m in ops:
        for path in E.run(m['path']):
            if path.exit != 'return':
                continue
            for e in path.events:
                loc = e.get('loc')
                if not loc or fields_of(loc)[-1:] != ('value',) or not (
                        loc[:1] == (('P', 'self'),) and m['path'] in F.alias_fns or '<locked>' in loc):
                    continue
                # (`slot.insert(v)` / `slot.replace(v)` whose old value is not used is an assignment like `slot = Some(v)`)
                assigns = e['k'] == 'replace' and e.get('val') not in (None, NONE) and not contains(path.ret, e.get('old')) \
                    and not any(c_['k'] == 'call' and c_.get('mode') == 'opaque' and any(contains(a_, e.get('old')) for a_ in c_.get('args', ()))
                                for c_ in path.events)
                if assigns or (e['k'] == 'write' and not any(t['k'] in ('take', 'replace') and t['loc'] == loc and t.get('ln') == e.get('ln')
                                                 for t in path.events)):
                    n += 1
                    oldk = E.variant_known(path.facts, e['old']) if e.get('old') is not None else None
                    if oldk is None and empty_when is not None:
                        # the property's invariant says when the slot is empty (oneshot: while is_fulfilled == false)
                        fl_ = const_of(E, path.facts, ('init', loc[:-1] + (empty_when[0],)))
                        if fl_ == empty_when[1]:
                            oldk = ('eq', 'None')
                    if e['val'] == NONE and not may_take and oldk == ('eq', 'None'):
                        R.ok(rule, '%s|None written over an empty slot' % m['path'])
                        continue
                    if e['val'] == NONE and may_take and not (e.get('old') == NONE or oldk == ('eq', 'None')):
                        R.fail(rule, [m['path'], 'slot-emptied-without-delivery'],
                               '%s overwrites the value slot with None on a path that does not know it to be empty: a '
                               'value that was accepted is discarded by the library [%s]' % (m['path'], path_cond(E, path)),
                               where(F, e), {'trace': trace_summary(path)})
                    elif e['val'] == NONE and may_take:
                        R.ok(rule, '%s|None written over an empty slot' % m['path'])
                    elif m.get('name') in writers and _has_param(e['val']):
                        R.ok(rule, '%s|slot assigned by %s with the caller\'s value' % (m['path'], m.get('name')))
                    elif (F.fn(e.get('fn') or '') or {}).get('name') in writers and _has_param(e['val']) and \
                            (F.fn(e['fn']).get('impl_adt') == state or e['fn'] in F.alias_fns):
                        # another operation that goes through the state's own send (under the guards that send has)
                        R.ok(rule, '%s|slot assigned through %s with the caller\'s value' % (m['path'], e['fn']))
                    elif e['val'] == NONE and not may_take:
                        R.fail(rule, [m['path'], 'slot-cleared'], '%s clears the value slot' % m['path'], where(F, e),
                               {'trace': trace_summary(path)})
                    elif e['val'] != NONE:
                        R.fail(rule, [m['path'], 'slot-assigned-outside-send'],
                               '%s assigns the value slot (only %s may)' % (m['path'], '/'.join(writers)), where(F, e),
                               {'trace': trace_summary(path)})
                elif e['k'] in ('take', 'replace'):
                    n += 1
                    old = e['old']
                    k = E.variant_known(path.facts, old)
                    inner = E.project(old, (('dc', 'Some'), '0'))
                    if old == NONE or k == ('eq', 'None'):
                        R.ok(rule, '%s|empties a slot known to be empty' % m['path'])
                    elif may_take and (contains(path.ret, inner) or contains(path.ret, old)):
                        R.ok(rule, '%s|slot emptied, payload handed to the caller|%s' % (m['path'], path_cond(E, path)))
                    else:
                        R.fail(rule, [m['path'], 'slot-emptied-without-delivery'],
                               '%s takes the stored value out of the slot and does not hand it to its caller: a value '
                               'that was accepted is discarded by the library [%s]' % (m['path'], path_cond(E, path)),
                               where(F, e), {'trace': trace_summary(path)})
    return n


def effective(E, path, w):
    """is this write event a real change?  A store of the value the location is already known to hold (the flag set
    through `mem::replace(&mut flag, true)` on the path where it was true) is not an effect."""
    old, val = w.get('old'), w.get('val')
    if old is None or val is None:
        return True
    if old == val:
        return False
    a, b = const_of(E, path.facts, old), const_of(E, path.facts, val)
    if a is not None and a == b:
        return False
    # a field-less enum variant stored over a value the path knows to be that variant
    if isinstance(val, tuple) and val[0] == 'agg' and not val[3]:
        k = E.variant_known(path.facts, old) if old[0] != 'agg' else ('eq', old[2])
        if k == ('eq', val[2]):
            return False
    return True
