"""Per-run context: lazily extracted fact bases per feature configuration, engines, roles."""
import os
from extract import get_facts
from facts import Facts
from engine import Engine
from rl import Roles, CallGraph


class Ctx:
    def __init__(self, tier):
        self.tier = tier
        self._facts = {}
        self._engines = {}
        self._roles = {}
        self._cg = {}
        self.extract_info = {}

    def configs(self):
        return ['std', 'alloc', 'none'] if self.tier == 'thorough' else ['std']

    def facts(self, config='std'):
        if config not in self._facts:
            p, info = get_facts(config)
            self.extract_info[config] = info
            self._facts[config] = Facts(p)
        return self._facts[config]

    def engine(self, config='std', **kw):
        if self.tier == 'thorough' and 'max_visits' not in kw and 'FI_MAX_VISITS' not in os.environ:
            kw['max_visits'] = 4      # thorough: loops unrolled three times (quick: twice)
        key = (config, tuple(sorted((k, repr(v)) for k, v in kw.items())))
        if key not in self._engines:
            self._engines[key] = Engine(self.facts(config), **kw)
        return self._engines[key]

    def roles(self, config='std'):
        if config not in self._roles:
            self._roles[config] = Roles(self.facts(config))
        return self._roles[config]

    def cg(self, config='std'):
        if config not in self._cg:
            self._cg[config] = CallGraph(self.facts(config))
        return self._cg[config]
