"""C16/L1 — probe matrix: generated one-assertion crates, rustc is the oracle.

The library is built (type-checked and compiled, never run) from /repo's
current tree; every probe is a tiny crate that names one public type as an
external user would and asserts one marker trait.  A must-not-compile probe
passes only if every error is E0277 about the expected trait; each subject's
all-admissible instantiation is a must-compile probe (the compiling twin)."""
import glob
import hashlib
import json
import os
import shutil
import subprocess
import tempfile
from concurrent.futures import ThreadPoolExecutor

from extract import work_dir, REPO, CONFIGS
WORK = work_dir(REPO)
from lib import CheckerError

PRELUDE = '''#![allow(dead_code, unused_imports)]
extern crate futures_intrusive;
extern crate lock_api;
use futures_intrusive::*;
use std::rc::Rc;
use std::cell::Cell;

pub struct TsLock(std::sync::atomic::AtomicBool);
unsafe impl lock_api::RawMutex for TsLock {
    const INIT: TsLock = TsLock(std::sync::atomic::AtomicBool::new(false));
    type GuardMarker = lock_api::GuardSend;
    fn lock(&self) { while !self.try_lock() {} }
    fn try_lock(&self) -> bool {
        !self.0.swap(true, std::sync::atomic::Ordering::Acquire)
    }
    unsafe fn unlock(&self) { self.0.store(false, std::sync::atomic::Ordering::Release) }
}

/// a user-written ring buffer that is !Send (shares an Rc with its creator)
pub struct RcBuf(Rc<Cell<usize>>, Option<i32>);
impl futures_intrusive::buffer::RingBuf for RcBuf {
    type Item = i32;
    fn new() -> Self { RcBuf(Rc::new(Cell::new(0)), None) }
    fn with_capacity(_c: usize) -> Self { Self::new() }
    fn capacity(&self) -> usize { 1 }
    fn len(&self) -> usize { self.1.is_some() as usize }
    fn can_push(&self) -> bool { self.1.is_none() }
    fn push(&mut self, v: i32) { self.1 = Some(v) }
    fn pop(&mut self) -> i32 { self.1.take().unwrap() }
}
type SyncOnly = std::sync::MutexGuard<'static, i32>;

fn assert_send<X: Send>() {}
fn assert_sync<X: Sync>() {}
fn assert_unpin<X: Unpin>() {}
fn assert_timer<X: futures_intrusive::timer::Timer>() {}
fn assert_local_timer<X: futures_intrusive::timer::LocalTimer>() {}
'''

# payload witnesses: name -> (type, Send, Sync, Clone)
WIT = {
    'i32': ('i32', True, True, True),
    'rc': ('Rc<i32>', False, False, True),
    'cell': ('Cell<i32>', True, False, True),
    'synconly': ('SyncOnly', False, True, False),
}

# subjects: (id, type template, category, needs, configs)
#   category: prim = Send&Sync iff payloads Send; fut = Send iff payloads Send (Sync not part of the
#   contract); guard = Send iff payload Send, Sync iff payload Sync; buf = plain auto traits of T;
#   node: embeds a wait node (must be !Unpin)
S = 'futures_intrusive::sync::'
CH = 'futures_intrusive::channel::'
SH = 'futures_intrusive::channel::shared::'
TM = 'futures_intrusive::timer::'
BF = 'futures_intrusive::buffer::'
SUBJECTS = [
    ('mutex', S + 'GenericMutex<{M}, {T}>', 'prim', '', 'none'),
    ('mutex-guard', S + "GenericMutexGuard<'static, {M}, {T}>", 'guard', '', 'none'),
    ('mutex-lock-future', S + "GenericMutexLockFuture<'static, {M}, {T}>", 'fut node', '', 'none'),
    ('semaphore', S + 'GenericSemaphore<{M}>', 'prim', '', 'none'),
    ('semaphore-releaser', S + "GenericSemaphoreReleaser<'static, {M}>", 'prim', '', 'none'),
    ('semaphore-future', S + "GenericSemaphoreAcquireFuture<'static, {M}>", 'fut node', '', 'none'),
    ('shared-semaphore', S + 'GenericSharedSemaphore<{M}>', 'prim', '', 'alloc'),
    ('shared-semaphore-releaser', S + 'GenericSharedSemaphoreReleaser<{M}>', 'prim', '', 'alloc'),
    ('shared-semaphore-future', S + 'GenericSharedSemaphoreAcquireFuture<{M}>', 'fut node', '', 'alloc'),
    ('event', S + 'GenericManualResetEvent<{M}>', 'prim', '', 'none'),
    ('event-future', S + "GenericWaitForEventFuture<'static, {M}>", 'fut node', '', 'none'),
    ('channel', CH + 'GenericChannel<{M}, {T}, {A}>', 'prim', 'buf', 'none'),
    ('channel-stream', CH + "ChannelStream<'static, {M}, {T}, {A}>", 'fut node', 'buf', 'none'),
    ('channel-recv-future', CH + "ChannelReceiveFuture<'static, {M}, {T}>", 'fut node', '', 'none'),
    ('channel-send-future', CH + "ChannelSendFuture<'static, {M}, {T}>", 'fut node', '', 'none'),
    ('oneshot', CH + 'GenericOneshotChannel<{M}, {T}>', 'prim', '', 'none'),
    ('oneshot-broadcast', CH + 'GenericOneshotBroadcastChannel<{M}, {T}>', 'prim', '', 'none'),
    ('state-broadcast', CH + 'GenericStateBroadcastChannel<{M}, {T}>', 'prim', '', 'none'),
    ('state-recv-future', CH + "StateReceiveFuture<'static, {M}, {T}>", 'fut node', 'clone', 'none'),
    ('shared-sender', SH + 'GenericSender<{M}, {T}, {A}>', 'prim', 'buf', 'alloc'),
    ('shared-receiver', SH + 'GenericReceiver<{M}, {T}, {A}>', 'prim', 'buf', 'alloc'),
    ('shared-stream', SH + 'SharedStream<{M}, {T}, {A}>', 'fut node', 'buf', 'alloc'),
    ('shared-recv-future', SH + 'ChannelReceiveFuture<{M}, {T}>', 'fut node', '', 'alloc'),
    ('shared-send-future', SH + 'ChannelSendFuture<{M}, {T}>', 'fut node', '', 'alloc'),
    ('shared-oneshot-sender', SH + 'GenericOneshotSender<{M}, {T}>', 'prim', '', 'alloc'),
    ('shared-oneshot-receiver', SH + 'GenericOneshotReceiver<{M}, {T}>', 'prim', '', 'alloc'),
    ('shared-broadcast-sender', SH + 'GenericOneshotBroadcastSender<{M}, {T}>', 'prim', 'clone', 'alloc'),
    ('shared-broadcast-receiver', SH + 'GenericOneshotBroadcastReceiver<{M}, {T}>', 'prim', 'clone', 'alloc'),
    ('shared-state-sender', SH + 'GenericStateSender<{M}, {T}>', 'prim', 'clone', 'alloc'),
    ('shared-state-receiver', SH + 'GenericStateReceiver<{M}, {T}>', 'prim', 'clone', 'alloc'),
    ('shared-state-recv-future', SH + 'StateReceiveFuture<{M}, {T}>', 'fut node', 'clone', 'alloc'),
    ('timer-service', TM + 'GenericTimerService<{M}>', 'prim', '', 'none'),
    ('timer-future', TM + "TimerFuture<'static>", 'fut node', '', 'none'),
    ('array-buf', BF + 'ArrayBuf<{T}, [{T}; 2]>', 'buf', '', 'none'),
    ('fixed-heap-buf', BF + 'FixedHeapBuf<{T}>', 'buf', '', 'alloc'),
    ('growing-heap-buf', BF + 'GrowingHeapBuf<{T}>', 'buf', '', 'alloc'),
]

# local flavours: aliases bound to NoopLock (which is not nameable from outside): never Send / Sync
LOCALS = [
    ('local-mutex', S + 'LocalMutex<i32>', 'none'),
    ('local-mutex-guard', S + "LocalMutexGuard<'static, i32>", 'none'),
    ('local-mutex-lock-future', S + "LocalMutexLockFuture<'static, i32>", 'none'),
    ('local-semaphore', S + 'LocalSemaphore', 'none'),
    ('local-semaphore-releaser', S + "LocalSemaphoreReleaser<'static>", 'none'),
    ('local-semaphore-future', S + "LocalSemaphoreAcquireFuture<'static>", 'none'),
    ('local-event', S + 'LocalManualResetEvent', 'none'),
    ('local-event-future', S + "LocalWaitForEventFuture<'static>", 'none'),
    ('local-channel', CH + 'LocalChannel<i32, [i32; 2]>', 'none'),
    ('local-unbuffered-channel', CH + 'LocalUnbufferedChannel<i32>', 'none'),
    ('local-oneshot', CH + 'LocalOneshotChannel<i32>', 'none'),
    ('local-oneshot-broadcast', CH + 'LocalOneshotBroadcastChannel<i32>', 'none'),
    ('local-state-broadcast', CH + 'LocalStateBroadcastChannel<i32>', 'none'),
    ('local-timer-service', TM + 'LocalTimerService', 'none'),
    ('local-timer-future', TM + "LocalTimerFuture<'static>", 'none'),
]

# what the suite's *_are_send tests and the docs assert for Send payloads (std aliases)
STD_POSITIVE = [
    ('std-mutex', S + 'Mutex<i32>', ['Send', 'Sync']),
    ('std-mutex-lock-future', S + "MutexLockFuture<'static, i32>", ['Send']),
    ('std-mutex-guard', S + "MutexGuard<'static, i32>", ['Send', 'Sync']),
    ('std-semaphore', S + 'Semaphore', ['Send', 'Sync']),
    ('std-semaphore-future', S + "SemaphoreAcquireFuture<'static>", ['Send']),
    ('std-shared-semaphore', S + 'SharedSemaphore', ['Send', 'Sync']),
    ('std-shared-semaphore-future', S + 'SharedSemaphoreAcquireFuture', ['Send']),
    ('std-event', S + 'ManualResetEvent', ['Send', 'Sync']),
    ('std-event-future', S + "WaitForEventFuture<'static>", ['Send']),
    ('std-channel', CH + 'Channel<i32, [i32; 2]>', ['Send', 'Sync']),
    ('std-unbuffered-channel', CH + 'UnbufferedChannel<i32>', ['Send', 'Sync']),
    ('std-oneshot', CH + 'OneshotChannel<i32>', ['Send', 'Sync']),
    ('std-oneshot-broadcast', CH + 'OneshotBroadcastChannel<i32>', ['Send', 'Sync']),
    ('std-state-broadcast', CH + 'StateBroadcastChannel<i32>', ['Send', 'Sync']),
    ('std-sender', SH + 'Sender<i32>', ['Send', 'Sync']),
    ('std-receiver', SH + 'Receiver<i32>', ['Send', 'Sync']),
    ('std-oneshot-sender', SH + 'OneshotSender<i32>', ['Send', 'Sync']),
    ('std-oneshot-receiver', SH + 'OneshotReceiver<i32>', ['Send', 'Sync']),
    ('std-broadcast-sender', SH + 'OneshotBroadcastSender<i32>', ['Send', 'Sync']),
    ('std-broadcast-receiver', SH + 'OneshotBroadcastReceiver<i32>', ['Send', 'Sync']),
    ('std-state-sender', SH + 'StateSender<i32>', ['Send', 'Sync']),
    ('std-state-receiver', SH + 'StateReceiver<i32>', ['Send', 'Sync']),
    ('std-timer-service', TM + 'TimerService', ['Send', 'Sync']),
    ('std-timer-future', TM + "TimerFuture<'static>", ['Send']),
]

CFG_RANK = {'none': 0, 'alloc': 1, 'std': 2}
TRAIT_MSG = {'Send': 'cannot be sent between threads safely',
             'Sync': 'cannot be shared between threads safely',
             'Unpin': 'cannot be unpinned'}


def build_lib(config):
    tag = hashlib.sha256(os.path.abspath(REPO).encode()).hexdigest()[:6]
    tgt = os.path.join(WORK, 'tgt-probe-%s-%s' % (config, tag))
    env = dict(os.environ, CARGO_TARGET_DIR=tgt, CARGO_NET_OFFLINE='true', RUSTFLAGS='-Awarnings')
    r = subprocess.run(['cargo', 'build', '--offline', '--lib'] + CONFIGS[config], cwd=REPO, env=env,
                       stdout=subprocess.PIPE, stderr=subprocess.STDOUT, text=True)
    if r.returncode != 0:
        raise CheckerError('probe matrix: cargo build (%s) of the current tree failed:\n%s' % (config, r.stdout[-2000:]))
    rlib = os.path.join(tgt, 'debug', 'libfutures_intrusive.rlib')
    deps = os.path.join(tgt, 'debug', 'deps')
    la = sorted(glob.glob(os.path.join(deps, 'liblock_api-*.rlib')))
    if not os.path.exists(rlib) or not la:
        raise CheckerError('probe matrix: rlib not found after build')
    return rlib, deps, la[-1]


def gen_probes(config, tier):
    """-> list of (probe id, assertion line, expect_ok, trait)"""
    out = []
    rank = CFG_RANK[config]
    wits = ['i32', 'rc'] if tier == 'quick' else ['i32', 'rc', 'cell', 'synconly']
    for sid, tmpl, cat, needs, mincfg in SUBJECTS:
        if CFG_RANK[mincfg] > rank:
            continue
        has_t = '{T}' in tmpl
        has_a = '{A}' in tmpl
        combos = []
        for w in (wits if has_t else ['i32']):
            ty, wsend, wsync, wclone = WIT[w]
            if 'clone' in needs and not wclone:
                continue
            if has_a:
                # array buffer over the payload, and (i32 payload only) the !Send user buffer
                combos.append((w, 'futures_intrusive::buffer::ArrayBuf<%s, [%s; 2]>' % (ty, ty), True))
                if w == 'i32':
                    combos.append((w, 'RcBuf', False))
            else:
                combos.append((w, None, True))
        for w, abuf, asend in combos:
            ty, wsend, wsync, wclone = WIT[w]
            t = tmpl.replace('{M}', 'TsLock').replace('{T}', ty)
            if abuf:
                t = t.replace('{A}', abuf)
            inst = '%s[%s%s]' % (sid, w, ',rcbuf' if abuf == 'RcBuf' else '')
            payload_send = (wsend if has_t else True) and asend
            if 'prim' in cat:
                exp = {'Send': payload_send, 'Sync': payload_send}
            elif 'fut' in cat:
                exp = {'Send': payload_send}
            elif 'guard' in cat:
                exp = {'Send': wsend, 'Sync': wsync}
            else:  # buf
                exp = {'Send': wsend, 'Sync': wsync}
            for tr, ok in exp.items():
                out.append(('%s:%s' % (inst, tr), 'assert_%s::<%s>();' % (tr.lower(), t), ok, tr))
            if 'node' in cat and w == 'i32' and abuf != 'RcBuf':
                out.append(('%s:Unpin' % inst, 'assert_unpin::<%s>();' % t, False, 'Unpin'))
            elif 'prim' in cat and w == 'i32' and abuf != 'RcBuf' and sid in ('mutex', 'semaphore', 'channel'):
                # control: the Unpin assertion itself is well-formed (compiles for a non-node type)
                out.append(('%s:Unpin(control)' % inst, 'assert_unpin::<%s>();' % t, True, 'Unpin'))
    for sid, ty, mincfg in LOCALS:
        if CFG_RANK[mincfg] > rank:
            continue
        for tr in ('Send', 'Sync'):
            if sid == 'local-mutex-guard' and tr == 'Sync':
                # through &Guard only Deref (-> &T) is reachable, whatever the lock: Sync follows the
                # payload (i32: Sync), exactly as for the thread-safe flavour (see DESIGN.md section 8)
                out.append(('%s:%s' % (sid, tr), 'assert_%s::<%s>();' % (tr.lower(), ty), True, tr))
                continue
            out.append(('%s:%s' % (sid, tr), 'assert_%s::<%s>();' % (tr.lower(), ty), False, tr))
        if 'future' in sid:
            out.append(('%s:Unpin' % sid, 'assert_unpin::<%s>();' % ty, False, 'Unpin'))
    # TimerFuture is Send without any bound of its own: the only gate is `impl Timer for GenericTimerService<M>
    # where M: Sync`.  A local (NoopLock) service must not implement Timer; LocalTimer is the compiling twin.
    out.append(('local-timer-service:Timer', 'assert_timer::<%sLocalTimerService>();' % TM, False, 'Sync'))
    out.append(('local-timer-service:LocalTimer(control)', 'assert_local_timer::<%sLocalTimerService>();' % TM,
                True, 'Sync'))
    out.append(('timer-service[TsLock]:Timer(control)', 'assert_timer::<%sGenericTimerService<TsLock>>();' % TM,
                True, 'Sync'))
    if config == 'std':
        for sid, ty, trs in STD_POSITIVE:
            for tr in trs:
                out.append(('%s:%s' % (sid, tr), 'assert_%s::<%s>();' % (tr.lower(), ty), True, tr))
    return out


def compile_probe(args):
    d, idx, line, rlib, deps, lockapi = args
    src = os.path.join(d, 'p%d.rs' % idx)
    with open(src, 'w') as f:
        f.write(PRELUDE + '\npub fn probe() {\n    ' + line + '\n}\n')
    cmd = ['rustc', '--edition', '2018', '--crate-type', 'lib', '--emit=metadata', '--error-format=json',
           '--crate-name', 'p%d' % idx, '-o', os.path.join(d, 'p%d.rmeta' % idx),
           '--extern', 'futures_intrusive=' + rlib, '--extern', 'lock_api=' + lockapi,
           '-L', 'dependency=' + deps, '-A', 'warnings', src]
    r = subprocess.run(cmd, stdout=subprocess.PIPE, stderr=subprocess.PIPE, text=True)
    errs = []
    for l in r.stderr.splitlines():
        try:
            j = json.loads(l)
        except ValueError:
            continue
        if j.get('level') == 'error' and j.get('code'):
            errs.append((j['code']['code'], j.get('message', '')))
        elif j.get('level') == 'error' and 'aborting' not in j.get('message', ''):
            errs.append((None, j.get('message', '')))
    return r.returncode, errs


def run(C, R):
    for cfg in C.configs():
        rlib, deps, lockapi = build_lib(cfg)
        probes = gen_probes(cfg, C.tier)
        d = tempfile.mkdtemp(prefix='probes-', dir=WORK)
        try:
            jobs = [(d, i, p[1], rlib, deps, lockapi) for i, p in enumerate(probes)]
            with ThreadPoolExecutor(max_workers=16) as ex:
                results = list(ex.map(compile_probe, jobs))
        finally:
            shutil.rmtree(d, ignore_errors=True)
        npos = nneg = 0
        for (pid, line, expect_ok, tr), (rc, errs) in zip(probes, results):
            subj = '%s|%s' % (cfg, pid)
            if expect_ok:
                npos += 1
                if rc == 0:
                    R.ok('C16.L1', subj + '|compiles',
                         {'probe': line, 'config': cfg, 'expected': 'compiles', 'rustc': 'accepted'})
                else:
                    R.fail('C16.L1', [pid, 'must-compile'],
                           'probe `%s` must compile (documented / Send-payload contract) but rustc rejects it: %s'
                           % (line, errs[:1]), 'probe[%s]' % cfg)
            else:
                nneg += 1
                accept = [TRAIT_MSG['Unpin']] if tr == 'Unpin' else [TRAIT_MSG['Send'], TRAIT_MSG['Sync']]
                wrong = [e for e in errs if e[0] != 'E0277' or not any(a in e[1] for a in accept)]
                if rc == 0:
                    R.fail('C16.L1', [pid, 'must-not-compile'],
                           'probe `%s` must NOT compile (%s of an unsound instantiation) but rustc accepts it'
                           % (line, tr), 'probe[%s]' % cfg)
                elif wrong or not errs:
                    raise CheckerError('probe scaffolding: `%s` fails for another reason than %s: %s' % (
                        line, tr, (wrong or errs)[:2]))
                else:
                    R.ok('C16.L1', subj + '|rejected',
                         {'probe': line, 'config': cfg, 'expected': 'E0277 (%s)' % tr, 'rustc': errs[0][1][:90]})
        R.floor('C16.L1 must-compile-probes[%s]' % cfg, npos, 20)
        R.floor('C16.L1 must-not-compile-probes[%s]' % cfg, nneg, 30)
