"""Hand-confirmed tables (the oracle's frozen part).  Every entry was confirmed
by reading the enum's doc comments and every match arm that handles it."""

# linked-ness of a node per poll state:  True = in the queue, False = not in
# the queue, 'fair' = in the queue iff the primitive is fair.
TYPESTATE = {
    'sync::mutex::MutexState': {
        'waiters': {'New': False, 'Waiting': True, 'Notified': 'fair', 'Done': False},
    },
    'sync::semaphore::SemaphoreState': {
        'waiters': {'New': False, 'Waiting': True, 'Notified': 'fair', 'Done': False},
    },
    'sync::manual_reset_event::EventState': {
        'waiters': {'New': False, 'Waiting': True, 'Done': False},
    },
    'channel::mpmc::ChannelState': {
        'receive_waiters': {'Unregistered': False, 'Registered': True, 'Notified': False},
        'send_waiters': {'Unregistered': False, 'Registered': True, 'SendComplete': False},
    },
    'channel::oneshot::ChannelState': {
        'waiters': {'Unregistered': False, 'Registered': True, 'Notified': False},
    },
    'channel::oneshot_broadcast::ChannelState': {
        'waiters': {'Unregistered': False, 'Registered': True, 'Notified': False},
    },
    'channel::state_broadcast::ChannelState': {
        'waiters': {'Unregistered': False, 'Registered': True},
    },
    'timer::timer::TimerState': {
        'waiters': {'Unregistered': False, 'Registered': True, 'Expired': False},
    },
}

# The eight lock-protected state structs (floor for role discovery).
STATE_STRUCT_FLOOR = 8
QUEUE_FLOOR = 9
FUTURE_FLOOR = 11

# lock_api::Mutex methods that bypass the lock (C01.I5): zero expected.
LOCK_BYPASS = ('data_ptr', 'force_unlock', 'force_unlock_fair', 'raw', 'make_guard_unchecked', 'into_inner',
               'get_mut', 'leak', 'bump', 'unlocked', 'unlocked_fair')

# name of the fairness flag in the two primitives that have one
FAIR_FIELD = 'is_fair'
