"""T3 — typestate rule: per path and per node (own node or queue token),
   linked(final poll state, fairness) == membership after the path's queue ops,
assuming the same at entry (inductive invariant of C01)."""
from rl import (fields_of, fmt_loc, fmt_val, path_cond, trace_summary, where, NODE_ADTS)
from specs import TYPESTATE, FAIR_FIELD


def _variant_of_value(v):
    if v[0] == 'agg':
        return v[2]
    if v[0] == 'aggv':
        return v[1]
    return None


def _own_nodes(F, fn):
    """param name -> node data adt, for params of type &mut ListNode<X>/HeapNode<X>"""
    names = {}
    for d in fn['debug']:
        if not d['place']['p']:
            names.setdefault(d['place']['l'], d['name'])
    out = {}
    for i in range(1, fn['arg_count'] + 1):
        t = fn['locals'][i]['ty']
        if t.get('k') == 'ref' and t['ty'].get('k') == 'adt' and t['ty']['path'] in NODE_ADTS:
            d = t['ty']['args'][0]
            out[names.get(i, 'arg%d' % i)] = d['path'] if d.get('k') == 'adt' else d.get('str')
        else:
            from common import bundle_nodes
            out.update(bundle_nodes(F, t))
    return out


def check_typestate(R, E, F, roles, state_adt, fn, paths, rule='C01.I1', only_fair=False):
    table = TYPESTATE.get(state_adt)
    if table is None:
        from lib import CheckerError
        raise CheckerError('anchor=typestate-table missing for state struct %s' % state_adt)
    sinfo = roles.state_structs[state_adt]
    queues = sinfo['queues']
    for q in queues:
        if q not in table:
            from lib import CheckerError
            raise CheckerError('anchor=typestate-table has no entry for queue %s.%s' % (state_adt, q))
    data_to_queue = {d: q for q, (_k, d) in queues.items()}
    own = _own_nodes(F, fn)
    uses_fair = any('fair' in t.values() for t in table.values())
    nfail = 0
    for pi, path in enumerate(paths):
        # ---- nodes touched on this path
        nodes = {}
        for e in path.events:
            if e['k'] == 'qop' and e.get('node') is not None and e.get('queue') is not None:
                root = e['node'][:1]
                qf = fields_of(e['queue'])
                qname = qf[-1] if qf else None
                if qname not in table:
                    R.fail(rule, [fn['path'], 'unknown-queue', fmt_loc(e['queue'])],
                           'queue operation on a list that is not a queue field of %s' % state_adt,
                           where(F, e))
                    continue
                if root[0][0] == 'tok':
                    nodes.setdefault(root, {'queue': qname, 'own': False, 'born': e['eid']})
                elif root[0][0] == 'P' and root[0][1] in own:
                    nodes.setdefault(root, {'queue': qname, 'own': True})
                else:
                    R.fail(rule, [fn['path'], 'foreign-node', fmt_loc(e['node'])],
                           'queue operation %s on a node that is neither the own node nor a queue token'
                           % e['op'], where(F, e))
        for name, d in own.items():
            root = (('P', name),)
            if root not in nodes and d in data_to_queue:
                nodes[root] = {'queue': data_to_queue[d], 'own': True}
        if not nodes:
            continue
        fair_opts = [None]
        if uses_fair:
            k = E.known(path.facts, ('init', (('P', 'self'), FAIR_FIELD)))
            fair_opts = [bool(k[1])] if k and k[0] == 'eq' else [True, False]
            if only_fair:
                # the instance of the rule that belongs to a fairness property: unfair paths are C01's business
                fair_opts = [f for f in fair_opts if f]
                if not fair_opts:
                    continue
        for root, info in nodes.items():
            qname = info['queue']
            tab = table[qname]
            data = queues[qname][1]
            sf = roles.node_data.get(data, {}).get('state_field')
            if sf is None:
                from lib import CheckerError
                raise CheckerError('anchor=poll-state field of %s not found' % data)
            state_loc = root + ('data', sf)
            k0 = path.facts.get(('discr', ('init', state_loc)))
            variants = list(tab.keys())
            if k0:
                if k0[0] == 'eq':
                    variants = [v for v in variants if v == k0[1]]
                else:
                    variants = [v for v in variants if v not in k0[1]]
            # unknown variant names in facts -> the enum gained a variant the table does not know
            enum = roles.node_data[data]['state_enum']
            for v in E.variants_of(enum):
                if v not in tab:
                    from lib import CheckerError
                    raise CheckerError('anchor=typestate-table: enum %s has variant %s unknown to the table'
                                       % (enum, v))
            feasible = 0
            problems = []
            for fair in fair_opts:
                def linked(var):
                    x = tab[var]
                    return fair if x == 'fair' else x
                for v0 in variants:
                    if not info['own'] and not linked(v0):
                        continue  # a node obtained from the queue is linked (invariant at entry)
                    m = 1 if linked(v0) else 0
                    if not info['own']:
                        m = 1
                    s = v0
                    bad = None
                    infeasible = False
                    for e in path.events:
                        if e['k'] == 'write' and e['loc'] == state_loc:
                            nv = _variant_of_value(e['val'])
                            if nv is None:
                                bad = ('opaque-state-write', e)
                                break
                            s = nv
                        elif e['k'] == 'qop' and e.get('node') is not None and e['node'][:1] == root:
                            op = e['op']
                            if op in ('add_front', 'insert'):
                                if m == 1:
                                    bad = ('double-link', e)
                                    break
                                m = 1
                            elif op == 'remove':
                                if 'ret' in e:
                                    r = E.known(path.facts, e['ret'])
                                    if r and r[0] == 'eq':
                                        if bool(r[1]) != (m == 1):
                                            infeasible = True
                                            break
                                    m = 0
                                else:
                                    if m == 0:
                                        bad = ('heap-remove-of-non-member', e)
                                        break
                                    m = 0
                            elif op in ('remove_last', 'remove_first', 'drain', 'reverse_drain'):
                                if m == 0:
                                    infeasible = True
                                    break
                                m = 0
                    if infeasible:
                        continue
                    feasible += 1
                    if bad is None and path.exit in ('return', 'loopbound'):
                        if (1 if linked(s) else 0) != m:
                            bad = ('state-membership-mismatch', None,
                                   'final state %s is %s but the node is %s (entry state %s%s)' % (
                                       s, 'a linked state' if linked(s) else 'an unlinked state',
                                       'in the queue' if m else 'not in the queue', v0,
                                       '' if fair is None else ', fair=%s' % fair)
                                   + (' [at the loop head after two full iterations]' if path.exit == 'loopbound' else ''))
                    if bad is None and path.exit == 'panic':
                        # a feasible panic on a failed unlink: the node was not a member
                        for e in path.events:
                            if e['k'] == 'qop' and e['op'] == 'remove' and e.get('node') is not None \
                                    and e['node'][:1] == root and 'ret' in e:
                                r = E.known(path.facts, e['ret'])
                                if r and r[0] == 'eq' and not r[1]:
                                    bad = ('unlink-of-non-member-panics', e)
                                elif r and r[0] == 'eq' and r[1]:
                                    # the unlink succeeded on this (feasible) path and the function panics anyway
                                    nxt = [x for x in path.events[path.events.index(e):] if x['k'] == 'panic']
                                    if nxt and nxt[0].get('what') != 'unwrap(None)':
                                        bad = ('panics-although-unlink-succeeded', e)
                    if bad:
                        problems.append((fair, v0, bad))
            role = 'own:' + root[0][1] if info['own'] else 'token:' + qname
            if feasible == 0:
                R.skip_infeasible()
                continue
            if problems:
                fair, v0, bad = problems[0]
                kind = bad[0]
                e = bad[1]
                msg = bad[2] if len(bad) > 2 else '%s on %s' % (kind, role)
                R.fail(rule, [fn['path'], role, kind, 'entry=%s' % v0, 'fair=%s' % fair],
                       '%s: %s [%s]' % (fn['path'], msg, path_cond(E, path)),
                       where(F, e) if e else '%s:%s' % (fn['file'], fn['line']),
                       {'trace': trace_summary(path), 'blocks': path.trace[:200]})
                nfail += 1
            else:
                R.ok(rule, '%s|%s|%s' % (fn['path'], role, path_cond(E, path)),
                     {'function': fn['path'], 'node': role, 'path_condition': path_cond(E, path),
                      'events': trace_summary(path, 12)})
    return nfail
