"""Rule helper library: role discovery (from types, not names), call graph,
path queries.  Shared by all property modules."""
from engine import Engine, fmt_loc, fmt_val, is_agg, OPTION, POLL, NONE, PANIC, LIST_ADT, HEAP_ADT, QUEUE_ADTS
from facts import AnchorMissing, ty_adt_paths, ty_mentions_param

NODE_ADTS = ('intrusive_double_linked_list::ListNode', 'intrusive_pairing_heap::HeapNode')
LOCK_MUTEX = 'lock_api::Mutex'
ARC = 'std::sync::Arc'
WAKER = 'std::task::Waker'


# ------------------------------------------------------------------ roles
class Roles:
    """Discovers, from the type-checked program, the state structs (payload of
    a lock_api::Mutex field), their queues, node data types and the futures
    (ADTs embedding a node)."""

    def __init__(self, F):
        self.F = F
        self.state_structs = {}   # state adt path -> {'owners': [(adt, field)], 'queues': {field: (kind, data_adt)}}
        self.futures = {}         # future adt path -> {'node_field':..., 'node_kind':..., 'data':..., 'handle_field':...}
        self.node_data = {}       # data adt path -> {'state_field':..., 'state_enum':..., 'task_field':...}
        self._discover()

    def _find_mutex_payload(self, t):
        """returns the state ADT path if t is Mutex<R, S> or Arc<Mutex<R,S>>"""
        if t.get('k') != 'adt':
            return None
        if t['path'] == LOCK_MUTEX and len(t['args']) == 2:
            s = t['args'][1]
            if s.get('k') == 'adt' and s.get('local'):
                return s['path']
            return None
        if t['path'] == ARC and t['args']:
            return self._find_mutex_payload(t['args'][0])
        return None

    def _discover(self):
        F = self.F
        for a in F.raw['adts']:
            for v in a['variants']:
                for f in v['fields']:
                    sp = self._find_mutex_payload(f['ty'])
                    if sp:
                        self.state_structs.setdefault(sp, {'owners': [], 'queues': {}})['owners'].append(
                            (a['path'], f['name']))
        for sp, info in self.state_structs.items():
            a = F.adt(sp)
            for f in a['variants'][0]['fields']:
                t = f['ty']
                if t.get('k') == 'adt' and t['path'] in QUEUE_ADTS and t['args']:
                    d = t['args'][0]
                    info['queues'][f['name']] = ('heap' if t['path'] == HEAP_ADT else 'list',
                                                 d['path'] if d.get('k') == 'adt' else d.get('str'))
        for a in F.raw['adts']:
            if a['kind'] != 'struct':
                continue
            for f in a['variants'][0]['fields']:
                t = f['ty']
                if t.get('k') == 'adt' and t['path'] in NODE_ADTS and t['args']:
                    d = t['args'][0]
                    handle = None
                    for g in a['variants'][0]['fields']:
                        gt = g['ty']
                        if gt.get('k') == 'adt' and gt['path'] == OPTION and g['name'] != f['name']:
                            handle = g['name']
                    self.futures[a['path']] = {
                        'node_field': f['name'], 'node_kind': 'heap' if 'Heap' in t['path'] else 'list',
                        'data': d['path'] if d.get('k') == 'adt' else d.get('str'), 'handle_field': handle,
                        'handle_ty': next((g['ty'] for g in a['variants'][0]['fields'] if g['name'] == handle), None),
                    }
        datas = set(i['data'] for i in self.futures.values())
        for sp, info in self.state_structs.items():
            for q, (_k, d) in info['queues'].items():
                datas.add(d)
        for d in datas:
            a = F.adts.get(d)
            if a is None:
                continue
            state_field = state_enum = task_field = None
            for f in a['variants'][0]['fields']:
                t = f['ty']
                if t.get('k') == 'adt' and t.get('local') and F.adts.get(t['path'], {}).get('kind') == 'enum':
                    state_field, state_enum = f['name'], t['path']
                if t.get('k') == 'adt' and t['path'] == OPTION and t['args'] and t['args'][0].get('path') == WAKER:
                    task_field = f['name']
            self.node_data[d] = {'state_field': state_field, 'state_enum': state_enum, 'task_field': task_field}

    def state_of_queue_data(self, data_adt):
        out = []
        for sp, info in self.state_structs.items():
            for q, (_k, d) in info['queues'].items():
                if d == data_adt:
                    out.append((sp, q))
        return out


# ------------------------------------------------------------- call graph
def _fn_items(x, out, depth=0):
    """fn-item constants ({'const': .., 'fn': {...}}) inside statements / call arguments"""
    if depth > 8:
        return
    if isinstance(x, dict):
        if 'const' in x and isinstance(x.get('fn'), dict):
            out.append(x['fn'])
            return
        for v in x.values():
            _fn_items(v, out, depth + 1)
    elif isinstance(x, list):
        for v in x:
            _fn_items(v, out, depth + 1)


class CallGraph:
    def __init__(self, F):
        self.F = F
        self.callees = {}   # fn path -> list of (callee rpath, ci, ln, bb)
        self.callers = {}   # callee rpath -> list of (caller path, ln)
        for fn in F.raw['fns']:
            lst = []
            for bi, b in enumerate(fn['blocks']):
                t = b['term']
                if t['k'] != 'call' or 'fn' not in t['func']:
                    continue
                ci = t['func']['fn']
                r = ci.get('resolved')
                rp = r['path'] if r else ci['path']
                lst.append((rp, ci, t['ln'], bi, b['cleanup']))
                self.callers.setdefault(rp, []).append((fn['path'], t['ln']))
            # a function passed as a value (`iter.for_each(Self::helper)`, `opt.map(wake_if_some)`) is called by
            # whoever receives it: count the reference as a call edge of the referencing function
            for bi, b in enumerate(fn['blocks']):
                refs = []
                _fn_items(b['stmts'], refs)
                t = b['term']
                if t['k'] == 'call':
                    _fn_items(t.get('args'), refs)
                for ci in refs:
                    r = ci.get('resolved')
                    rp = r['path'] if r else ci['path']
                    if rp in F.fns:
                        lst.append((rp, ci, t.get('ln'), bi, b['cleanup']))
                        self.callers.setdefault(rp, []).append((fn['path'], t.get('ln')))
            self.callees[fn['path']] = lst

    def root_fn(self, path):
        """closures are attributed to their parent function"""
        fn = self.F.fn(path)
        while fn is not None and fn['kind'] == 'closure':
            path = fn['parent']
            fn = self.F.fn(path)
        return path

    def callers_of(self, path):
        return [(self.root_fn(c), ln) for c, ln in self.callers.get(path, [])]

    def reachable_from(self, roots, local_only=True):
        seen = set()
        work = list(roots)
        while work:
            p = work.pop()
            if p in seen:
                continue
            seen.add(p)
            for rp, ci, ln, bi, cl in self.callees.get(p, []):
                if rp in self.F.fns and rp not in seen:
                    work.append(rp)
            for c in self.F.closures_of.get(p, []):
                if c not in seen:
                    work.append(c)
        return seen


def state_layer(F, CG, state_adts):
    """fn path -> state struct, for the methods of the lock-protected state structs, the closures inside them and
    the free helpers that are only ever called from them"""
    layer = {}
    for sp in state_adts:
        for m in F.methods_of(sp, inherent_only=False):
            layer[m['path']] = sp
    changed = True
    while changed:
        changed = False
        for fn in F.raw['fns']:
            if fn['path'] in layer:
                continue
            if fn['kind'] == 'closure':
                if fn.get('parent') in layer:
                    layer[fn['path']] = layer[fn['parent']]
                    changed = True
                continue
            callers = [c for c, _ in CG.callers_of(fn['path'])]
            if callers and all(c in layer for c in callers):
                layer[fn['path']] = layer[callers[0]]
                changed = True
    return layer


def direct_state_mutations(F, path, fn):
    """(field, event) for every MUTATING access to a field of a lock-protected state made by `fn`'s own code (or
    its closures) - not by a state method it calls - on this path"""
    out = []
    for e in path.events:
        if e.get('fn') != fn['path'] and (F.fn(e.get('fn') or '') or {}).get('parent') != fn['path']:
            continue
        locs = []
        if e['k'] in ('write', 'take', 'replace', 'update_waker'):
            locs.append(e.get('loc') or e.get('slot'))
        elif e['k'] == 'qop' and e['op'] not in ('is_empty', 'peek_first', 'peek_last', 'peek_min'):
            locs.append(e.get('queue'))
        elif e['k'] == 'call':
            tys = e.get('argtys') or []
            for i, a in enumerate(e['args']):
                if a[0] == 'ref' and i < len(tys) and tys[i].startswith('&mut'):
                    if i == 0 and a[1] and a[1][-1] == '<locked>':
                        continue   # the whole state as receiver of one of its methods
                    locs.append(a[1])
        for loc in locs:
            if not loc or '<locked>' not in loc:
                continue
            k = loc.index('<locked>')
            field = next((x for x in loc[k + 1:] if isinstance(x, str)), None)
            if field is not None:
                out.append((field, e))
    return out


def breach_wrappers(F, CG):
    """state struct -> {fn path: fields}: functions OUTSIDE the state layer whose own code mutates a field of that
    lock-protected state.  They are additional transitions of the primitive; entry_methods() hands them to the rules
    next to the state's own methods (the engine then addresses the locked state as `self`, see Engine.alias_fns)."""
    if hasattr(F, '_breach'):
        return F._breach
    from engine import Engine
    roles = Roles(F)
    states = sorted(roles.state_structs)
    layer = state_layer(F, CG, states)
    fields = {sp: set(f['name'] for f in F.adt(sp)['variants'][0]['fields']) for sp in states}
    E = Engine(F)
    out = {sp: {} for sp in states}
    for fn in F.raw['fns']:
        if fn['path'] in layer or fn['kind'] == 'closure':
            continue
        if not reaches_lock(F, CG, fn):
            continue
        if not any(fn['path'].lstrip('<').startswith(sp.rsplit('::', 1)[0] + '::') for sp in states):
            continue
        saved = set(F.alias_fns)
        F.alias_fns.discard(fn['path'])
        try:
            paths = E.run(fn['path'])
        finally:
            F.alias_fns.update(saved)
        for path in paths:
            for field, e in direct_state_mutations(F, path, fn):
                for sp in states:
                    mod = sp.rsplit('::', 1)[0]
                    if field in fields[sp] and fn['path'].lstrip('<').startswith(mod + '::'):
                        out[sp].setdefault(fn['path'], set()).add(field)
            # a composite: two or more mutating state methods called under ONE lock acquisition are one transition
            # that exists only in this function
            region = []
            for e in path.events:
                if e['k'] == 'lock' and e.get('fn') not in layer:
                    region = []
                elif e['k'] == 'call' and e.get('mode') == 'inline' and CG.root_fn(e.get('fn') or '') == fn['path'] \
                        and e['callee'] in layer and (e.get('argtys') or [''])[0].startswith('&mut'):
                    region.append(e['callee'])
                    if len(region) >= 2:
                        out[layer[e['callee']]].setdefault(fn['path'], set()).add(
                            '<' + '+'.join(c.split('::')[-1] for c in region) + '>')
    F._breach = out
    for sp in out:
        F.alias_fns.update(out[sp])
    return out


def entry_methods(F, CG, state_adt, with_wrappers=True):
    """methods of the state struct that are called from outside its own impl
    (or not called at all): the atomic transitions of the primitive - plus (with_wrappers) the functions outside
    the state layer that mutate the state directly, which are transitions too"""
    ms = F.methods_of(state_adt)
    own = set(m['path'] for m in ms)
    # closures defined inside the state's own methods are part of them
    for fn in F.raw['fns']:
        if fn['kind'] == 'closure' and fn.get('parent') in own:
            own.add(fn['path'])
    out = []
    for m in ms:
        callers = [c for c, _ in CG.callers_of(m['path'])]
        ext = [c for c in callers if c not in own]
        if ext or not callers:
            if m.get('name') == 'new':
                continue
            out.append(m)
    if with_wrappers:
        for p in sorted(breach_wrappers(F, CG).get(state_adt, {})):
            out.append(F.fn(p))
    return out


def entry_contexts(F, CG):
    """fn path -> {param name: (state field, frozenset(variants))}: for a state method that is handed the caller's own
    node, the poll states the node can be in at the call, read off every calling context (all functions outside the
    state layer from which the method is reachable, run from the outermost ones with the chain inlined).  Only a
    restriction to *unlinked* states is kept: an unlinked node is reachable by nobody else, so what the caller knew
    about it - even before it took the lock, even under an earlier acquisition - still holds at the call.  The engine
    assumes it at entry (Engine.run), so a helper such as `add_waiter(node)` that a wrapper calls only for New nodes
    is judged for New nodes.  No context found / a linked state possible => no restriction."""
    if hasattr(F, 'entry_ctx') and F.entry_ctx is not None:
        return F.entry_ctx
    F.entry_ctx = {}
    from engine import Engine
    from specs import TYPESTATE
    from typestate import _own_nodes
    roles = Roles(F)
    states = sorted(roles.state_structs)
    layer = state_layer(F, CG, states)
    E = Engine(F)
    out = {}
    runs = {}
    for sp in states:
        table = TYPESTATE.get(sp) or {}
        queues = roles.state_structs[sp]['queues']
        data_to_queue = {d: q for q, (_k, d) in queues.items()}
        for m in entry_methods(F, CG, sp, with_wrappers=False):
            own = {}
            for name, d in _own_nodes(F, m).items():
                q = data_to_queue.get(d)
                sf = roles.node_data.get(d, {}).get('state_field')
                if q in table and sf:
                    own[name] = (d, q, sf)
            if not own:
                continue
            # calling functions outside the state layer, transitively; the outermost ones are the roots
            seen, work, roots = set(), [m['path']], set()
            while work:
                p = work.pop()
                if p in seen:
                    continue
                seen.add(p)
                cs = [c for c, _ in CG.callers_of(p) if c != p and c not in layer]
                fn_p = F.fn(p) or {}
                exposed = p != m['path'] and (not cs or fn_p.get('reachable') or fn_p.get('impl_trait'))
                if exposed:
                    roots.add(p)
                work.extend(cs)
            if not roots:
                continue
            names = {}
            for d_ in m['debug']:
                if not d_['place']['p']:
                    names.setdefault(d_['place']['l'], d_['name'])
            idx = {names.get(i, 'arg%d' % i): i - 1 for i in range(1, m['arg_count'] + 1)}
            allowed = {name: set() for name in own}
            unknown = set()
            entered = 0
            for r in sorted(roots):
                if r not in runs:
                    saved = set(F.alias_fns)
                    F.alias_fns.discard(r)
                    try:
                        runs[r] = E.run(r)
                    finally:
                        F.alias_fns.update(saved)
                for path in runs[r]:
                    for i, e in enumerate(path.events):
                        if e['k'] != 'enter' or e['fn'] != m['path'] or i == 0:
                            continue
                        entered += 1
                        for name, (d, q, sf) in own.items():
                            a = e['args'][idx[name]] if idx.get(name) is not None and idx[name] < len(e['args']) else None
                            if a is None or a[0] != 'ref':
                                unknown.add(name)
                                continue
                            sloc = a[1] + ('data', sf)
                            enum = roles.node_data[d]['state_enum']
                            vs = None
                            for e2 in reversed(path.events[:i]):
                                if e2['k'] in ('write', 'replace') and e2.get('loc') == sloc:
                                    v = e2.get('val')
                                    var = v[2] if v and v[0] == 'agg' else (v[1] if v and v[0] == 'aggv' else None)
                                    vs = {var} if var else None
                                    if var is None:
                                        unknown.add(name)
                                    break
                                if e2['k'] == 'call' and e2.get('mode') == 'opaque' and any(
                                        x[0] == 'ref' and x[1][:len(a[1])] == a[1] for x in e2.get('args', ())):
                                    unknown.add(name)   # handed to code the engine does not see
                                    break
                            else:
                                k0 = path.facts.get(('discr', ('init', sloc)))
                                allv = list(E.variants_of(enum))
                                # where was the node's state looked at?  Without the lock only the state of a node
                                # that was never queued is a stable observation (another task may be in the middle
                                # of the transition that writes any other state)
                                first_lock = next((j for j, e3 in enumerate(path.events[:i]) if e3['k'] == 'lock'), None)
                                needle = repr(('init', sloc))
                                looks = [j for j, e3 in enumerate(path.events[:i])
                                         if e3['k'] == 'assume' and needle in repr(e3.get('expr'))]
                                if looks and (first_lock is None or looks[0] < first_lock):
                                    initial = list(table[q])[0]
                                    if not (k0 and k0[0] == 'eq' and k0[1] == initial):
                                        k0 = None
                                if k0 and k0[0] == 'eq':
                                    vs = {k0[1]}
                                elif k0:
                                    vs = set(v for v in allv if v not in k0[1])
                                else:
                                    vs = set(allv)
                            if vs:
                                allowed[name] |= vs
            if not entered:
                continue
            ctx = {}
            for name, (d, q, sf) in own.items():
                enum = roles.node_data[d]['state_enum']
                allv = set(E.variants_of(enum))
                vs = allowed[name]
                if name in unknown or not vs or vs >= allv:
                    continue
                if any(table[q].get(v) is not False for v in vs):
                    continue    # a linked state: others can change it between the caller's test and the call
                ctx[name] = (sf, enum, frozenset(vs))
            if ctx:
                out[m['path']] = ctx
    F.entry_ctx = out
    return out


def _is_pollish(t):
    if not t:
        return False
    if t.get('k') == 'adt' and t.get('path') == 'std::task::Poll':
        return True
    if t.get('k') == 'tuple' and t.get('tys'):
        return _is_pollish(t['tys'][0])
    return False


def outcome_decoders(F, CG):
    """Private result types of state functions.  A refactoring may let a transition return a private
    `enum Outcome { Acquired, MustWait }` (or one with payloads) that the wrapper converts to the public `Poll<..>`.
    The rules are written against the public shape, so the engine converts the return value of such a function the way
    the crate itself does: (conv) through the crate's own conversion function - a function whose only parameter is the
    outcome by value and whose result is Poll-shaped (`into_poll`) - run symbolically on the returned value; or, where
    the wrapper matches inline, (shape) by the pairs (variant returned by the inlined transition -> Ready / Pending
    returned by the wrapper) observed on every path of every Poll-returning function, kept only when a variant always
    maps to the same shape.  F.outcomes = {'conv': {enum: fn path}, 'shape': {(enum, variant): (poll variant, inner)}}"""
    if getattr(F, 'outcomes', None) is not None:
        return F.outcomes
    F.outcomes = {'conv': {}, 'shape': {}}
    # private enums returned by some function of the crate
    cand = set()
    for fn in F.raw['fns']:
        t = fn['locals'][0]['ty'] if fn.get('locals') else {}
        if t.get('k') == 'adt' and t.get('local'):
            a = F.adts.get(t['path'])
            if a and a['kind'] == 'enum' and not a.get('reachable'):
                cand.add(t['path'])
    if not cand:
        return F.outcomes
    from engine import Engine, POLL
    conv = {}
    for fn in F.raw['fns']:
        if fn['kind'] == 'closure' or fn['arg_count'] != 1:
            continue
        t1 = fn['locals'][1]['ty']
        if t1.get('k') == 'adt' and t1.get('path') in cand and _is_pollish(fn['locals'][0]['ty']):
            conv.setdefault(t1['path'], []).append(fn['path'])
    out_conv = {e: fs[0] for e, fs in conv.items() if len(fs) == 1}
    E = Engine(F)
    seen = {}
    seen_bool = {}

    def _boolish(t):
        return bool(t) and (t.get('name') == 'bool' or (t.get('k') == 'adt' and t.get('path') == 'std::option::Option'))
    for g in F.raw['fns']:
        if g['kind'] == 'closure' or not (_is_pollish(g['locals'][0]['ty']) or _boolish(g['locals'][0]['ty'])):
            continue
        # only functions that call something returning a candidate enum
        if not any(((F.fn(rp) or {}).get('locals') or [{}])[0].get('ty', {}).get('path') in cand
                   for rp in CG.reachable_from([g['path']])):
            continue
        saved = set(F.alias_fns)
        F.alias_fns.discard(g['path'])
        try:
            paths = E.run(g['path'])
        finally:
            F.alias_fns.update(saved)
        for path in paths:
            if path.exit != 'return':
                continue
            v = path.ret
            if _boolish(g['locals'][0]['ty']):
                # a synchronous wrapper: Some(..) / true = granted, None / false = refused
                b = None
                if v[0] == 'const':
                    b = 1 if v[1] else 0
                elif v[0] == 'agg' and v[1] == 'std::option::Option':
                    b = 1 if v[2] == 'Some' else 0
                else:
                    k = E.known(path.facts, v)
                    if k and k[0] == 'eq':
                        b = 1 if k[1] else 0
                    else:
                        k = E.variant_known(path.facts, v)
                        if k and k[0] == 'eq' and k[1] in ('Some', 'None'):
                            b = 1 if k[1] == 'Some' else 0
                if b is None:
                    continue
                last = None
                for e in path.events:
                    if e['k'] == 'ret' and e.get('ret') is not None and e['ret'][0] == 'agg' and e['ret'][1] in cand:
                        last = e['ret']
                if last is not None:
                    seen_bool.setdefault((last[1], last[2]), set()).add(b)
                continue
            if v[0] == 'tuple' and v[1]:
                v = v[1][0]
            pv = v[2] if v[0] == 'agg' and v[1] == POLL else None
            if pv is None:
                k = E.variant_known(path.facts, v)
                pv = k[1] if k and k[0] == 'eq' else None
            if pv not in ('Ready', 'Pending'):
                continue
            inner = None
            if pv == 'Ready' and v[0] == 'agg' and v[3]:
                x = v[3][0][1]
                if x[0] == 'agg' and x[1] in ('std::option::Option', 'std::result::Result'):
                    inner = (x[1], x[2])
            last = None
            for e in path.events:
                if e['k'] == 'ret' and e.get('ret') is not None and e['ret'][0] == 'agg' and e['ret'][1] in cand:
                    last = e['ret']
            if last is not None:
                seen.setdefault((last[1], last[2]), set()).add((pv, inner))
    shape = {k: list(v)[0] for k, v in seen.items() if len(v) == 1}
    poll_enums = set(k[0] for k in seen)
    # an enum only ever converted by synchronous wrappers (Some / true vs None / false) stands for a bool
    for k, v in seen_bool.items():
        if k[0] not in poll_enums and len(v) == 1:
            shape[k] = ('bool', list(v)[0])
    F.outcomes = {'conv': out_conv, 'shape': shape}
    return F.outcomes


def _locks_directly(fn):
    return any(b['term']['k'] == 'call' and 'fn' in b['term']['func'] and
               b['term']['func']['fn']['path'].startswith('lock_api::') and
               b['term']['func']['fn']['name'] == 'lock' for b in fn['blocks'] if not b['cleanup'])


def reaches_lock(F, CG, fn):
    """does the function take the internal lock - itself, in a helper it calls or in a closure it passes on?"""
    cache = F.__dict__.setdefault('_reaches_lock', {})
    p = fn['path']
    if p not in cache:
        cache[p] = any(_locks_directly(F.fn(q)) for q in CG.reachable_from([p]) if F.fn(q) is not None)
    return cache[p]


def bundle_field_types(F, t):
    """[(field name, field type with the struct's own type parameters replaced by the arguments of `t`)] for a
    parameter whose type is (a reference to) a private struct carrying a `&mut ListNode<..>` / `&mut HeapNode<..>` -
    an argument bundle such as `PollCtx<'_, E> { node: &mut ListNode<E>, cx }`; [] otherwise"""
    from autotrait import subst
    if t.get('k') == 'ref':
        t = t.get('ty') or {}
    if t.get('k') != 'adt' or not t.get('local') or t.get('path') in NODE_ADTS:
        return []
    a = F.adts.get(t['path'])
    if not a or a['kind'] != 'struct':
        return []
    m = dict(zip(a.get('params') or [], t.get('args') or []))
    fields = [(f['name'], subst(f['ty'], m)) for f in a['variants'][0]['fields']]
    if any(ft.get('k') == 'ref' and (ft.get('ty') or {}).get('k') == 'adt' and ft['ty'].get('path') in NODE_ADTS
           for _n, ft in fields):
        return fields
    return []


def lift_private_callers(F, CG, path):
    """the functions that reach `path`, followed upwards through private helpers (functions that are neither part of
    the API nor trait impls and that have callers): a private `discard_buffered(guard)` called by a destructor is
    that destructor's business"""
    out, seen, work = [], set(), [path]
    while work:
        q = work.pop()
        for c, _ in CG.callers_of(q):
            if c in seen or c == path:
                continue
            seen.add(c)
            cq = F.fn(c) or {}
            if cq.get('kind') in ('fn', 'assoc') and not cq.get('reachable') and not cq.get('impl_trait') \
                    and CG.callers_of(c):
                work.append(c)
            else:
                out.append(c)
    return sorted(set(out))


def is_private_helper(F, CG, fn):
    """a function that is neither part of the API nor a trait impl (Drop, Future, ...) and that somebody in the crate
    calls: a free helper, a private method, a provided method of a private trait.  It is judged inlined into its
    callers - which know what they hand to it and, for a provided trait method, which type `Self` is - not on its own."""
    if fn.get('kind') not in ('fn', 'assoc') or fn.get('reachable') or fn.get('impl_trait'):
        return False
    return any(c != fn['path'] for c, _ in CG.callers_of(fn['path']))


# ------------------------------------------------------------ path queries
def fields_of(loc):
    """field names of an access path (the intrusive node's `data` hop and downcasts are transparent)"""
    return tuple(e for e in loc[1:] if isinstance(e, str) and e != 'data' and e != '<locked>')


def root_of(loc):
    return loc[0]


def is_param_root(loc, name=None):
    r = loc[0]
    return r[0] == 'P' and (name is None or r[1] == name)


def is_tok(loc):
    return loc[0][0] == 'tok'


def loc_endswith(loc, *names):
    f = fields_of(loc)
    return len(f) >= len(names) and f[-len(names):] == tuple(names)


def node_root(loc):
    """(root,) of the node an access path belongs to: param node or token"""
    return loc[:1]


def events_of(path, kind, **match):
    out = []
    for i, e in enumerate(path.events):
        if e['k'] != kind:
            continue
        ok = True
        for k, v in match.items():
            if e.get(k) != v:
                ok = False
                break
        if ok:
            out.append((i, e))
    return out


def ret_variant(E, path, v=None):
    """variant name of an enum-valued return (Poll / Option / Result / bool const) if determined"""
    v = path.ret if v is None else v
    if v is PANIC:
        return None
    if v[0] == 'agg':
        return v[2]
    if v[0] == 'const':
        return v[1]
    k = E.variant_known(path.facts, v)
    if k and k[0] == 'eq':
        return k[1]
    return None


def const_of(E, facts, v):
    k = E.known(facts, v)
    if k and k[0] == 'eq':
        return k[1]
    return None


def where(F, e):
    fn = F.fn(e['fn']) if e.get('fn') else None
    if fn is None:
        return None
    return '%s:%s' % (fn['file'], e.get('ln'))


def path_cond(E, path, roots=('self', 'wait_node')):
    """compact, stable description of the branch assumptions of a path (on entry-state values)"""
    out = []
    for k, v in path.facts.items():
        s = fmt_val(k)
        if 'ret#' in s or 'removed#' in s or '@' in s or 'havoc' in s or 'will_wake' in s:
            continue
        if v[0] == 'eq':
            out.append('%s==%s' % (s, v[1]))
        else:
            out.append('%s!=%s' % (s, '/'.join(sorted(str(x) for x in v[1]))))
    return ' & '.join(sorted(out))


def trace_summary(path, limit=60):
    out = []
    for e in path.events:
        k = e['k']
        if k == 'write':
            out.append('%s: %s := %s' % (e.get('ln'), fmt_loc(e['loc']), fmt_val(e['val'])))
        elif k == 'qop':
            out.append('%s: %s(%s%s)%s' % (e.get('ln'), e['op'], fmt_loc(e['queue']) if e.get('queue') else '',
                                           (', ' + fmt_loc(e['node'])) if e.get('node') else '',
                                           (' -> ' + e['result']) if e.get('result') else ''))
        elif k == 'assume':
            out.append('%s: assume %s %s' % (e.get('ln'), fmt_val(e['expr']), e['desc']))
        elif k == 'call' and e.get('mode') != 'inline':
            out.append('%s: call %s' % (e.get('ln'), e['callee']))
        elif k in ('wake', 'take', 'update_waker', 'lock', 'panic', 'drop'):
            out.append('%s: %s %s' % (e.get('ln'), k, fmt_loc(e['loc']) if e.get('loc') else ''))
    return out[:limit]


def method_role(F, fn):
    """'send' (takes a payload by value, or an own node of a send-queue entry type), 'receive' (its
    return type carries a payload and it is not a send), else 'other' - by types, not by names"""
    from facts import ty_mentions_param
    has_payload = False
    send_node = False
    has_cx = False
    ptys = []
    for i in range(1, fn['arg_count'] + 1):
        t = fn['locals'][i]['ty']
        ptys.append(t)
        # an argument bundle (`PollCtx { node, cx }`): its fields are the arguments
        ptys.extend(ft for _n, ft in bundle_field_types(F, t))
    for t in ptys:
        if t.get('k') == 'param':
            has_payload = True
        if t.get('k') == 'ref' and t['ty'].get('k') == 'adt' and t['ty']['path'] in NODE_ADTS:
            d = t['ty']['args'][0]
            if 'SendWaitQueueEntry' in d.get('str', ''):
                send_node = True
        if 'task::Context' in t.get('str', ''):
            has_cx = True
    role = 'other'
    if has_payload or send_node:
        role = 'send'
    elif ty_mentions_param(fn['locals'][0]['ty']):
        role = 'receive'
    return role, has_cx


def call_stacks(path):
    """for every event index the stack of function paths that is active (from the enter / exit events)"""
    out = []
    stack = []
    for e in path.events:
        if e['k'] == 'enter':
            stack = stack + [e['fn']]
        out.append(tuple(stack))
        if e['k'] == 'exit' and stack:
            stack = stack[:-1]
    return out


def innermost(stack, among):
    """the innermost function of the call stack that belongs to `among` (a set of paths), or None"""
    for f in reversed(stack):
        if f in among:
            return f
    return None


def transitions_named(F, CG, state_adt, name):
    """the state's own method of that name (if it exists) plus every function outside the state layer that acts as a
    transition of that name (a public operation that mutates the state itself or composes several state calls)"""
    out = [m for m in F.methods_of(state_adt) if m.get('name') == name]
    for p in sorted(breach_wrappers(F, CG).get(state_adt, {})):
        fn = F.fn(p)
        if fn and fn.get('name') == name:
            out.append(fn)
    return out


def unknown_transitions(F, CG, state_adt, known):
    """functions outside the state layer that act as transitions of the state under a name the caller has no rule for"""
    return [p for p in sorted(breach_wrappers(F, CG).get(state_adt, {}))
            if (F.fn(p) or {}).get('name') not in known]
