"""C16/L2 — node-erased auto-trait derivation.

For a type (tree) and an auto trait it derives the leaf obligations on type
parameters that make the type safe to send / share, *erasing* what the crate's
`unsafe impl`s legitimately vouch for (the raw links of the intrusive
containers) and nothing else.  Leaves are then checked against the trait
solver's answers for the impl's own where-clause environment (driver facts).
"""
from engine import LIST_ADT, HEAP_ADT

SEND = 'std::marker::Send'
SYNC = 'std::marker::Sync'
SHORT = {SEND: 'Send', SYNC: 'Sync'}

# erasure table: one line of reason each
INTRUSIVE = {
    'intrusive_double_linked_list::ListNode': 'raw prev/next links are what the unsafe impls vouch for; stands for its data',
    'intrusive_double_linked_list::LinkedList': 'raw head/tail links; stands for the data of the nodes it points to',
    'intrusive_pairing_heap::HeapNode': 'raw parent/sibling/child links; stands for its data',
    'intrusive_pairing_heap::PairingHeap': 'raw root link; stands for the data of the nodes it points to',
}
TRANSPARENT = ('std::option::Option', 'std::mem::MaybeUninit', 'std::collections::VecDeque', 'std::task::Poll',
               'std::result::Result', 'std::mem::ManuallyDrop', 'std::pin::Pin', 'std::boxed::Box',
               'std::vec::Vec')
MARKER = ('std::marker::PhantomData',)   # no value of the argument type is stored


def subst(t, m):
    k = t.get('k')
    if k == 'param':
        return m.get(t['name'], t)
    out = dict(t)
    if 'args' in t:
        out['args'] = [subst(x, m) for x in t['args']]
    if 'tys' in t:
        out['tys'] = [subst(x, m) for x in t['tys']]
    if isinstance(t.get('ty'), dict):
        out['ty'] = subst(t['ty'], m)
    return out


def has_param(t):
    k = t.get('k')
    if k == 'param':
        return True
    for key in ('args', 'tys'):
        for x in t.get(key, []):
            if has_param(x):
                return True
    if isinstance(t.get('ty'), dict):
        return has_param(t['ty'])
    if k in ('alias', 'other', 'deep'):
        return True
    return False


def mentions_local_adt(t):
    if t.get('k') == 'adt' and t.get('local'):
        return True
    for key in ('args', 'tys'):
        for x in t.get(key, []):
            if mentions_local_adt(x):
                return True
    if isinstance(t.get('ty'), dict):
        return mentions_local_adt(t['ty'])
    return False


def contains_dyn(t):
    if t.get('k') == 'dyn':
        return True
    for key in ('args', 'tys'):
        for x in t.get(key, []):
            if contains_dyn(x):
                return True
    if isinstance(t.get('ty'), dict):
        return contains_dyn(t['ty'])
    return False


class Deriver:
    def __init__(self, F):
        self.F = F
        self.manual = {}
        for im in F.impls:
            if im['trait'] in (SEND, SYNC) and im['self_adt'] and not im['negative']:
                self.manual[(im['self_adt'], im['trait'])] = im
        self.notes = []
        self.erased = []

    def closed_ok(self, t, trait, via):
        """closed (parameter-free) types: the solver's own answer, via the field facts"""
        s = t.get('str')
        for a in self.F.raw['adts']:
            for v in a['variants']:
                for f in v['fields']:
                    if f['ty'].get('str') == s:
                        return f['auto'][SHORT[trait]]
        return None

    def obl(self, t, trait, via=(), depth=0, vouch_cell=False):
        """-> list of (leaf_kind, name/str, trait, via)   leaf_kind: 'param' | 'dyn' | 'unsat' | 'unknown'"""
        if depth > 12:
            return [('unknown', t.get('str'), trait, via)]
        k = t.get('k')
        if k == 'param':
            return [('param', t['name'], trait, via)]
        if k == 'prim':
            return []
        if not has_param(t) and not mentions_local_adt(t):
            ok = self.closed_ok(t, trait, via)
            if ok is True:
                return []
            if ok is False and not contains_dyn(t):
                return [('unsat', t.get('str'), trait, via)]
            # not a field type: fall through to the structural rules
        if k == 'ref':
            inner = t['ty']
            if t['mut']:
                return self.obl(inner, trait, via + ('&mut',), depth + 1)
            return self.obl(inner, SYNC, via + ('&',), depth + 1)
        if k == 'ptr':
            return [('unsat', t.get('str'), trait, via + ('raw pointer',))]
        if k == 'tuple':
            out = []
            for x in t['tys']:
                out += self.obl(x, trait, via, depth + 1)
            return out
        if k == 'array':
            return self.obl(t['ty'], trait, via, depth + 1)
        if k == 'dyn':
            autos = [a.split('::')[-1] for a in t.get('autos', [])]
            if SHORT[trait] in autos:
                return []
            return [('dyn', t.get('trait'), trait, via + (t.get('str'),))]
        if k == 'adt':
            p = t['path']
            args = t.get('args', [])
            if p in INTRUSIVE:
                self.erased.append((p, via))
                return self.obl(args[0], trait, via + (p.split('::')[-1],), depth + 1) if args else []
            if p in MARKER:
                return []
            if p == 'lock_api::Mutex' and len(args) == 2:
                out = self.obl(args[0], trait, via + ('Mutex.raw',), depth + 1)
                out += self.obl(args[1], SEND, via + ('Mutex.data',), depth + 1)
                return out
            if p == 'std::sync::Arc' and args:
                return (self.obl(args[0], SEND, via + ('Arc',), depth + 1)
                        + self.obl(args[0], SYNC, via + ('Arc',), depth + 1))
            if p == 'std::cell::UnsafeCell' and args:
                # the async mutex protects this cell with its own lock bit: like Mutex<T>
                return self.obl(args[0], SEND, via + ('UnsafeCell(guarded)',), depth + 1)
            if p == 'std::ptr::NonNull':
                return [('unsat', t.get('str'), trait, via + ('NonNull',))]
            if p in TRANSPARENT:
                out = []
                for x in args:
                    out += self.obl(x, trait, via, depth + 1)
                return out
            if t.get('local') or p in self.F.adts:
                a = self.F.adts.get(p)
                if a is None:
                    return [('unknown', t.get('str'), trait, via)]
                m = dict(zip(a['params'], args))
                im = self.manual.get((p, trait))
                if im is not None:
                    out = []
                    ia = im['self_ty'].get('args', [])
                    im_map = {}
                    for fa, actual in zip(ia, args):
                        if fa.get('k') == 'param':
                            im_map[fa['name']] = actual
                    for pr in im['preds']:
                        if pr['kind'] != 'trait' or pr['trait'] not in (SEND, SYNC):
                            continue
                        st = subst(pr['self'], im_map)
                        out += self.obl(st, pr['trait'], via + ('impl %s for %s' % (SHORT[trait], p.split('::')[-1]),),
                                        depth + 1)
                    return out
                out = []
                for v in a['variants']:
                    for f in v['fields']:
                        out += self.obl(subst(f['ty'], m), trait, via + ('%s.%s' % (p.split('::')[-1], f['name']),),
                                        depth + 1)
                return out
            # unknown foreign generic type: structural fallback on its arguments, noted
            self.notes.append('foreign type %s treated as transparent' % p)
            out = []
            for x in args:
                out += self.obl(x, trait, via + (p,), depth + 1)
            return out
        return [('unknown', t.get('str'), trait, via)]
