"""Runs the fi-facts driver over /repo's *current working tree* (cached by a
content hash recomputed on every run) and returns the fact file path."""
import fcntl
import hashlib
import os
import shutil
import subprocess
import sys
import time

VERIF = os.path.dirname(os.path.dirname(os.path.abspath(__file__)))
REPO = os.environ.get('FI_REPO', '/repo')
WORK = os.path.join(VERIF, '.work')
DRIVER_DIR = os.path.join(VERIF, 'driver')
DRIVER = os.path.join(DRIVER_DIR, 'target', 'release', 'fi-facts')

CONFIGS = {
    'none': ['--no-default-features'],
    'alloc': ['--no-default-features', '--features', 'alloc'],
    'std': [],
}


class ExtractError(Exception):
    pass


def tree_hash(repo=None):
    repo = repo or REPO
    h = hashlib.sha256()
    files = []
    for root, dirs, fs in os.walk(os.path.join(repo, 'src')):
        dirs.sort()
        for f in sorted(fs):
            files.append(os.path.join(root, f))
    for f in ('Cargo.toml', 'Cargo.lock'):
        p = os.path.join(repo, f)
        if os.path.exists(p):
            files.append(p)
    for p in files:
        h.update(os.path.relpath(p, repo).encode())
        h.update(b'\0')
        with open(p, 'rb') as fh:
            h.update(fh.read())
        h.update(b'\0')
    # the driver's own source is part of the key: a changed driver re-extracts
    for f in ('src/main.rs', 'src/json.rs'):
        with open(os.path.join(DRIVER_DIR, f), 'rb') as fh:
            h.update(fh.read())
    return h.hexdigest()[:16]


def sysroot():
    return subprocess.check_output(['rustc', '+nightly', '--print', 'sysroot'], text=True).strip()


def ensure_driver():
    src_m = max(os.path.getmtime(os.path.join(DRIVER_DIR, 'src', f)) for f in ('main.rs', 'json.rs'))
    if os.path.exists(DRIVER) and os.path.getmtime(DRIVER) >= src_m:
        return
    env = dict(os.environ, CARGO_NET_OFFLINE='true')
    r = subprocess.run(['cargo', '+nightly', 'build', '--offline', '--release'], cwd=DRIVER_DIR, env=env,
                       stdout=subprocess.PIPE, stderr=subprocess.STDOUT, text=True)
    if r.returncode != 0 or not os.path.exists(DRIVER):
        raise ExtractError('driver build failed:\n' + r.stdout[-3000:])


def work_dir(repo):
    """caches of the real tree live in /verif/.work; those of a scratch copy (selftest, sweeps) live inside the
    copy, so that removing the copy removes them"""
    if os.path.abspath(repo) == os.path.abspath('/repo'):
        return os.path.join(VERIF, '.work')
    return os.path.join(os.path.abspath(repo), '.fi-work')


def get_facts(config='std', repo=None, quiet=True):
    """returns (path to facts json, info dict)"""
    repo = repo or REPO
    os.makedirs(WORK, exist_ok=True)
    tag = hashlib.sha256(os.path.abspath(repo).encode()).hexdigest()[:6]
    work = work_dir(repo)
    os.makedirs(work, exist_ok=True)
    glock = open(os.path.join(WORK, '.driver.lock'), 'w')
    fcntl.flock(glock, fcntl.LOCK_EX)
    try:
        ensure_driver()
    finally:
        fcntl.flock(glock, fcntl.LOCK_UN)
        glock.close()
    lock = open(os.path.join(work, '.extract-%s-%s.lock' % (config, tag)), 'w')
    fcntl.flock(lock, fcntl.LOCK_EX)
    try:
        h = tree_hash(repo)
        out = os.path.join(work, 'facts-%s-%s-%s.json' % (config, tag, h))
        info = {'config': config, 'tree_hash': h, 'cached': True, 'extract_s': 0.0}
        if os.path.exists(out) and os.path.getsize(out) > 1000:
            return out, info
        # drop stale fact files of this config/repo
        for f in os.listdir(work):
            if f.startswith('facts-%s-%s-' % (config, tag)):
                os.remove(os.path.join(work, f))
        tgt = os.path.join(work, 'tgt-%s-%s' % (config, tag))
        fp = os.path.join(tgt, 'debug', '.fingerprint')
        if os.path.isdir(fp):
            for d in os.listdir(fp):
                if d.startswith('futures-intrusive-'):
                    shutil.rmtree(os.path.join(fp, d), ignore_errors=True)
        env = dict(os.environ)
        env.update({
            'LD_LIBRARY_PATH': os.path.join(sysroot(), 'lib') + ':' + env.get('LD_LIBRARY_PATH', ''),
            'RUSTFLAGS': '-Zmir-opt-level=0 -Awarnings',
            'RUSTC_WORKSPACE_WRAPPER': DRIVER,
            'CARGO_TARGET_DIR': tgt,
            'FI_FACTS_OUT': out + '.tmp',
            'CARGO_NET_OFFLINE': 'true',
        })
        t0 = time.time()
        cmd = ['cargo', '+nightly', 'check', '--offline', '--lib'] + CONFIGS[config]
        r = subprocess.run(cmd, cwd=repo, env=env, stdout=subprocess.PIPE, stderr=subprocess.STDOUT, text=True)
        if r.returncode != 0:
            raise ExtractError('cargo check (%s) failed on %s:\n%s' % (config, repo, r.stdout[-4000:]))
        if not os.path.exists(out + '.tmp'):
            raise ExtractError('driver did not run (no fact file) for config %s:\n%s' % (config, r.stdout[-2000:]))
        os.replace(out + '.tmp', out)
        info['cached'] = False
        info['extract_s'] = round(time.time() - t0, 2)
        return out, info
    finally:
        fcntl.flock(lock, fcntl.LOCK_UN)
        lock.close()


if __name__ == '__main__':
    cfg = sys.argv[1] if len(sys.argv) > 1 else 'std'
    print(get_facts(cfg))
