"""Path-sensitive abstract interpreter over the MIR facts (static analysis).

For an entry function it enumerates the control-flow paths through its
non-cleanup blocks (each block at most twice per frame: one loop unrolling),
inlining crate-local callees (bounded depth) and replacing the intrusive
list / heap operations, lock acquisition and a few std helpers by summaries.
Along a path it tracks

  * an abstract store  location -> abstract value   (strong updates; locations
    are access paths rooted at a parameter's referent, a stack local or a
    token returned by a queue operation),
  * the branch assumptions taken (facts on abstract values; contradictory
    branches are pruned: constants, discriminants, drop flags),
  * the ordered event list (writes with old/new value, calls, queue ops,
    drops, wake-ups, panics).

Nothing of the analysed crate is executed; values are never concrete inputs:
they are names for "whatever this location held at entry".  There is no
solver: facts are equalities/disequalities on such names and pruning is by
direct contradiction only (in the style of metal/xgcc path-sensitive checkers).
"""
import os
import re
from collections import namedtuple

OPTION = 'std::option::Option'
POLL = 'std::task::Poll'
RESULT = 'std::result::Result'
NONE = ('agg', OPTION, 'None', ())
UNIT = ('tuple', ())
PANIC = ('<panic>',)

LIST_ADT = 'intrusive_double_linked_list::LinkedList'
HEAP_ADT = 'intrusive_pairing_heap::PairingHeap'
QUEUE_ADTS = (LIST_ADT, HEAP_ADT)


def some(v):
    return ('agg', OPTION, 'Some', (('0', v),))


def is_agg(v, adt=None, variant=None):
    return (isinstance(v, tuple) and v and v[0] == 'agg'
            and (adt is None or v[1] == adt) and (variant is None or v[2] == variant))


def _contains(v, x, depth=0):
    if v == x:
        return True
    if not isinstance(v, tuple) or depth > 10:
        return False
    return any(isinstance(y, tuple) and _contains(y, x, depth + 1) for y in v)


def _ty_matches(pat, ty, depth=0):
    """does the concrete type `ty` match the impl's self type `pat` (type parameters of the impl match anything)?"""
    if pat is None or ty is None or depth > 6:
        return pat is None
    if pat.get('k') == 'param':
        return True
    if pat.get('k') != ty.get('k'):
        return False
    if pat.get('k') == 'adt':
        if pat.get('path') != ty.get('path'):
            return False
        pa, ta = pat.get('args') or [], ty.get('args') or []
        return len(pa) == len(ta) and all(_ty_matches(x, y, depth + 1) for x, y in zip(pa, ta))
    if pat.get('k') in ('ref', 'ptr'):
        return _ty_matches(pat.get('ty'), ty.get('ty'), depth + 1)
    if pat.get('k') == 'tuple':
        pa, ta = pat.get('tys') or [], ty.get('tys') or []
        return len(pa) == len(ta) and all(_ty_matches(x, y, depth + 1) for x, y in zip(pa, ta))
    return True


def strip_generics_(p):
    out, depth = [], 0
    for ch in p:
        if ch == '<':
            depth += 1
        elif ch == '>':
            depth -= 1
        elif depth == 0:
            out.append(ch)
    return ''.join(out).replace('::::', '::').rstrip(':')


NODE_ADTS_ = ('intrusive_double_linked_list::ListNode', 'intrusive_pairing_heap::HeapNode')


class St:
    __slots__ = ('store', 'facts', 'events', 'trace', 'nframe', 'neid', 'stack', 'visits', 'pruned',
                 'qinfo', 'frame_fn', 'frame_subst', 'pending_subst')

    def __init__(self):
        self.store = {}
        self.facts = {}
        self.events = []
        self.trace = []
        self.nframe = 0
        self.neid = 0
        self.stack = ()
        self.visits = {}
        self.pruned = 0
        self.qinfo = {}
        self.frame_fn = {}
        self.frame_subst = {}      # frame -> {generic parameter name: type it stands for in this inlined instance}
        self.pending_subst = None

    def copy(self):
        s = St()
        s.store = dict(self.store)
        s.facts = dict(self.facts)
        s.events = list(self.events)
        s.trace = list(self.trace)
        s.nframe = self.nframe
        s.neid = self.neid
        s.stack = self.stack
        s.visits = dict(self.visits)
        s.pruned = self.pruned
        s.qinfo = {k: dict(v) for k, v in self.qinfo.items()}
        s.frame_fn = dict(self.frame_fn)
        s.frame_subst = dict(self.frame_subst)
        s.pending_subst = self.pending_subst
        return s

    def eid(self):
        self.neid += 1
        return self.neid


Path = namedtuple('Path', 'events facts store ret exit trace entry_fn')


class Engine:
    def __init__(self, facts, *, max_depth=9, max_visits=3, max_paths=20000,
                 inline_filter=None, fanout_traits=(), inline_queue_helpers=False):
        self.F = facts
        self.max_depth = max_depth
        self.max_visits = int(os.environ.get('FI_MAX_VISITS', max_visits))   # loop unrolling: visits per block and frame
        self.max_paths = max_paths
        self.inline_filter = inline_filter
        self.inline_queue_helpers = inline_queue_helpers   # C20 looks inside the containers themselves
        self.fanout_traits = tuple(fanout_traits)
        self.enums = {}
        self.yield_pruned = False
        # functions outside the state layer that are judged as transitions of a lock-protected state: while they run,
        # the locked state is addressed as `self` (exactly as inside the state's own methods) and their own receiver as
        # `outer_self`, so that every rule written for state methods reads the same locations and facts
        if not hasattr(facts, 'alias_fns'):
            facts.alias_fns = set()      # shared by every engine over this fact base
        self._alias = False
        self._collect_enums()
        self.stats = {'paths': 0, 'pruned_branches': 0, 'inlined_calls': 0, 'summarised_calls': 0,
                      'opaque_calls': 0, 'truncated': 0}

    # ------------------------------------------------------------ enum tables
    def _collect_enums(self):
        for fn in self.F.raw['fns']:
            for b in fn['blocks']:
                for s in b['stmts']:
                    rv = s.get('rv')
                    if rv and 'discr' in rv and rv.get('of'):
                        of = rv['of']
                        self.enums[of['enum']] = {int(k): n for k, n in of['variants']}
        for a in self.F.raw['adts']:
            if a['kind'] == 'enum' and a['path'] not in self.enums:
                self.enums[a['path']] = {i: v['name'] for i, v in enumerate(a['variants'])}
        self.enums.setdefault(OPTION, {0: 'None', 1: 'Some'})
        self.enums.setdefault(POLL, {0: 'Ready', 1: 'Pending'})
        self.enums.setdefault(RESULT, {0: 'Ok', 1: 'Err'})

    def variants_of(self, enum):
        return list(self.enums.get(enum, {}).values())

    # ------------------------------------------------------------------ store
    def read(self, st, loc):
        s = st.store
        if loc in s:
            return s[loc]
        for n in range(len(loc) - 1, 0, -1):
            pre = loc[:n]
            if pre in s:
                return self.project(s[pre], loc[n:])
        ln = len(loc)
        subs = [(k[ln:], v) for k, v in s.items() if len(k) > ln and k[:ln] == loc]
        if subs:
            return ('struct', loc, tuple(sorted(subs, key=repr)))
        return ('init', loc)

    def project(self, v, rest):
        for e in rest:
            v = self._project1(v, e)
        return v

    def _project1(self, v, e):
        tag = v[0]
        if tag == 'agg':
            if isinstance(e, tuple) and e[0] == 'dc':
                if v[2] == e[1]:
                    return v
                return ('bottom',)
            for n, fv in v[3]:
                if n == e:
                    return fv
            if v[2] == 'new' and not v[3] and v[1] in QUEUE_ADTS and e in ('head', 'tail', 'root'):
                return NONE       # a freshly made list / heap has no nodes
            g_ = getattr(self.F, 'group_fields', None)
            if g_ and (v[1], e) in g_:
                sub_ = self.F.adts_orig.get(g_[(v[1], e)])
                names_ = set(f_['name'] for f_ in sub_['variants'][0]['fields']) if sub_ else set()
                return ('agg', g_[(v[1], e)], sub_['variants'][0]['name'] if sub_ else v[2],
                        tuple((n, fv) for n, fv in v[3] if n in names_))
            return ('field', v, e)
        if tag == 'tuple' and isinstance(e, str) and e.isdigit() and int(e) < len(v[1]):
            return v[1][int(e)]
        if tag == 'init':
            return ('init', v[1] + (e,))
        if tag == 'struct':
            loc, subs = v[1], v[2]
            exact = [sv for sp, sv in subs if sp == (e,)]
            if exact:
                return exact[0]
            below = tuple((sp[1:], sv) for sp, sv in subs if sp[0] == e)
            if below:
                return ('struct', loc + (e,), below)
            return ('init', loc + (e,))
        if tag == 'bottom':
            return v
        return ('field', v, e)

    def _update(self, v, rest, new):
        """functional update of an aggregate value at sub-path `rest`; None if not possible"""
        if not rest:
            return new
        e = rest[0]
        if v[0] == 'agg':
            if isinstance(e, tuple) and e[0] == 'dc':
                if v[2] != e[1]:
                    return None
                return self._update(v, rest[1:], new)
            fs = []
            hit = False
            for n, fv in v[3]:
                if n == e:
                    u = self._update(fv, rest[1:], new)
                    if u is None:
                        return None
                    fs.append((n, u))
                    hit = True
                else:
                    fs.append((n, fv))
            if not hit:
                return None
            return ('agg', v[1], v[2], tuple(fs))
        if v[0] == 'tuple' and isinstance(e, str) and e.isdigit() and int(e) < len(v[1]):
            u = self._update(v[1][int(e)], rest[1:], new)
            if u is None:
                return None
            vals = list(v[1])
            vals[int(e)] = u
            return ('tuple', tuple(vals))
        return None

    def write(self, st, loc, v):
        s = st.store
        for n in range(1, len(loc)):
            pre = loc[:n]
            if pre in s:
                u = self._update(s[pre], loc[n:], v)
                if u is not None:
                    s[pre] = u
                    return
        ln = len(loc)
        for k in [k for k in s if len(k) > ln and k[:ln] == loc]:
            del s[k]
        s[loc] = v

    def havoc(self, st, loc, eid):
        s = st.store
        ln = len(loc)
        for k in [k for k in s if len(k) >= ln and k[:ln] == loc]:
            del s[k]
        s[loc] = ('havoc', eid, loc)

    # ------------------------------------------------------------------ facts
    def assume(self, st, expr, val, eq=True, domain=None):
        """record `expr == val` (eq) or `expr != val`; False if contradictory"""
        tag = expr[0]
        if tag == 'const':
            return (expr[1] == val) == eq
        if tag == 'bottom':
            return False
        if tag == 'agg' and isinstance(val, str):
            # variant test on a known aggregate
            return (expr[2] == val) == eq
        if tag == 'un' and expr[1] == 'Not' and val in (0, 1):
            return self.assume(st, expr[2], 1 - val, eq)
        if tag == 'isv':
            # ('isv', v, Variant) as a boolean
            if val in (0, 1):
                want = (val == 1) == eq
                return self.assume_variant(st, expr[1], expr[2], want, expr[3] if len(expr) > 3 else None)
        if tag == 'discr':
            return self.assume_variant(st, expr[1], val, eq, expr[2] if len(expr) > 2 else None)
        if tag == 'bin' and expr[1] in ('Eq', 'Ne') and val in (0, 1):
            same = ((val == 1) == eq) == (expr[1] == 'Eq')
            a, b = expr[2], expr[3]
            if a[0] == 'const' and b[0] != 'const':
                a, b = b, a
            if b[0] == 'const':
                if not self.assume(st, a, b[1], same):
                    return False
            elif is_agg(b) and not b[3]:
                if not self.assume_variant(st, a, b[2], same, b[1]):
                    return False
            elif is_agg(a) and not a[3]:
                if not self.assume_variant(st, b, a[2], same, a[1]):
                    return False
        return self._set_fact(st, expr, val, eq, domain)

    def assume_variant(self, st, v, variant, eq, enum=None):
        if v[0] == 'agg':
            return (v[2] == variant) == eq
        if v[0] == 'bottom':
            return False
        dom = self.variants_of(enum) if enum else None
        return self._set_fact(st, ('discr', v), variant, eq, dom)

    def _set_fact(self, st, key, val, eq, domain=None):
        cur = st.facts.get(key)
        if eq:
            if cur is not None:
                if cur[0] == 'eq':
                    return cur[1] == val
                if val in cur[1]:
                    return False
            st.facts[key] = ('eq', val)
            return True
        if cur is not None:
            if cur[0] == 'eq':
                return cur[1] != val
            ne = cur[1] | frozenset([val])
        else:
            ne = frozenset([val])
        if domain is None and key[0] != 'discr':
            domain = None
        if domain:
            rest = [d for d in domain if d not in ne]
            if not rest:
                return False
            if len(rest) == 1:
                st.facts[key] = ('eq', rest[0])
                return True
        st.facts[key] = ('ne', ne)
        return True

    def known(self, st_or_facts, expr):
        """('eq', x) / ('ne', set) / None for an abstract value under the path facts"""
        facts = st_or_facts.facts if hasattr(st_or_facts, 'facts') else st_or_facts
        if expr[0] == 'const':
            return ('eq', expr[1])
        if expr[0] == 'un' and expr[1] == 'Not':
            k = self.known(facts, expr[2])
            if k and k[0] == 'eq' and k[1] in (0, 1):
                return ('eq', 1 - k[1])
            return None
        if expr[0] == 'isv' and expr not in facts:
            # `v is Variant` as a boolean: answered by what the path knows about v's variant
            k = self.variant_known(facts, expr[1])
            if k and k[0] == 'eq':
                return ('eq', int(k[1] == expr[2]))
            if k and k[0] == 'ne' and expr[2] in k[1]:
                return ('eq', 0)
            return None
        return facts.get(expr)

    def variant_known(self, st_or_facts, v):
        facts = st_or_facts.facts if hasattr(st_or_facts, 'facts') else st_or_facts
        if v[0] == 'agg':
            return ('eq', v[2])
        return facts.get(('discr', v))

    # ------------------------------------------------------------ evaluation
    def eval_place(self, st, frame, place):
        loc = (('L', frame, place['l']),)
        groups = getattr(self.F, 'group_fields', None)
        ty = None
        if groups and place['p']:
            fn_ = st.frame_fn.get(frame) or {}
            ls_ = fn_.get('locals') or []
            ty = ls_[place['l']]['ty'] if place['l'] < len(ls_) else None
        variant = None
        for p in place['p']:
            if p == '*':
                loc = self.deref(self.read(st, loc))
                if ty is not None:
                    ty = ty.get('ty') if ty.get('k') in ('ref', 'ptr') else None
            elif isinstance(p, dict) and 'f' in p:
                if ty is not None and ty.get('k') == 'adt':
                    fty = self.F.field_ty(ty, p['f'], variant)
                    if (ty.get('path'), p['f']) in groups:
                        ty, variant = fty, None
                        continue            # the hop through a field group (see Facts._flatten_field_groups)
                    ty = fty
                else:
                    ty = None
                variant = None
                loc = loc + (p['f'],)
            elif isinstance(p, dict) and 'dc' in p:
                loc = loc + (('dc', p['dc']),)
                variant = p['dc']
            else:
                loc = loc + ('[]',)
                ty = None
        return loc

    def deref(self, v):
        if v[0] == 'ref':
            return v[1]
        if v[0] == 'pin':
            return self.deref(v[1])
        return (('D', v),)

    def eval_operand(self, st, frame, op):
        if 'copy' in op or 'move' in op:
            loc = self.eval_place(st, frame, op.get('copy') or op.get('move'))
            if '<locked>' in loc and loc[-1] != '<locked>':
                f = st.frame_fn.get(frame) or {}
                st.events.append({'k': 'read', 'loc': loc, 'fn': f.get('path'), 'frame': frame, 'ln': None})
            return self.read(st, loc)
        if 'const' in op:
            if 'int' in op and op['int'] is not None:
                return ('const', op['int'])
            c = op['const']
            if op.get('promoted') is not None:
                return self.eval_promoted(st, frame, op['promoted'])
            if 'fn' in op:
                return ('fn', op['fn']['path'])
            if op.get('ty') == '()':
                return UNIT
            if op.get('const_item'):
                v = self.eval_const_item(st, frame, op['const_item'], c)
                if v is not None:
                    return v
            m = re.match(r'^(.*)::(None)$', c)
            if c.endswith('::None') and 'Option' in c:
                return NONE
            return ('const', c)
        if 'rt' in op:
            # RuntimeChecks (ub / overflow checks): treated as enabled, never decisive
            return ('const', 'rt:' + op['rt'])
        return ('unk', repr(op)[:40])

    def eval_const_item(self, st, frame, item, text):
        """value of a constant item of the crate: a free `const`, or `<X as Trait>::C` where the type X stands for is
        known in this frame (its own impl's constant, else the trait's default); evaluated from the initialiser's MIR"""
        consts = self.F.raw.get('consts') or []
        name = item.rsplit('::', 1)[-1]
        cands = [c for c in consts if c['path'] == item and not c.get('in_trait')]
        if not cands:
            decl = [c for c in consts if c['path'] == item and c.get('in_trait')]
            tr = decl[0]['in_trait'] if decl else item.rsplit('::', 1)[0]
            m = re.match(r'^<([A-Za-z_][A-Za-z0-9_]*) as ', text or '')
            selfty = None
            if m:
                selfty = (st.frame_subst.get(frame) or {}).get(m.group(1))
            impls = [c for c in consts if c.get('impl_trait') == tr and c['name'] == name]
            if selfty and selfty.get('k') == 'adt':
                cands = [c for c in impls if c.get('impl_adt') == selfty.get('path')]
            elif len(impls) == 1 and not decl:
                cands = impls
            if not cands and decl and decl[0].get('blocks') and (selfty is not None or not impls):
                cands = decl     # the trait's own default value
        if len(cands) != 1 or not cands[0].get('blocks'):
            return None
        cb = cands[0]
        st.nframe += 1
        pframe = st.nframe
        st.frame_fn[pframe] = {'path': cb['path'], 'blocks': cb['blocks'], 'promoted': []}
        bbi = 0
        for _ in range(16):
            bb = cb['blocks'][bbi]
            for s_ in bb['stmts']:
                if s_['k'] == 'assign':
                    v = self.eval_rvalue(st, pframe, s_['rv'])
                    self.write(st, self.eval_place(st, pframe, s_['place']), v)
            t = bb['term']
            if t['k'] == 'goto':
                bbi = t['t']
                continue
            if t['k'] == 'assert':     # overflow checks of constant arithmetic
                bbi = t['t']
                continue
            break
        return self.read(st, (('L', pframe, 0),))

    def eval_promoted(self, st, frame, idx):
        fn = st.frame_fn.get(frame)
        if fn is None or idx >= len(fn.get('promoted', [])):
            return ('unk', 'promoted')
        pb = fn['promoted'][idx]
        st.nframe += 1
        pframe = st.nframe
        pfn = {'path': fn['path'] + '::promoted[%d]' % idx, 'blocks': pb['blocks'], 'promoted': []}
        st.frame_fn[pframe] = pfn
        bbi = 0
        for _ in range(16):
            bb = pb['blocks'][bbi]
            for s in bb['stmts']:
                if s['k'] == 'assign':
                    v = self.eval_rvalue(st, pframe, s['rv'])
                    self.write(st, self.eval_place(st, pframe, s['place']), v)
            t = bb['term']
            if t['k'] == 'goto':
                bbi = t['t']
                continue
            break
        return self.read(st, (('L', pframe, 0),))

    def eval_rvalue(self, st, frame, rv):
        if 'use' in rv:
            return self.eval_operand(st, frame, rv['use'])
        if 'ref' in rv:
            return ('ref', self.eval_place(st, frame, rv['ref']))
        if 'rawptr' in rv:
            return ('ref', self.eval_place(st, frame, rv['rawptr']))
        if 'cast' in rv:
            v = self.eval_operand(st, frame, rv['cast'])
            k = rv.get('kind', '')
            if v[0] in ('ref', 'fn', 'closure') or 'Ptr' in k or 'Unsize' in k or 'Transmute' in k:
                return v
            if v[0] == 'const' and isinstance(v[1], int):
                return v
            return ('cast', v, rv.get('to'))
        if 'binop' in rv:
            a = self.eval_operand(st, frame, rv['a'])
            b = self.eval_operand(st, frame, rv['b'])
            op = rv['binop']
            base = op.replace('WithOverflow', '').replace('Unchecked', '')
            if a[0] == 'const' and b[0] == 'const' and isinstance(a[1], int) and isinstance(b[1], int):
                x, y = a[1], b[1]
                r = {'Eq': int(x == y), 'Ne': int(x != y), 'Lt': int(x < y), 'Le': int(x <= y),
                     'Gt': int(x > y), 'Ge': int(x >= y), 'Add': x + y, 'Sub': x - y,
                     'BitAnd': x & y, 'BitOr': x | y}.get(base)
                if r is not None:
                    if 'WithOverflow' in op:
                        return ('tuple', (('const', r), ('const', 0)))
                    return ('const', r)
            if 'WithOverflow' in op:
                return ('tuple', (('bin', base, a, b), ('ovf', base, a, b)))
            if base in ('Eq', 'Ne'):
                # comparison of a boolean with a literal: `x == true` is x, `x == false` is !x
                for lit, other, oj in ((a, b, rv['a']), (b, a, rv['b'])):   # oj: the literal's operand json
                    if lit[0] == 'const' and lit[1] in (0, 1) and isinstance(oj, dict) and oj.get('ty') == 'bool':
                        keep = (lit[1] == 1) == (base == 'Eq')
                        return other if keep else ('un', 'Not', other)
            return ('bin', base, a, b)
        if 'unop' in rv:
            a = self.eval_operand(st, frame, rv['a'])
            if rv['unop'] == 'Not' and a[0] == 'const' and a[1] in (0, 1):
                return ('const', 1 - a[1])
            if rv['unop'] == 'PtrMetadata':
                return ('un', 'PtrMetadata', a)
            return ('un', rv['unop'], a)
        if 'discr' in rv:
            x = self.read(st, self.eval_place(st, frame, rv['discr']))
            enum = rv['of']['enum'] if rv.get('of') else None
            if x[0] == 'agg':
                tab = self.enums.get(x[1], {})
                for k, n in tab.items():
                    if n == x[2]:
                        return ('const', k)
            return ('discr', x, enum)
        if 'agg' in rv:
            ops = [self.eval_operand(st, frame, o) for o in rv['ops']]
            k = rv['agg']
            if k == 'adt':
                groups = getattr(self.F, 'group_fields', None)
                if groups and any((rv['adt'], n_) in groups for n_ in rv['fields']):
                    # splice the fields of a field group into the struct that holds it
                    out_ = []
                    for n_, v_ in zip(rv['fields'], ops):
                        if (rv['adt'], n_) in groups and v_[0] == 'agg' and v_[1] == groups[(rv['adt'], n_)]:
                            out_.extend(v_[3])
                        else:
                            out_.append((n_, v_))
                    return ('agg', rv['adt'], rv['variant'], tuple(out_))
                return ('agg', rv['adt'], rv['variant'], tuple(zip(rv['fields'], ops)))
            if k == 'tuple':
                return ('tuple', tuple(ops))
            if k == 'closure':
                return ('closure', rv['closure'], tuple(ops))
            return ('aggother', k, tuple(ops))
        return ('unk', rv.get('other', '?')[:60])

    # ------------------------------------------------------------------- run
    def run(self, fn_path, arg_values=None, include_loopbound=False):
        """enumerate paths of the entry function; returns list[Path].  include_loopbound: also return the states
        cut off at the loop bound (exit == 'loopbound'), for rules that evaluate a loop invariant"""
        self.yield_pruned = include_loopbound
        self._alias = (fn_path if isinstance(fn_path, str) else fn_path['path']) in self.F.alias_fns
        fn = self.F.fn(fn_path) if isinstance(fn_path, str) else fn_path
        if fn is None:
            from facts import AnchorMissing
            raise AnchorMissing('function %s not found' % fn_path)
        st = St()
        names = {}
        for d in fn['debug']:
            if not d['place']['p']:
                names.setdefault(d['place']['l'], d['name'])
        args = []
        guard_params = []
        for i in range(1, fn['arg_count'] + 1):
            if arg_values and i - 1 < len(arg_values) and arg_values[i - 1] is not None:
                args.append(arg_values[i - 1])
                continue
            name = names.get(i, 'arg%d' % i)
            # rules that are written against a function's parameters by role may give them canonical names by position
            # (parameter names are not vocabulary): {function name: [names]}
            ov = (getattr(self, 'param_names', None) or {}).get(fn.get('name') or fn['path'].rsplit('::', 1)[-1])
            if ov and i - 1 < len(ov) and name != 'self':
                name = ov[i - 1]
            if self._alias and name == 'self':
                name = 'outer_self'
            ty = fn['locals'][i]['ty']
            if ty['k'] == 'ref' and (ty.get('ty') or {}).get('path') == 'std::task::Waker':
                # a `&Waker` handed down instead of the `&mut Context`: it is the waker of the current poll
                args.append(('ref', (('cxwaker',),)))
            elif ty['k'] in ('ref', 'ptr'):
                args.append(('ref', (('P', name),)))
            elif ty['k'] == 'adt' and ty['path'] == 'std::pin::Pin' and ty['args'] and ty['args'][0]['k'] == 'ref':
                args.append(('pin', ('ref', (('P', name),))))
            elif self._bundle_fields(ty) is not None:
                # a private struct that bundles the arguments which travel together (`PollCtx { node, cx }`): its
                # reference-typed fields are named like parameters, so the own node inside is the own node
                args.append(self._bundle_value(ty))
            elif ty['k'] == 'ref' and self._bundle_fields(ty.get('ty') or {}) is not None:
                st.store[(('P', name),)] = self._bundle_value(ty['ty'])
                args.append(('ref', (('P', name),)))
            elif ty['k'] == 'adt' and ty['path'].startswith('lock_api::') and ty['path'].endswith('MutexGuard'):
                # a private helper that is handed the already acquired guard: it runs under the caller's lock
                args.append(('guard', (('P', name),)))
                guard_params.append((('P', name),))
            else:
                args.append(('param', name))
        # what every calling context knows about the caller's own (unlinked) node: see rl.entry_contexts
        for pname, (sf, enum, allowed) in (getattr(self.F, 'entry_ctx', None) or {}).get(fn['path'], {}).items():
            key = ('discr', ('init', (('P', pname), 'data', sf)))
            dom = self.variants_of(enum)
            for v in dom:
                if v not in allowed:
                    self._set_fact(st, key, v, False, dom)
        for m_ in guard_params:
            st.events.append({'k': 'lock', 'mutex': m_, 'fn': fn['path'], 'frame': 1, 'ln': None, 'by_param': True,
                              'eid': st.eid(), 'callee': 'lock_api::MutexGuard (parameter)', 'name': 'lock', 'args': (),
                              'ci': {}})
        out = []
        for st2, rv in self.run_fn(fn, args, st):
            rv = self._public_shape(fn, st2, rv)
            self.stats['paths'] += 1
            exit_kind = 'panic' if rv is PANIC else 'return'
            if rv is PANIC and st2.pruned == -1:
                exit_kind = 'loopbound'
            out.append(Path(st2.events, st2.facts, st2.store, rv, exit_kind, st2.trace, fn['path']))
            if len(out) >= self.max_paths:
                self.stats['truncated'] += 1
                break
        return out

    def _subst_ty(self, st, frame, ty):
        if ty and ty.get('k') == 'param':
            return (st.frame_subst.get(frame) or {}).get(ty.get('name'), ty)
        return ty

    def _devirtualise(self, st, frame, ci):
        """(function, substitution) for a call of a crate trait's method on a type parameter whose instance this frame
        knows; the type's own impl of the method, else the trait's provided method with Self := that type"""
        tr, name = ci.get('trait'), ci['name']
        g = ci.get('gargs') or []
        selfty = self._subst_ty(st, frame, g[0]) if g else None
        impls = [f for f in self.F.raw['fns'] if f.get('impl_trait') == tr and f.get('name') == name]
        default = [f for f in self.F.raw['fns'] if f.get('in_trait') == tr and f.get('name') == name]
        if selfty and selfty.get('k') == 'adt':
            mine = [f for f in impls if f.get('impl_adt') == selfty.get('path')]
            if len(mine) > 1:
                # several impls for the same type constructor (`Option<&A>` and `Option<Arc<A>>`): match the arguments
                mine = [f for f in mine if _ty_matches((self.F.impl_by_id.get(f.get('impl')) or {}).get('self_ty'), selfty)]
            if len(mine) == 1:
                return mine[0], None
            if not mine and len(default) == 1:
                return default[0], {'Self': selfty}
        if selfty and selfty.get('k') in ('tuple', 'ref', 'ptr', 'array', 'slice'):
            # an impl for a non-nominal type (`impl<T> Settle for (Poll<()>, Option<T>)`): match the shape
            mine = [f for f in impls if _ty_matches((self.F.impl_by_id.get(f.get('impl')) or {}).get('self_ty'), selfty)
                    and ((self.F.impl_by_id.get(f.get('impl')) or {}).get('self_ty') or {}).get('k') == selfty.get('k')]
            if len(mine) == 1:
                return mine[0], None
        # (no "the only implementor" shortcut: a generic function analysed on its own stays generic, whatever the
        # feature configuration leaves as implementors)
        return None, None

    def _bundle_fields(self, ty):
        """fields of a crate-local struct that carries a `&mut ListNode<..>` / `&mut HeapNode<..>` (an argument
        bundle), else None"""
        if not ty or ty.get('k') != 'adt' or not ty.get('local'):
            return None
        a = self.F.adts.get(ty['path'])
        if not a or a['kind'] != 'struct' or ty['path'] in NODE_ADTS_:
            return None
        fields = a['variants'][0]['fields']
        if any(f['ty'].get('k') == 'ref' and (f['ty'].get('ty') or {}).get('k') == 'adt'
               and f['ty']['ty'].get('path') in NODE_ADTS_ for f in fields):
            return fields
        return None

    def _bundle_value(self, ty):
        vals = []
        for f in self._bundle_fields(ty):
            ft = f['ty']
            if ft.get('k') in ('ref', 'ptr'):
                v = ('ref', (('P', f['name']),))
            elif ft.get('k') == 'adt' and ft.get('path') == 'std::pin::Pin' and ft.get('args') and ft['args'][0].get('k') == 'ref':
                v = ('pin', ('ref', (('P', f['name']),)))
            else:
                v = ('param', f['name'])
            vals.append((f['name'], v))
        a = self.F.adts[ty['path']]
        return ('agg', ty['path'], a['variants'][0]['name'], tuple(vals))

    def _public_shape(self, fn, st, rv):
        """the return value of a function that reports through a private outcome enum, converted the way the crate
        itself converts it (see rl.outcome_decoders); anything else is returned unchanged"""
        oc = getattr(self.F, 'outcomes', None)
        if not oc or rv is PANIC or rv is None or rv[0] != 'agg':
            return rv
        if rv[1] in oc['conv'] and oc['conv'][rv[1]] != fn['path']:
            cf = self.F.fn(oc['conv'][rv[1]])
            st1 = st.copy()
            res = [(s2, r2) for s2, r2 in self.run_fn(cf, [rv], st1) if r2 is not PANIC]
            if res and all(r2 == res[0][1] for _s, r2 in res):
                # one result on every path of the conversion.  Whatever the outcome carried and the conversion
                # consumed itself (a waker it wakes) stays visible as a trailing element, so that "is handed on to
                # the caller" remains decidable
                c = res[0][1]
                extra = tuple(x for _n, x in rv[3] if not _contains(c, x) and x[0] not in ('const',))
                if not extra:
                    return c
                if c[0] == 'tuple':
                    return ('tuple', tuple(c[1]) + extra)
                return ('tuple', (c,) + extra)
        sh = oc['shape'].get((rv[1], rv[2]))
        if sh is None:
            return rv
        pv, inner = sh
        if pv == 'bool':
            return ('const', inner)
        vals = [x for _, x in rv[3]]

        def with_extras(pollv):
            # what the variant carries next to the verdict stays visible in the public order
            # `(verdict, value handed back, waker to wake)`: fields whose type mentions Waker go last
            a_ = self.F.adts.get(rv[1]) or {}
            vdef = next((v_ for v_ in a_.get('variants', []) if v_['name'] == rv[2]), None)
            tys = {f_['name']: (f_['ty'].get('str') or '') for f_ in (vdef or {}).get('fields', [])}
            back = [x for n_, x in rv[3] if 'Waker' not in tys.get(n_, '') and x[0] != 'const']
            wak = [x for n_, x in rv[3] if 'Waker' in tys.get(n_, '')]
            if not back and not wak:
                return pollv
            return ('tuple', (pollv, back[0] if back else NONE, wak[0] if wak else NONE) + tuple(back[1:]) + tuple(wak[1:]))
        if pv == 'Pending':
            return with_extras(('agg', POLL, 'Pending', ()))
        payload = UNIT if not vals else (vals[0] if len(vals) == 1 else ('tuple', tuple(vals)))
        if inner is None:
            return with_extras(('agg', POLL, 'Ready', (('0', UNIT),)))
        adt_, var_ = inner
        if var_ in ('None',):
            return ('agg', POLL, 'Ready', (('0', ('agg', adt_, var_, ())),))
        return ('agg', POLL, 'Ready', (('0', ('agg', adt_, var_, (('0', payload),))),))

    def run_fn(self, fn, args, st):
        st.nframe += 1
        frame = st.nframe
        st.stack = st.stack + (fn['path'],)
        st.frame_fn[frame] = fn
        if st.pending_subst:
            st.frame_subst[frame] = st.pending_subst
            st.pending_subst = None
        for i, v in enumerate(args):
            st.store[(('L', frame, i + 1),)] = v
        st.events.append({'k': 'enter', 'fn': fn['path'], 'frame': frame, 'args': tuple(args)})
        for st2, rv in self.run_block(fn, frame, 0, st):
            st2.stack = st2.stack[:-1]
            st2.events.append({'k': 'exit', 'fn': fn['path'], 'frame': frame, 'ret': rv})
            yield st2, rv

    def run_block(self, fn, frame, bbi, st):
        while True:
            key = (frame, bbi)
            n = st.visits.get(key, 0)
            if n >= self.max_visits:
                st.pruned += 1
                if self.yield_pruned:
                    # the state at the loop head after max_visits-1 full iterations: a checkpoint at which loop
                    # invariants can be evaluated (exit kind 'loopbound'); propagated upwards like a panic
                    st.pruned = -1
                    st.events.append({'k': 'loopbound', 'fn': fn['path'], 'frame': frame, 'bb': bbi})
                    yield st, PANIC
                return
            st.visits[key] = n + 1
            st.trace.append((fn['path'], bbi))
            bb = fn['blocks'][bbi]
            if bb['cleanup']:
                return
            for s in bb['stmts']:
                self.exec_stmt(st, fn, frame, s)
            t = bb['term']
            k = t['k']
            if k == 'goto':
                bbi = t['t']
                continue
            if k == 'return':
                yield st, self.read(st, (('L', frame, 0),))
                return
            if k in ('unreachable', 'resume', 'terminate', 'other'):
                return
            if k == 'assert':
                c = self.eval_operand(st, frame, t['cond'])
                if c[0] == 'ovf':
                    # arithmetic overflow checks: the non-overflow path is followed
                    pass
                elif not self.assume(st, c, 1 if t['expected'] else 0):
                    return
                bbi = t['t']
                continue
            if k == 'drop':
                loc = self.eval_place(st, frame, t['place'])
                dty = t['ty']
                sub_ = st.frame_subst.get(frame)
                if sub_:
                    # inside an inlined generic helper: the dropped type with the helper's parameters replaced by what
                    # they stand for in this instance (`Option<H>` is `Option<&dyn ChannelSendAccess>` here)
                    try:
                        from autotrait import subst as _subst_deep
                        dty = _subst_deep(dty, sub_)
                        if dty is not t['ty'] and 'str' in dty:
                            dty = dict(dty)
                            dty['str'] = t['ty'].get('str', '') + ' [instance]'
                    except Exception:
                        dty = t['ty']
                st.events.append({'k': 'drop', 'loc': loc, 'val': self.read(st, loc), 'ty': dty,
                                  'fn': fn['path'], 'ln': t['ln'], 'frame': frame})
                bbi = t['t']
                continue
            if k == 'switch':
                v = self.eval_operand(st, frame, t['discr'])
                yield from self.do_switch(fn, frame, st, t, v)
                return
            if k == 'call':
                for st2, ok in self.do_call(fn, frame, st, t):
                    if not ok:
                        yield st2, PANIC
                    elif t['t'] is None:
                        yield st2, PANIC
                    else:
                        yield from self.run_block(fn, frame, t['t'], st2)
                return
            raise RuntimeError('unknown terminator ' + k)

    def exec_stmt(self, st, fn, frame, s):
        k = s['k']
        if k == 'assign':
            v = self.eval_rvalue(st, frame, s['rv'])
            loc = self.eval_place(st, frame, s['place'])
            self._write_ev(st, fn, frame, loc, v, s['ln'])
        elif k == 'setdiscr':
            loc = self.eval_place(st, frame, s['place'])
            self._write_ev(st, fn, frame, loc, ('aggv', s['variant']), s['ln'])

    def _write_ev(self, st, fn, frame, loc, v, ln):
        root = loc[0]
        if root[0] != 'L':
            old = self.read(st, loc)
            st.events.append({'k': 'write', 'loc': loc, 'val': v, 'old': old, 'fn': fn['path'],
                              'ln': ln, 'frame': frame, 'facts_then': None})
        self.write(st, loc, v)

    def do_switch(self, fn, frame, st, t, v):
        targets = [(int(a), int(b)) for a, b in t['targets']]
        otherwise = t['otherwise']
        enum = None
        names = None
        if v[0] == 'discr':
            enum = v[2]
            names = self.enums.get(enum)
        if v[0] == 'const' and isinstance(v[1], int):
            for val, tgt in targets:
                if val == v[1]:
                    yield from self.run_block(fn, frame, tgt, st)
                    return
            yield from self.run_block(fn, frame, otherwise, st)
            return
        if t['dty'] == 'bool':
            domain = [0, 1]
        elif names:
            domain = sorted(names.keys())
        else:
            domain = None
        branches = []
        for val, tgt in targets:
            branches.append(([val], tgt, True))
        covered = [val for val, _ in targets]
        if domain is not None:
            rest = [d for d in domain if d not in covered]
            if rest:
                branches.append((rest, otherwise, True))
        else:
            branches.append((covered, otherwise, False))
        nb = len(branches)
        for i, (vals, tgt, positive) in enumerate(branches):
            st2 = st.copy() if i < nb - 1 else st
            ok = True
            if positive:
                if len(vals) == 1:
                    val = vals[0]
                    if names:
                        ok = self.assume_variant(st2, v[1], names[val], True, enum)
                    else:
                        ok = self.assume(st2, v, val, True)
                    desc = ('eq', names[val] if names else val)
                else:
                    # several remaining values: exclude the covered ones
                    for c in covered:
                        if names:
                            ok = ok and self.assume_variant(st2, v[1], names[c], False, enum)
                        else:
                            ok = ok and self.assume(st2, v, c, False)
                    desc = ('ne', tuple(names[c] if names else c for c in covered))
            else:
                for c in vals:
                    ok = ok and self.assume(st2, v, c, False)
                desc = ('ne', tuple(vals))
            if not ok:
                self.stats['pruned_branches'] += 1
                continue
            st2.events.append({'k': 'assume', 'expr': v, 'desc': desc, 'fn': fn['path'], 'ln': t['ln'],
                               'frame': frame})
            yield from self.run_block(fn, frame, tgt, st2)

    # ------------------------------------------------------------------ calls
    def callee_info(self, t):
        f = t['func']
        if 'fn' not in f:
            return None
        ci = dict(f['fn'])
        r = ci.get('resolved')
        ci['rpath'] = r['path'] if r else ci['path']
        ci['rlocal'] = bool(r and r['local']) or (ci['krate'] == 'futures_intrusive' and not ci.get('trait'))
        ci['radt'] = (r or {}).get('impl_adt') or ci.get('impl_adt')
        ci['rtrait'] = (r or {}).get('impl_trait') or ci.get('impl_trait') or ci.get('trait')
        ci['resolved_gargs'] = (r or {}).get('gargs') or []
        return ci

    def do_call(self, fn, frame, st, t):
        """yields (state, ok); writes the destination itself"""
        ci = self.callee_info(t)
        args = [self.eval_operand(st, frame, a) for a in t['args']]
        dest = self.eval_place(st, frame, t['dest'])
        if ci is None:
            fv = self.eval_operand(st, frame, t['func'])
            if fv[0] in ('closure', 'fn'):
                # a call through a function pointer whose value the path knows (a non-capturing closure or a fn item
                # coerced to `fn(..)` and handed to a generic helper)
                for st2, rv in self.call_closure(st, fv, args):
                    if rv is PANIC:
                        yield st2, False
                    else:
                        self._write_ev(st2, fn, frame, dest, rv, t['ln'])
                        yield st2, True
                return
            eid = st.eid()
            st.events.append({'k': 'call', 'callee': '<indirect>', 'name': '<indirect>', 'args': tuple(args),
                              'ret': ('ret', eid), 'eid': eid, 'fn': fn['path'], 'ln': t['ln'],
                              'frame': frame, 'ci': {}, 'fv': fv, 'mode': 'opaque'})
            self.write(st, dest, ('ret', eid))
            yield st, True
            return
        # 1. summaries
        res = self.summary(fn, frame, st, t, ci, args)
        if res is not None:
            self.stats['summarised_calls'] += 1
            for st2, rv in res:
                if rv is PANIC:
                    yield st2, False
                else:
                    self._write_ev(st2, fn, frame, dest, rv, t['ln'])
                    yield st2, True
            return
        # 2. inlining
        callee = self.F.fn(ci['rpath']) if ci['rlocal'] else None
        if callee is None and not ci.get('rlocal') and (ci.get('trait') in self.F.traits or (
                ci.get('trait') and any(g.get('k') == 'param' for g in (ci.get('gargs') or [])[:1]))):
            # a call on a generic `Self` / `E: Trait` inside a provided trait method or a generic helper: which type the
            # parameter stands for is known from the instance this frame was inlined as (also for a foreign trait the
            # crate implements - `F: Future` in a private helper that polls a stored future of the crate)
            callee, sub = self._devirtualise(st, frame, ci)
            if callee is not None and self._may_inline(st, ci, callee):
                st.pending_subst = sub
                self.stats['inlined_calls'] += 1
                eid = st.eid()
                st.events.append({'k': 'call', 'callee': callee['path'], 'name': ci['name'], 'args': tuple(args),
                                  'ret': None, 'eid': eid, 'fn': fn['path'], 'ln': t['ln'], 'frame': frame,
                                  'ci': ci, 'mode': 'inline', 'argtys': t['argtys']})
                for st2, rv in self.run_fn(callee, args, st):
                    if rv is PANIC:
                        yield st2, False
                    else:
                        st2.events.append({'k': 'ret', 'callee': callee['path'], 'name': ci['name'], 'ret': rv,
                                           'eid': eid, 'fn': fn['path'], 'ln': t['ln'], 'frame': frame})
                        self._write_ev(st2, fn, frame, dest, rv, t['ln'])
                        yield st2, True
                return
            callee = None
        if callee is not None and self._may_inline(st, ci, callee):
            gn = callee.get('generics') or []
            rg = (ci.get('resolved_gargs') or [])
            if gn and len(gn) == len(rg):
                st.pending_subst = {n: self._subst_ty(st, frame, g) for n, g in zip(gn, rg)}
            self.stats['inlined_calls'] += 1
            eid = st.eid()
            st.events.append({'k': 'call', 'callee': ci['rpath'], 'name': ci['name'], 'args': tuple(args),
                              'ret': None, 'eid': eid, 'fn': fn['path'], 'ln': t['ln'], 'frame': frame,
                              'ci': ci, 'mode': 'inline', 'argtys': t['argtys']})
            for st2, rv in self.run_fn(callee, args, st):
                if rv is PANIC:
                    yield st2, False
                else:
                    st2.events.append({'k': 'ret', 'callee': ci['rpath'], 'name': ci['name'], 'ret': rv,
                                       'eid': eid, 'fn': fn['path'], 'ln': t['ln'], 'frame': frame})
                    self._write_ev(st2, fn, frame, dest, rv, t['ln'])
                    yield st2, True
            return
        # 3. fan-out over implementors of a crate trait (dyn / generic dispatch)
        if ci.get('trait') and any(ci['trait'].endswith(x) for x in self.fanout_traits):
            impls = [f for f in self.F.raw['fns']
                     if f.get('impl_trait') == ci['trait'] and f.get('name') == ci['name']]
            if impls:
                for i, callee in enumerate(impls):
                    st1 = st.copy() if i < len(impls) - 1 else st
                    eid = st1.eid()
                    st1.events.append({'k': 'call', 'callee': callee['path'], 'name': ci['name'],
                                       'args': tuple(args), 'ret': None, 'eid': eid, 'fn': fn['path'],
                                       'ln': t['ln'], 'frame': frame, 'ci': ci, 'mode': 'fanout'})
                    for st2, rv in self.run_fn(callee, args, st1):
                        if rv is PANIC:
                            yield st2, False
                        else:
                            self._write_ev(st2, fn, frame, dest, rv, t['ln'])
                            yield st2, True
                return
        # 4. opaque
        self.stats['opaque_calls'] += 1
        eid = st.eid()
        rv = ('ret', eid)
        for a, aty in zip(args, t['argtys']):
            if aty.startswith('&mut') and a[0] == 'ref':
                self.havoc(st, a[1], eid)
        st.events.append({'k': 'call', 'callee': ci['rpath'], 'name': ci['name'], 'args': tuple(args),
                          'ret': rv, 'eid': eid, 'fn': fn['path'], 'ln': t['ln'], 'frame': frame, 'ci': ci,
                          'mode': 'opaque', 'diverges': t['t'] is None, 'exp': t.get('exp', False),
                          'argtys': t['argtys']})
        if t['t'] is None:
            st.events.append({'k': 'panic', 'callee': ci['rpath'], 'fn': fn['path'], 'ln': t['ln'],
                              'frame': frame, 'exp': t.get('exp', False)})
            yield st, False
            return
        self._write_ev(st, fn, frame, dest, rv, t['ln'])
        yield st, True

    def _may_inline(self, st, ci, callee):
        if callee['path'] in st.stack:
            return False
        if len(st.stack) >= self.max_depth:
            return False
        if ci['radt'] in QUEUE_ADTS and not self.inline_queue_helpers:
            return False
        if (callee.get('impl_trait') or '').endswith('fmt::Debug'):
            return False
        if self.inline_filter is not None and not self.inline_filter(ci, callee):
            return False
        return True

    # -------------------------------------------------------------- summaries
    def summary(self, fn, frame, st, t, ci, args):
        path = ci['rpath']
        name = ci['name']
        adt = ci['radt']
        tr = ci.get('rtrait') or ''

        def ev(kind, **kw):
            eid = st.eid()
            e = {'k': kind, 'callee': path, 'name': name, 'args': tuple(args), 'eid': eid,
                 'fn': fn['path'], 'ln': t['ln'], 'frame': frame, 'ci': ci}
            e.update(kw)
            st.events.append(e)
            return eid

        # ---- intrusive queues (summaries; their internals are C20's business)
        if adt in QUEUE_ADTS:
            q = self.deref(args[0]) if args else None
            heap = adt == HEAP_ADT
            qi = st.qinfo.setdefault(q, {}) if q is not None else {}

            def q_empty(s2, info):
                """True / False / None"""
                if info.get('empty') is not None:
                    return info['empty']
                ex = info.get('empty_expr')
                if ex is not None:
                    k = self.known(s2, ex)
                    if k and k[0] == 'eq':
                        return bool(k[1])
                return None

            if name in ('add_front', 'insert'):
                node = self.deref(args[1])
                ev('qop', op=name, queue=q, node=node)
                was_empty = q_empty(st, qi)
                qi.pop('empty_expr', None)
                qi['empty'] = False
                if heap:
                    qi.pop('min', None)
                else:
                    qi['head'] = node
                    if was_empty:
                        qi['tail'] = node
                return [(st, UNIT)]
            if name == 'remove':
                node = self.deref(args[1])
                eid = ev('qop', op='remove', queue=q, node=node)
                qi.clear()
                if heap:
                    return [(st, UNIT)]
                st.events[-1]['ret'] = ('qremoved', eid)
                return [(st, ('qremoved', eid))]
            if name in ('remove_last', 'remove_first', 'peek_last', 'peek_last_mut', 'peek_first',
                        'peek_first_mut', 'peek_min'):
                end = 'min' if heap else ('tail' if 'last' in name else 'head')
                removing = name.startswith('remove')
                empty = q_empty(st, qi)
                known_tok = qi.get(end)
                outs = []

                def mk(s2, tok):
                    e1 = {'k': 'qop', 'op': name, 'queue': q, 'node': tok,
                          'result': 'Some' if tok is not None else 'None', 'callee': path, 'name': name,
                          'args': tuple(args), 'eid': s2.eid(), 'fn': fn['path'], 'ln': t['ln'],
                          'frame': frame, 'ci': ci}
                    s2.events.append(e1)
                    return e1

                if empty is not True and known_tok is None:
                    # unknown: the queue may be empty
                    pass
                if empty is True or (empty is None and known_tok is None):
                    s_none = st.copy() if empty is not True else st
                    mk(s_none, None)
                    i2 = s_none.qinfo.setdefault(q, {})
                    i2.clear()
                    i2['empty'] = True
                    outs.append((s_none, NONE))
                    if empty is True:
                        return outs
                if known_tok is not None:
                    tok = known_tok
                    mk(st, tok)
                else:
                    e1 = mk(st, None)
                    tok = (('tok', e1['eid']),)
                    e1['node'] = tok
                    e1['result'] = 'Some'
                    e1['fresh'] = True
                i2 = st.qinfo.setdefault(q, {})
                if removing:
                    i2.clear()
                else:
                    i2.pop('empty_expr', None)
                    i2['empty'] = False
                    i2[end] = tok
                outs.append((st, some(('ref', tok))))
                return outs
            if name == 'is_empty':
                eid = ev('qop', op='is_empty', queue=q, node=None)
                e = q_empty(st, qi)
                if e is not None:
                    rv = ('const', int(e))
                else:
                    rv = ('qempty', q, eid)
                    qi['empty_expr'] = rv
                st.events[-1]['ret'] = rv
                return [(st, rv)]
            if name in ('drain', 'reverse_drain'):
                eid = ev('qop', op=name, queue=q, node=None)
                tok = (('tok', eid),)
                st.events[-1]['node'] = tok
                qi.clear()
                qi['empty'] = True
                clo = args[1]
                outs = []
                st.events.append({'k': 'drain_begin', 'eid': eid, 'queue': q, 'fn': fn['path'], 'ln': t['ln'],
                                  'frame': frame})
                before = dict(st.store)
                nframe0 = st.nframe
                qop_ev = dict(st.events[-2])
                for st2, rv in self.call_closure(st, clo, [('ref', tok)]):
                    carried = rv is not PANIC and any(
                        (loc[0][0] == 'C' or (loc[0][0] == 'L' and loc[0][1] <= nframe0)) and loc in before
                        and before[loc] != v_ for loc, v_ in st2.store.items())
                    if not carried:
                        st2.events.append({'k': 'drain_end', 'eid': eid, 'queue': q, 'fn': fn['path'],
                                           'ln': t['ln'], 'frame': frame})
                        outs.append((st2, UNIT if rv is not PANIC else PANIC))
                        continue
                    # the callback keeps state between nodes (a captured `&mut` local it wrote): what it does to the
                    # SECOND node may differ from what it does to the first - run it once more on another node
                    eid2 = st2.eid()
                    tok2 = (('tok', eid2),)
                    e2 = dict(qop_ev)
                    e2.update({'eid': eid2, 'node': tok2, 'second': True})
                    st2.events.append(e2)
                    for st3, rv3 in self.call_closure(st2, clo, [('ref', tok2)]):
                        st3.events.append({'k': 'drain_end', 'eid': eid, 'queue': q, 'fn': fn['path'],
                                           'ln': t['ln'], 'frame': frame})
                        outs.append((st3, UNIT if rv3 is not PANIC else PANIC))
                return outs
            if name == 'new':
                ev('qop', op='new', queue=None, node=None)
                return [(st, ('agg', adt, 'new', ()))]
            return None

        # ---- the crate's waker-refresh helper (its own body is checked by rule W4h)
        if path.endswith('utils::update_waker_ref'):
            slot = self.deref(args[0])
            ev('update_waker', slot=slot)
            self.write(st, slot, some(('curwaker',)))
            return [(st, UNIT)]

        # ---- lock_api
        if path.startswith('lock_api::') and name == 'lock' and 'Mutex' in path:
            m = self.deref(args[0])
            ev('lock', mutex=m)
            return [(st, ('guard', m))]
        if tr.endswith('ops::Deref') or tr.endswith('ops::DerefMut'):
            if ci['rlocal'] and self.F.fn(ci['rpath']) is not None:
                return None  # crate-local Deref impls are inlined
            inner = self.read(st, self.deref(args[0])) if args[0][0] == 'ref' else ('unk', 'deref')
            if inner[0] == 'guard':
                if self._alias:
                    return [(st, ('ref', (('P', 'self'),)))]
                return [(st, ('ref', inner[1] + ('<locked>',)))]
            if inner[0] == 'pin':
                return [(st, inner[1])]
            return [(st, ('ref', (('D', inner),)))]

        # ---- Pin plumbing
        if path.startswith('std::pin::Pin'):
            if name in ('get_unchecked_mut', 'get_mut', 'into_inner', 'get_ref', 'into_ref'):
                a = args[0]
                return [(st, a[1] if a[0] == 'pin' else ('unpin', a))]
            if name in ('new_unchecked', 'new'):
                return [(st, ('pin', args[0]))]
            if name in ('as_mut', 'as_ref'):
                inner = self.read(st, self.deref(args[0]))
                if inner[0] == 'pin':
                    return [(st, inner)]
                return [(st, ('pin', ('ref', (('D', inner),))))]
            if name in ('map_unchecked_mut', 'map_unchecked'):
                a = args[0]
                ptr = a[1] if a[0] == 'pin' else ('unpin', a)
                outs = []
                for st2, rv in self.call_closure(st, args[1], [ptr]):
                    outs.append((st2, ('pin', rv) if rv is not PANIC else PANIC))
                return outs
            if name == 'set':
                a = args[0]
                inner = self.read(st, self.deref(a)) if a[0] == 'ref' else a
                if inner[0] == 'pin' and inner[1][0] == 'ref':
                    loc = inner[1][1]
                    old = self.read(st, loc)
                    ev('pinset', loc=loc, old=old, val=args[1])
                    self._write_ev(st, fn, frame, loc, args[1], t['ln'])
                    return [(st, UNIT)]
                return None
            if name == 'as_pin_mut' or name == 'as_pin_ref':
                return None
        if path.startswith('std::option::Option') and name in ('as_pin_mut', 'as_pin_ref'):
            a = args[0]
            if a[0] == 'pin' and a[1][0] == 'ref':
                loc = a[1][1]
                v = self.read(st, loc)
                return self._opt_fork(st, v, lambda s: some(('pin', ('ref', loc + (('dc', 'Some'), '0')))))
            return None

        # ---- Into / From that only wraps: T -> Option<T> is Some(x), T -> T is x
        if name in ('into', 'from') and len(args) == 1 and ('convert::Into' in (ci.get('trait') or '') + path
                                                               or 'convert::From' in (ci.get('trait') or '') + path):
            dty = t.get('dest_ty') or ''
            aty = (t.get('argtys') or [''])[0]
            if dty == aty:
                return [(st, args[0])]
            if dty.startswith('std::option::Option<') and dty == 'std::option::Option<%s>' % aty:
                return [(st, some(args[0]))]
            # `x.into()` where the crate implements `From<X> for Y`: std's blanket Into calls that impl
            if name == 'into':
                base = dty.split('<', 1)[0]
                froms = [f_ for f_ in self.F.raw['fns'] if f_.get('name') == 'from' and f_.get('impl_adt') == base
                         and (f_.get('impl_trait') or '').endswith('convert::From')]
                if len(froms) == 1 and froms[0]['path'] not in st.stack:
                    return [(st2, rv) for st2, rv in self.run_fn(froms[0], list(args), st)]
        # ---- calling a closure / fn item that was passed around as a value: <F as Fn*>::call*(f, (args..))
        if name in ('call', 'call_mut', 'call_once') and len(args) == 2 and 'ops::Fn' in (ci.get('trait') or '') + path:
            f = args[0]
            for _ in range(3):
                if f[0] == 'ref':
                    f = self.read(st, f[1])
            if f[0] in ('closure', 'fn'):
                params = [x for x in args[1][1]] if args[1][0] == 'tuple' else [args[1]]
                return [(st2, rv) for st2, rv in self.call_closure(st, f, params)]
        # ---- bool::then / then_some
        if name in ('then', 'then_some') and len(args) == 2 and ('bool' in path or path.startswith('std::bool')):
            outs = []
            c = args[0]
            k = self.known(st, c)
            branches = []
            if k and k[0] == 'eq':
                branches = [(st, bool(k[1]))]
            else:
                st_f = st.copy()
                if self.assume(st_f, c, 0):
                    branches.append((st_f, False))
                if self.assume(st, c, 1):
                    branches.append((st, True))
            for st2, truth in branches:
                if not truth:
                    # then_some evaluates (and here drops) its argument eagerly; `then` never calls the closure
                    outs.append((st2, NONE))
                elif name == 'then_some':
                    outs.append((st2, some(args[1])))
                else:
                    for st3, rv in self.call_closure(st2, args[1], []):
                        outs.append((st3, some(rv) if rv is not PANIC else PANIC))
            return outs
        # ---- integer conversions that can fail: <uN as TryFrom<uM>>::try_from(x) is Ok(x) iff x <= uN::MAX
        if name == 'try_from' and len(args) == 1 and 'TryFrom' in (ci.get('trait') or '') + path:
            m = re.search(r'<(u8|u16|u32|u64|usize) as', path + ' ' + (ci.get('gargs_str') or '')) or \
                re.search(r'TryFrom<[a-z0-9]+> for (u8|u16|u32|u64|usize)>', path)
            if m:
                mx = {'u8': 2 ** 8 - 1, 'u16': 2 ** 16 - 1, 'u32': 2 ** 32 - 1, 'u64': 2 ** 64 - 1, 'usize': 2 ** 64 - 1}[m.group(1)]
                x = args[0]
                outs = []
                st_e = st.copy()
                if self.assume(st_e, ('bin', 'Gt', x, ('const', mx)), 1):
                    eid = st_e.eid()
                    outs.append((st_e, ('agg', RESULT, 'Err', (('0', ('ret', eid)),))))
                if self.assume(st, ('bin', 'Gt', x, ('const', mx)), 0):
                    outs.append((st, ('agg', RESULT, 'Ok', (('0', x),))))
                return outs
        if path.startswith('std::result::Result') and name in ('unwrap_or', 'unwrap_or_default', 'unwrap_or_else'):
            outs = []
            for st2, variant, inner in self._enum_split(st, args[0], RESULT, ('Ok', 'Err')):
                if variant == 'Ok':
                    outs.append((st2, inner))
                elif name == 'unwrap_or':
                    outs.append((st2, args[1]))
                elif name == 'unwrap_or_default':
                    outs.append((st2, ('const', 0)))
                else:
                    for st3, rv in self.call_closure(st2, args[1], [inner]):
                        outs.append((st3, rv))
            return outs
        # ---- `for i in a..b`: Range<usize>::next
        if name == 'next' and args and args[0][0] == 'ref' and 'ops::Range<' in (t.get('argtys') or [''])[0] \
                and 'RangeInclusive' not in (t.get('argtys') or [''])[0]:
            loc = self.deref(args[0])
            start = self.read(st, loc + ('start',))
            end = self.read(st, loc + ('end',))
            outs = []
            st_n = st.copy()
            if self.assume(st_n, ('bin', 'Lt', start, end), 0):
                outs.append((st_n, NONE))
            if self.assume(st, ('bin', 'Lt', start, end), 1):
                nxt = ('const', start[1] + 1) if start[0] == 'const' and isinstance(start[1], int) else \
                    ('bin', 'Add', start, ('const', 1))
                self.write(st, loc + ('start',), nxt)
                outs.append((st, some(start)))
            return outs
        # ---- iter::from_fn(next).for_each(f): `while let Some(x) = next() { f(x) }`, unrolled to the loop bound
        if name == 'from_fn' and 'iter' in path and len(args) == 1:
            return [(st, ('fromfn', args[0]))]
        if name == 'for_each' and len(args) == 2 and args[0][0] == 'fromfn':
            outs = []
            work = [(st, 0)]
            nxt_clo, f_clo = args[0][1], args[1]
            while work:
                st1, k = work.pop()
                if k >= self.max_visits:
                    st1.pruned += 1
                    continue
                for st2, item in self.call_closure(st1, nxt_clo, []):
                    if item is PANIC:
                        outs.append((st2, PANIC))
                        continue
                    for st3, inner in self._opt_split(st2, item):
                        if inner is None:
                            outs.append((st3, UNIT))
                            continue
                        for st4, rv4 in self.call_closure(st3, f_clo, [inner]):
                            if rv4 is PANIC:
                                outs.append((st4, PANIC))
                            else:
                                work.append((st4, k + 1))
            return outs
        if name == 'identity' and 'convert' in path and len(args) == 1:
            return [(st, args[0])]
        # ---- iter::successors(first, f) and `.last()` on it: the walk `cur = first; while let Some(n) = f(&cur) { cur = n }`
        if name == 'successors' and 'iter' in path and len(args) == 2:
            return [(st, ('succ', args[0], args[1]))]
        if name == 'last' and args and args[0][0] == 'succ':
            outs = []
            _s, first, clo = args[0]
            for st1, cur in self._opt_split(st, first):
                if cur is None:
                    outs.append((st1, NONE))
                    continue
                work = [(st1, cur, 0)]
                while work:
                    st2, c, k = work.pop()
                    if k >= self.max_visits - 1:
                        st2.pruned += 1       # more steps than the unrolling bound: not enumerated (as for a loop)
                        continue
                    eid_ = st2.eid()
                    tmp = (('C', eid_),)
                    st2.store[tmp] = c
                    for st3, nxt in self.call_closure(st2, clo, [('ref', tmp)]):
                        if nxt is PANIC:
                            outs.append((st3, PANIC))
                            continue
                        for st4, n2 in self._opt_split(st3, nxt):
                            if n2 is None:
                                outs.append((st4, some(c)))
                            else:
                                work.append((st4, n2, k + 1))
            return outs
        if name == 'into_iter' and len(args) == 1 and args[0][0] == 'agg' and str(args[0][1]).endswith('ops::Range'):
            return [(st, args[0])]
        # ---- checked arithmetic on unsigned integers: checked_sub(a, b) is Some(a - b) iff a >= b
        if name == 'checked_sub' and len(args) == 2 and 'num' in path:
            a, b = args
            outs = []
            st_none = st.copy()
            if self.assume(st_none, ('bin', 'Lt', a, b), 1):
                outs.append((st_none, NONE))
            if self.assume(st, ('bin', 'Lt', a, b), 0):
                outs.append((st, some(('bin', 'Sub', a, b))))
            return outs
        # ---- checked_add(a, b) is Some(a + b) iff the sum fits; for b == 1 that is `a != MAX` of the integer type
        if name == 'checked_add' and len(args) == 2 and 'num' in path:
            a, b = args
            m_ = re.search(r'num::<impl (u8|u16|u32|u64|usize|u128)>', path) or re.search(r'\b(u8|u16|u32|u64|usize|u128)::checked_add', path)
            width = {'u8': 8, 'u16': 16, 'u32': 32, 'u64': 64, 'usize': 64, 'u128': 128}.get(m_.group(1)) if m_ else None
            outs = []
            if b == ('const', 1) and width:
                mx = ('const', (1 << width) - 1)
                st_none = st.copy()
                if self.assume(st_none, ('bin', 'Eq', a, mx), 1):
                    outs.append((st_none, NONE))
                if self.assume(st, ('bin', 'Eq', a, mx), 0):
                    outs.append((st, some(('bin', 'Add', a, b))))
                return outs
            st_none = st.copy()
            outs.append((st_none, NONE))
            outs.append((st, some(('bin', 'Add', a, b))))
            return outs
        # ---- an Option used as a one-element iterator: opt.into_iter().for_each(f)
        if name == 'into_iter' and len(args) == 1 and 'option::Option' in path + (ci.get('gargs_str') or ''):
            return [(st, ('optiter', args[0]))]
        # ---- Option / Poll helpers
        if path.startswith('std::option::Option'):
            if name == 'take':
                loc = self.deref(args[0])
                old = self.read(st, loc)
                ev('take', loc=loc, old=old)
                self._write_ev(st, fn, frame, loc, NONE, t['ln'])
                return [(st, old)]
            if name == 'replace':
                loc = self.deref(args[0])
                old = self.read(st, loc)
                ev('replace', loc=loc, old=old, val=args[1])
                self._write_ev(st, fn, frame, loc, some(args[1]), t['ln'])
                return [(st, old)]
            if name in ('expect', 'unwrap'):
                v = args[0]
                if v[0] == 'agg':
                    if v[2] == 'Some':
                        return [(st, v[3][0][1])]
                    st.events.append({'k': 'panic', 'callee': path, 'name': name, 'what': 'unwrap(None)', 'val': v,
                                      'msg': args[1] if len(args) > 1 else None, 'eid': st.eid(),
                                      'fn': fn['path'], 'ln': t['ln'], 'frame': frame})
                    return [(st, PANIC)]
                outs = []
                st_none = st.copy()
                if self.assume_variant(st_none, v, 'None', True, OPTION):
                    eid = st_none.eid()
                    st_none.events.append({'k': 'panic', 'callee': path, 'name': name, 'what': 'unwrap(None)',
                                           'val': v, 'msg': args[1] if len(args) > 1 else None, 'eid': eid,
                                           'fn': fn['path'], 'ln': t['ln'], 'frame': frame})
                    outs.append((st_none, PANIC))
                if self.assume_variant(st, v, 'Some', True, OPTION):
                    ev('unwrap', val=v)
                    outs.append((st, self.project(v, (('dc', 'Some'), '0'))))
                return outs
            if name in ('is_none', 'is_some'):
                v = self.read(st, self.deref(args[0]))
                want = 'None' if name == 'is_none' else 'Some'
                if v[0] == 'agg':
                    return [(st, ('const', int(v[2] == want)))]
                k = self.variant_known(st, v)
                if k and k[0] == 'eq':
                    return [(st, ('const', int(k[1] == want)))]
                return [(st, ('isv', v, want, OPTION))]
            if name in ('as_ref', 'as_mut'):
                loc = self.deref(args[0])
                v = self.read(st, loc)
                return self._opt_fork(st, v, lambda s: some(('ref', loc + (('dc', 'Some'), '0'))))
            if name == 'map':
                v = args[0]
                outs = []
                for st2, inner in self._opt_split(st, v):
                    if inner is None:
                        outs.append((st2, NONE))
                    else:
                        for st3, rv in self.call_closure(st2, args[1], [inner]):
                            outs.append((st3, some(rv) if rv is not PANIC else PANIC))
                return outs
            if name == 'map_or':
                v = args[0]
                outs = []
                for st2, inner in self._opt_split(st, v):
                    if inner is None:
                        outs.append((st2, args[1]))
                    else:
                        for st3, rv in self.call_closure(st2, args[2], [inner]):
                            outs.append((st3, rv))
                return outs
            if name in ('get_or_insert_with', 'get_or_insert', 'insert'):
                loc = self.deref(args[0])
                v = self.read(st, loc)
                outs = []
                if name == 'insert':
                    ev('replace', loc=loc, old=v, val=args[1])
                    self._write_ev(st, fn, frame, loc, some(args[1]), t['ln'])
                    return [(st, ('ref', loc + (('dc', 'Some'), '0')))]
                for st2, inner in self._opt_split(st, v):
                    if inner is not None:
                        outs.append((st2, ('ref', loc + (('dc', 'Some'), '0'))))
                    elif name == 'get_or_insert':
                        self._write_ev(st2, fn, frame, loc, some(args[1]), t['ln'])
                        outs.append((st2, ('ref', loc + (('dc', 'Some'), '0'))))
                    else:
                        for st3, rv in self.call_closure(st2, args[1], []):
                            if rv is PANIC:
                                outs.append((st3, PANIC))
                                continue
                            st3.events.append({'k': 'replace', 'loc': loc, 'old': NONE, 'val': rv, 'fn': fn['path'],
                                               'ln': t['ln'], 'frame': frame, 'callee': path, 'name': name,
                                               'eid': st3.eid()})
                            self._write_ev(st3, fn, frame, loc, some(rv), t['ln'])
                            outs.append((st3, ('ref', loc + (('dc', 'Some'), '0'))))
                return outs
            if name == 'flatten':
                outs = []
                for st2, inner in self._opt_split(st, args[0]):
                    outs.append((st2, NONE if inner is None else inner))
                return outs
            if name == 'unwrap_or_default':
                outs = []
                for st2, inner in self._opt_split(st, args[0]):
                    outs.append((st2, ('const', 0) if inner is None else inner))
                return outs
            if name == 'filter':
                outs = []
                for st2, inner in self._opt_split(st, args[0]):
                    if inner is None:
                        outs.append((st2, NONE))
                        continue
                    tmp = (('C', st2.eid()),)
                    st2.store[tmp] = inner          # the predicate receives &T
                    for st3, rv in self.call_closure(st2, args[1], [('ref', tmp)]):
                        if rv is PANIC:
                            outs.append((st3, PANIC))
                            continue
                        k = self.known(st3, rv)
                        if k and k[0] == 'eq':
                            outs.append((st3, some(inner) if k[1] else NONE))
                            continue
                        st_f = st3.copy()
                        if self.assume(st_f, rv, 0):
                            outs.append((st_f, NONE))
                        if self.assume(st3, rv, 1):
                            outs.append((st3, some(inner)))
                return outs
            if name in ('as_deref', 'as_deref_mut'):
                loc = self.deref(args[0])
                v = self.read(st, loc)
                return self._opt_fork(st, v, lambda s: some(('ref', loc + (('dc', 'Some'), '0'))))
            if name == 'and_then':
                outs = []
                for st2, inner in self._opt_split(st, args[0]):
                    if inner is None:
                        outs.append((st2, NONE))
                    else:
                        for st3, rv in self.call_closure(st2, args[1], [inner]):
                            outs.append((st3, rv))
                return outs
            if name in ('unwrap_or', 'or'):
                outs = []
                for st2, inner in self._opt_split(st, args[0]):
                    if inner is None:
                        outs.append((st2, args[1]))
                    else:
                        outs.append((st2, inner if name == 'unwrap_or' else some(inner)))
                return outs
            if name in ('unwrap_or_else', 'or_else', 'map_or_else'):
                outs = []
                for st2, inner in self._opt_split(st, args[0]):
                    if inner is None:
                        for st3, rv in self.call_closure(st2, args[1], []):
                            outs.append((st3, rv))
                    elif name == 'map_or_else':
                        for st3, rv in self.call_closure(st2, args[2], [inner]):
                            outs.append((st3, rv))
                    else:
                        outs.append((st2, inner if name == 'unwrap_or_else' else some(inner)))
                return outs
            if name in ('ok_or', 'ok_or_else'):
                outs = []
                for st2, inner in self._opt_split(st, args[0]):
                    if inner is not None:
                        outs.append((st2, ('agg', RESULT, 'Ok', (('0', inner),))))
                    elif name == 'ok_or':
                        outs.append((st2, ('agg', RESULT, 'Err', (('0', args[1]),))))
                    else:
                        for st3, rv in self.call_closure(st2, args[1], []):
                            outs.append((st3, ('agg', RESULT, 'Err', (('0', rv),)) if rv is not PANIC else PANIC))
                return outs
            if name in ('cloned', 'copied'):
                outs = []
                for st2, inner in self._opt_split(st, args[0]):
                    if inner is None:
                        outs.append((st2, NONE))
                    elif name == 'copied':
                        outs.append((st2, some(self.read(st2, self.deref(inner)) if inner[0] == 'ref' else inner)))
                    else:
                        eid = st2.eid()
                        st2.events.append({'k': 'call', 'callee': '<T as std::clone::Clone>::clone', 'name': 'clone',
                                           'args': (inner,), 'ret': ('ret', eid), 'eid': eid, 'fn': fn['path'],
                                           'ln': t['ln'], 'frame': frame, 'ci': ci, 'mode': 'opaque',
                                           'argtys': ['&T']})
                        outs.append((st2, some(('ret', eid))))
                return outs
        if name == 'for_each' and args and isinstance(args[0], tuple) and args[0] and args[0][0] == 'optiter':
            outs = []
            for st2, inner in self._opt_split(st, args[0][1]):
                if inner is None:
                    outs.append((st2, UNIT))
                else:
                    for st3, rv in self.call_closure(st2, args[1], [inner]):
                        outs.append((st3, UNIT if rv is not PANIC else PANIC))
            return outs
        if path.startswith('std::result::Result') and name in ('map', 'map_err', 'ok', 'is_ok', 'is_err'):
            v = args[0]
            if name in ('is_ok', 'is_err') and v[0] == 'ref':
                v = self.read(st, v[1])
            outs = []
            for st2, variant, inner in self._enum_split(st, v, RESULT, ('Ok', 'Err')):
                if name in ('is_ok', 'is_err'):
                    outs.append((st2, ('const', int((variant == 'Ok') == (name == 'is_ok')))))
                elif name == 'ok':
                    outs.append((st2, some(inner) if variant == 'Ok' else NONE))
                elif (name == 'map') == (variant == 'Ok'):
                    for st3, rv in self.call_closure(st2, args[1], [inner]):
                        outs.append((st3, ('agg', RESULT, variant, (('0', rv),)) if rv is not PANIC else PANIC))
                else:
                    outs.append((st2, ('agg', RESULT, variant, (('0', inner),))))
            return outs
        if path.startswith('std::result::Result') and name in ('map_or', 'map_or_else', 'and_then', 'or_else') and len(args) >= 2:
            outs = []
            for st2, variant, inner in self._enum_split(st, args[0], RESULT, ('Ok', 'Err')):
                if name == 'map_or':
                    if variant == 'Ok':
                        for st3, rv in self.call_closure(st2, args[2], [inner]):
                            outs.append((st3, rv))
                    else:
                        outs.append((st2, args[1]))
                elif name == 'map_or_else':
                    f_ = args[2] if variant == 'Ok' else args[1]
                    for st3, rv in self.call_closure(st2, f_, [inner]):
                        outs.append((st3, rv))
                elif (name == 'and_then') == (variant == 'Ok'):
                    for st3, rv in self.call_closure(st2, args[1], [inner]):
                        outs.append((st3, rv))
                else:
                    outs.append((st2, ('agg', RESULT, variant, (('0', inner),))))
            return outs
        if path.startswith('std::task::Poll') and name == 'map':
            outs = []
            for st2, variant, inner in self._enum_split(st, args[0], POLL, ('Ready', 'Pending')):
                if variant == 'Pending':
                    outs.append((st2, ('agg', POLL, 'Pending', ())))
                else:
                    for st3, rv in self.call_closure(st2, args[1], [inner]):
                        outs.append((st3, ('agg', POLL, 'Ready', (('0', rv),)) if rv is not PANIC else PANIC))
            return outs
        if path.startswith('std::task::Poll') and name in ('is_ready', 'is_pending'):
            v = self.read(st, self.deref(args[0]))
            want = 'Ready' if name == 'is_ready' else 'Pending'
            if v[0] == 'agg':
                return [(st, ('const', int(v[2] == want)))]
            k = self.variant_known(st, v)
            if k and k[0] == 'eq':
                return [(st, ('const', int(k[1] == want)))]
            return [(st, ('isv', v, want, POLL))]

        # ---- mem::replace / mem::take on Option slots behave like Option::replace / take
        if path in ('std::mem::replace', 'std::mem::take') and args and args[0][0] == 'ref':
            loc = self.deref(args[0])
            old = self.read(st, loc)
            if path == 'std::mem::take':
                dty = t.get('dest_ty', '')
                if dty.startswith('std::option::Option'):
                    new = NONE
                elif dty in ('bool', 'usize', 'u8', 'u16', 'u32', 'u64', 'u128', 'isize', 'i8', 'i16', 'i32', 'i64'):
                    new = ('const', 0)     # Default of a scalar
                else:
                    return None
            else:
                new = args[1]
            if new == NONE:
                ev('take', loc=loc, old=old)
            else:
                ev('replace', loc=loc, old=old, val=new)
            self._write_ev(st, fn, frame, loc, new, t['ln'])
            return [(st, old)]

        # ---- the `?` operator on Option / Result
        if name == 'branch' and 'ops::Try' in (ci.get('trait') or '') + path:
            v = args[0]
            CF = 'std::ops::ControlFlow'
            outs = []
            if v[0] == 'agg' and v[1] == OPTION:
                if v[2] == 'Some':
                    return [(st, ('agg', CF, 'Continue', (('0', v[3][0][1]),)))]
                return [(st, ('agg', CF, 'Break', (('0', NONE),)))]
            if v[0] == 'agg' and v[1] == RESULT:
                if v[2] == 'Ok':
                    return [(st, ('agg', CF, 'Continue', (('0', v[3][0][1]),)))]
                return [(st, ('agg', CF, 'Break', (('0', v),)))]
            if 'Option' in (ci.get('gargs_str') or '') or 'Option' in path:
                for st2, inner in self._opt_split(st, v):
                    if inner is None:
                        outs.append((st2, ('agg', CF, 'Break', (('0', NONE),))))
                    else:
                        outs.append((st2, ('agg', CF, 'Continue', (('0', inner),))))
                return outs
            return None
        if name == 'from_residual' and 'FromResidual' in (ci.get('trait') or '') + path:
            if args and (args[0] == NONE or 'Option' in path):
                return [(st, NONE)]
            # Result: `Err(e)?` returns Err(From::from(e)); with the same error type on both sides that is Err(e)
            g = ci.get('gargs') or []
            if args and args[0][0] == 'agg' and args[0][1] == RESULT and args[0][2] == 'Err' and len(g) == 2 \
                    and all(x.get('path') == RESULT and len(x.get('args') or []) == 2 for x in g) \
                    and g[0]['args'][1].get('str') == g[1]['args'][1].get('str'):
                return [(st, args[0])]
            return None

        # ---- wakers
        if path.startswith('std::task::Context') and name == 'waker':
            return [(st, ('ref', (('cxwaker',),)))]
        if path.startswith('std::task::Waker') or (tr.endswith('clone::Clone') and args
                                                   and args[0] == ('ref', (('cxwaker',),))):
            if name == 'clone' and args[0] == ('ref', (('cxwaker',),)):
                return [(st, ('curwaker',))]
            if name in ('wake', 'wake_by_ref'):
                w = args[0]
                if name == 'wake_by_ref' and w[0] == 'ref':
                    w = self.read(st, w[1])
                ev('wake', waker=w, by_ref=(name == 'wake_by_ref'))
                return [(st, UNIT)]
            if name == 'will_wake':
                eid = ev('will_wake')
                return [(st, ('will_wake', self.read(st, self.deref(args[0])), eid))]

        # ---- comparisons through PartialEq / PartialOrd on references
        if name in ('eq', 'ne', 'lt', 'le', 'gt', 'ge') and len(args) == 2 and (
                'cmp::PartialEq' in tr or 'cmp::PartialOrd' in tr):
            a = self.read(st, self.deref(args[0])) if args[0][0] == 'ref' else args[0]
            b = self.read(st, self.deref(args[1])) if args[1][0] == 'ref' else args[1]
            ev('cmp', op=name.capitalize(), a=a, b=b)
            return [(st, ('bin', name.capitalize(), a, b))]

        # ---- NonNull
        if path.startswith('std::ptr::NonNull') and name in ('as_ref', 'as_mut'):
            inner = self.read(st, self.deref(args[0])) if args[0][0] == 'ref' else args[0]
            if inner[0] == 'ref':
                return [(st, inner)]
            return [(st, ('ref', (('D', inner),)))]
        if path.startswith('std::ptr::NonNull') and name in ('as_ptr',):
            return [(st, args[0])]
        if tr.endswith('convert::From') or tr.endswith('convert::Into'):
            if args and args[0][0] == 'ref' and 'NonNull' in (ci.get('gargs_str') or '') + path:
                return [(st, args[0])]
        return None

    def _opt_split(self, st, v):
        """fork on an Option value: yields (state, inner or None)"""
        if v[0] == 'agg':
            if v[2] == 'None':
                return [(st, None)]
            return [(st, v[3][0][1])]
        outs = []
        st_none = st.copy()
        if self.assume_variant(st_none, v, 'None', True, OPTION):
            outs.append((st_none, None))
        if self.assume_variant(st, v, 'Some', True, OPTION):
            outs.append((st, self.project(v, (('dc', 'Some'), '0'))))
        return outs

    def _enum_split(self, st, v, enum, variants):
        """fork on a two-variant enum value whose first variant carries one payload: yields (state, variant, payload)"""
        if v[0] == 'agg':
            return [(st, v[2], v[3][0][1] if v[3] else None)]
        outs = []
        for i, var in enumerate(variants):
            st2 = st.copy() if i < len(variants) - 1 else st
            if self.assume_variant(st2, v, var, True, enum):
                outs.append((st2, var, self.project(v, (('dc', var), '0'))))
        return outs

    def _opt_fork(self, st, v, mk_some):
        outs = []
        for st2, inner in self._opt_split(st, v):
            outs.append((st2, NONE if inner is None else mk_some(st2)))
        return outs

    def call_closure(self, st, clo, params):
        """run a closure value on `params`; yields (state, ret)"""
        if clo[0] == 'fn':
            fpath = clo[1]
            callee = self.F.fn(fpath)
            # a tuple-struct / tuple-variant constructor used as a function (`.map_err(ChannelSendError)`)
            base = strip_generics_(fpath)
            std_ctor = {'Some': OPTION, 'Ok': RESULT, 'Err': RESULT, 'Ready': POLL}
            last_ = base.rsplit('::', 1)[-1]
            if callee is None and last_ in std_ctor and len(params) == 1 and base.startswith('std::') and \
                    base.rsplit('::', 1)[0].endswith(std_ctor[last_].rsplit('::', 1)[-1]):
                yield st, ('agg', std_ctor[last_], last_, (('0', params[0]),))
                return
            if callee is None and base in self.F.adts and self.F.adts[base]['kind'] == 'struct':
                a_ = self.F.adts[base]
                yield st, ('agg', base, a_['variants'][0]['name'],
                           tuple((f['name'], v) for f, v in zip(a_['variants'][0]['fields'], params)))
                return
            if callee is None and '::' in base and base.rsplit('::', 1)[0] in self.F.adts:
                a_ = self.F.adts[base.rsplit('::', 1)[0]]
                var = [v_ for v_ in a_['variants'] if v_['name'] == base.rsplit('::', 1)[1]]
                if a_['kind'] == 'enum' and var:
                    yield st, ('agg', a_['path'], var[0]['name'],
                               tuple((f['name'], v) for f, v in zip(var[0]['fields'], params)))
                    return
            if callee is not None and fpath not in st.stack and len(st.stack) < self.max_depth + 2:
                eid = st.eid()
                frame0 = st.nframe
                st.events.append({'k': 'call', 'callee': fpath, 'name': callee.get('name') or fpath.split('::')[-1],
                                  'args': tuple(params), 'ret': None, 'eid': eid,
                                  'fn': st.stack[-1] if st.stack else '?', 'ln': 0, 'frame': frame0,
                                  'ci': {}, 'mode': 'inline', 'argtys': []})
                for st2, rv in self.run_fn(callee, list(params), st):
                    if rv is not PANIC:
                        st2.events.append({'k': 'ret', 'callee': fpath, 'name': callee.get('name'), 'ret': rv,
                                           'eid': eid, 'fn': st2.stack[-1] if st2.stack else '?', 'ln': 0,
                                           'frame': frame0})
                    yield st2, rv
                return
            short = fpath.split('::')[-1]
            # a std predicate passed as a function (`drive(.., Poll::is_ready, ..)`, `.filter(Option::is_some)`)
            preds = {'is_ready': ('Ready', POLL), 'is_pending': ('Pending', POLL), 'is_some': ('Some', OPTION),
                     'is_none': ('None', OPTION)}
            if short in preds and params and (('Poll' in fpath) == (preds[short][1] == POLL)):
                v = params[0]
                for _ in range(2):
                    if v[0] == 'ref':
                        v = self.read(st, v[1])
                want, enum = preds[short]
                if v[0] == 'agg':
                    yield st, ('const', int(v[2] == want))
                    return
                k = self.variant_known(st, v)
                if k and k[0] == 'eq':
                    yield st, ('const', int(k[1] == want))
                    return
                yield st, ('isv', v, want, enum)
                return
            if fpath.endswith('Waker::wake') or fpath.endswith('Waker::wake_by_ref'):
                w = params[0]
                if short == 'wake_by_ref' and w[0] == 'ref':
                    w = self.read(st, w[1])
                st.events.append({'k': 'wake', 'waker': w, 'by_ref': short == 'wake_by_ref',
                                  'fn': st.stack[-1] if st.stack else '?', 'ln': 0, 'frame': st.nframe,
                                  'callee': fpath, 'name': short, 'eid': st.eid()})
                yield st, UNIT
                return
            # any other std function passed as a value (`Option::take`, `Option::is_some`, ..): what a direct call of it
            # would be summarised as
            if callee is None:
                base_ = strip_generics_(fpath)
                radt_ = base_.rsplit('::', 1)[0] if '::' in base_ else None
                ci_ = {'path': fpath, 'name': short, 'rpath': fpath, 'radt': radt_, 'rtrait': '', 'trait': None,
                       'rlocal': False, 'krate': 'core', 'gargs': [], 'resolved_gargs': []}
                fr_ = st.nframe
                fn_ = st.frame_fn.get(fr_) or {'path': st.stack[-1] if st.stack else '?'}
                try:
                    res_ = self.summary(fn_, fr_, st, {'ln': 0, 'argtys': [], 'dest_ty': '', 't': 0}, ci_, list(params))
                except Exception:
                    res_ = None
                if res_ is not None:
                    for st2, rv in res_:
                        yield st2, rv
                    return
            if short == 'clone' and params:
                eid = st.eid()
                st.events.append({'k': 'call', 'callee': fpath, 'name': 'clone', 'args': tuple(params),
                                  'ret': ('ret', eid), 'eid': eid, 'fn': st.stack[-1] if st.stack else '?',
                                  'ln': 0, 'frame': st.nframe, 'ci': {}, 'mode': 'opaque', 'argtys': []})
                yield st, ('ret', eid)
                return
        if clo[0] != 'closure':
            eid = st.eid()
            st.events.append({'k': 'call', 'callee': '<closure?>', 'name': '<closure>', 'args': tuple(params),
                              'ret': ('ret', eid), 'eid': eid, 'fn': st.stack[-1] if st.stack else '?',
                              'ln': 0, 'frame': 0, 'ci': {}, 'mode': 'opaque'})
            yield st, ('ret', eid)
            return
        body = self.F.fn(clo[1])
        if body is None or clo[1] in st.stack:
            eid = st.eid()
            yield st, ('ret', eid)
            return
        env_ty = body['locals'][1]['ty']
        env_val = ('tuple', clo[2])
        if env_ty['k'] == 'ref':
            eid = st.eid()
            env_loc = (('C', eid),)
            st.store[env_loc] = env_val
            a0 = ('ref', env_loc)
        else:
            a0 = env_val
        args = [a0] + list(params)
        # a closure written inside a generic function sees that function's type parameters: it inherits the instance
        # of the (latest) frame of the function it was written in
        parent = body.get('parent')
        while parent and (self.F.fn(parent) or {}).get('kind') == 'closure':
            parent = self.F.fn(parent).get('parent')
        for f_ in sorted(st.frame_subst, reverse=True):
            if (st.frame_fn.get(f_) or {}).get('path') == parent:
                st.pending_subst = st.frame_subst[f_]
                break
        # closures take their params as a single tupled argument only at the
        # Fn* trait boundary; the MIR body has them as separate locals.
        yield from self.run_fn(body, args, st)


# ---------------------------------------------------------------------- display
def fmt_loc(loc):
    out = []
    for i, e in enumerate(loc):
        if i == 0:
            if e[0] == 'P':
                out.append(e[1])
            elif e[0] == 'L':
                out.append('_%d' % e[2])
            elif e[0] == 'tok':
                out.append('token@%d' % e[1])
            elif e[0] == 'D':
                out.append('*(%s)' % fmt_val(e[1]))
            elif e[0] == 'C':
                out.append('closure_env')
            else:
                out.append(str(e[0]))
        elif isinstance(e, tuple) and e[0] == 'dc':
            out.append('as ' + e[1])
        elif e == 'data':
            continue
        else:
            out.append(str(e))
    return '.'.join(out)


def fmt_val(v, depth=0):
    if not isinstance(v, tuple) or not v:
        return str(v)
    if depth > 4:
        return '...'
    t = v[0]
    if t == 'const':
        return str(v[1])
    if t == 'init':
        return 'init(' + fmt_loc(v[1]) + ')'
    if t == 'ref':
        return '&' + fmt_loc(v[1])
    if t == 'agg':
        short = v[1].split('::')[-1]
        if not v[3]:
            return '%s::%s' % (short, v[2])
        return '%s::%s(%s)' % (short, v[2], ', '.join(fmt_val(x, depth + 1) for _, x in v[3]))
    if t == 'tuple':
        return '(' + ', '.join(fmt_val(x, depth + 1) for x in v[1]) + ')'
    if t == 'bin':
        return '%s(%s, %s)' % (v[1], fmt_val(v[2], depth + 1), fmt_val(v[3], depth + 1))
    if t == 'un':
        return '%s(%s)' % (v[1], fmt_val(v[2], depth + 1))
    if t == 'ret':
        return 'ret#'
    if t == 'param':
        return str(v[1])
    if t == 'curwaker':
        return 'current_waker'
    if t == 'discr':
        return 'discr(%s)' % fmt_val(v[1], depth + 1)
    if t == 'isv':
        return 'is_%s(%s)' % (v[2], fmt_val(v[1], depth + 1))
    if t == 'field':
        e = v[2]
        return '%s.%s' % (fmt_val(v[1], depth + 1), ('as ' + e[1]) if isinstance(e, tuple) else e)
    if t == 'qempty':
        return 'is_empty(%s)' % fmt_loc(v[1])
    if t == 'qremoved':
        return 'removed#'
    if t == 'guard':
        return 'guard(%s)' % fmt_loc(v[1])
    if t == 'pin':
        return 'pin(%s)' % fmt_val(v[1], depth + 1)
    if t == 'struct':
        return 'struct@' + fmt_loc(v[1])
    if t == 'havoc':
        return 'havoc(%s)' % fmt_loc(v[2])
    if t == 'closure':
        return 'closure(%s)' % v[1]
    return t
