use futures::future::{FusedFuture, Future};
use futures::task::{Context, Poll};
use futures_intrusive::sync::LocalSemaphore;
use futures_intrusive::channel::shared::oneshot_broadcast_channel;
use futures_test::task::new_count_waker;
use pin_utils::pin_mut;

// D1a: large head request cancelled while a smaller one behind it fits
#[test]
fn d1a_cancel_head_strands_follower() {
    for fair in [false, true] {
        let sem = LocalSemaphore::new(fair, 1);
        let (w_big, c_big) = new_count_waker();
        let (w_small, c_small) = new_count_waker();
        let mut cx_big = Context::from_waker(&w_big);
        let mut cx_small = Context::from_waker(&w_small);
        let small = sem.acquire(1);
        pin_mut!(small);
        {
            let big = sem.acquire(2);
            pin_mut!(big);
            assert!(big.as_mut().poll(&mut cx_big).is_pending()); // head, needs 2 > 1
            if fair {
                assert!(small.as_mut().poll(&mut cx_small).is_pending()); // behind head (fair)
            } else {
                // unfair: small would acquire immediately; make it wait by draining first
                let r = sem.try_acquire(1).unwrap();
                assert!(small.as_mut().poll(&mut cx_small).is_pending());
                drop(r); // release(1): wakeup_waiters looks at head `big` (2>1) and stops
            }
            assert_eq!(c_small.get(), 0);
            // big dropped here (cancelled) while Waiting
        }
        let _ = c_big;
        // Now head == small, needs 1, permits == 1: it fits. Was it woken?
        println!("fair={} permits={} small woken {} times", fair, sem.permits(), c_small.get());
        assert_eq!(sem.permits(), 1);
        assert_eq!(c_small.get(), 0, "EXPECTED-DEFECT: follower not woken (fair={})", fair);
    }
}

// D1b: notified large request finds permits stolen, re-queues; fitting smaller one stays asleep
#[test]
fn d1b_requeue_strands_follower() {
    let sem = LocalSemaphore::new(false, 0);
    let (wa, ca) = new_count_waker();
    let (wb, cb) = new_count_waker();
    let mut cxa = Context::from_waker(&wa);
    let mut cxb = Context::from_waker(&wb);
    let a = sem.acquire(2);
    let b = sem.acquire(1);
    pin_mut!(a);
    pin_mut!(b);
    assert!(a.as_mut().poll(&mut cxa).is_pending());
    assert!(b.as_mut().poll(&mut cxb).is_pending());
    sem.release(2); // A notified+removed, B does not fit in remaining 0
    assert_eq!((ca.get(), cb.get()), (1, 0));
    let mut stolen = sem.try_acquire(1).unwrap(); // barger
    stolen.disarm();
    assert_eq!(sem.permits(), 1);
    assert!(a.as_mut().poll(&mut cxa).is_pending()); // 1 < 2: re-queues behind B
    println!("permits={} b woken {} times", sem.permits(), cb.get());
    assert_eq!(cb.get(), 0, "EXPECTED-DEFECT: B (needs 1, 1 available, oldest) not woken");
}

// D3: dropping one clone of a oneshot broadcast receiver closes the channel
#[test]
fn d3_dropping_one_receiver_clone_closes() {
    let (sender, receiver) = oneshot_broadcast_channel::<i32>();
    let r2 = receiver.clone();
    drop(r2);
    let res = sender.send(5);
    println!("send after dropping one clone: {:?}", res);
    assert!(res.is_err(), "EXPECTED-DEFECT: channel closed although a receiver is alive");
    let f = receiver.receive();
    pin_mut!(f);
    let (w, _c) = new_count_waker();
    let mut cx = Context::from_waker(&w);
    assert_eq!(f.as_mut().poll(&mut cx), Poll::Ready(None));
    assert!(f.is_terminated());
}
